From Coq Require Import ZArith List Bool Lia.
Import ListNotations.
Open Scope Z_scope.

(* counters-based state of the 3-thread pipeline; items are 0..n-1 in order *)
Inductive mpc := MPut | MJoinC | MJoinW | MFlush | MDone.
Inductive cpc := CGet | CPut | CDone.          (* CGet: waiting to get; CPut: holds compressed item, wants to put; CDone: wants task_done *)
Inductive wpc := WHdr | WGet | WWrite | WDone.
Record st := { n : Z; capc : Z; capw : Z;
  mp : mpc; a : Z;            (* items put on qc by main *)
  cp : cpc; b : Z;            (* items got by compressor *)
  c : Z;                      (* items put on qw *)
  d : Z;                      (* task_done on qc *)
  wp : wpc; e : Z;            (* items got by writer *)
  f : Z;                      (* blocks written *)
  h : Z;                      (* task_done on qw *)
  hdr : bool; flushed : bool }.

Definition qc_len s := a s - b s.
Definition qw_len s := c s - e s.
Definition unf_c s := a s - d s.
Definition unf_w s := c s - h s.

Inductive step : st -> st -> Prop :=
| S_put s : mp s = MPut -> a s < n s -> qc_len s < capc s ->
    step s {| n := n s; capc := capc s; capw := capw s; mp := MPut; a := a s + 1; cp := cp s; b := b s; c := c s; d := d s; wp := wp s; e := e s; f := f s; h := h s; hdr := hdr s; flushed := flushed s |}
| S_putdone s : mp s = MPut -> a s = n s ->
    step s {| n := n s; capc := capc s; capw := capw s; mp := MJoinC; a := a s; cp := cp s; b := b s; c := c s; d := d s; wp := wp s; e := e s; f := f s; h := h s; hdr := hdr s; flushed := flushed s |}
| S_joinc s : mp s = MJoinC -> unf_c s = 0 ->
    step s {| n := n s; capc := capc s; capw := capw s; mp := MJoinW; a := a s; cp := cp s; b := b s; c := c s; d := d s; wp := wp s; e := e s; f := f s; h := h s; hdr := hdr s; flushed := flushed s |}
| S_joinw s : mp s = MJoinW -> unf_w s = 0 ->
    step s {| n := n s; capc := capc s; capw := capw s; mp := MFlush; a := a s; cp := cp s; b := b s; c := c s; d := d s; wp := wp s; e := e s; f := f s; h := h s; hdr := hdr s; flushed := flushed s |}
| S_flush s : mp s = MFlush ->
    step s {| n := n s; capc := capc s; capw := capw s; mp := MDone; a := a s; cp := cp s; b := b s; c := c s; d := d s; wp := wp s; e := e s; f := f s; h := h s; hdr := hdr s; flushed := true |}
| S_cget s : cp s = CGet -> 0 < qc_len s ->
    step s {| n := n s; capc := capc s; capw := capw s; mp := mp s; a := a s; cp := CPut; b := b s + 1; c := c s; d := d s; wp := wp s; e := e s; f := f s; h := h s; hdr := hdr s; flushed := flushed s |}
| S_cput s : cp s = CPut -> qw_len s < capw s ->
    step s {| n := n s; capc := capc s; capw := capw s; mp := mp s; a := a s; cp := CDone; b := b s; c := c s + 1; d := d s; wp := wp s; e := e s; f := f s; h := h s; hdr := hdr s; flushed := flushed s |}
| S_cdone s : cp s = CDone ->
    step s {| n := n s; capc := capc s; capw := capw s; mp := mp s; a := a s; cp := CGet; b := b s; c := c s; d := d s + 1; wp := wp s; e := e s; f := f s; h := h s; hdr := hdr s; flushed := flushed s |}
| S_whdr s : wp s = WHdr ->
    step s {| n := n s; capc := capc s; capw := capw s; mp := mp s; a := a s; cp := cp s; b := b s; c := c s; d := d s; wp := WGet; e := e s; f := f s; h := h s; hdr := true; flushed := flushed s |}
| S_wget s : wp s = WGet -> 0 < qw_len s ->
    step s {| n := n s; capc := capc s; capw := capw s; mp := mp s; a := a s; cp := cp s; b := b s; c := c s; d := d s; wp := WWrite; e := e s + 1; f := f s; h := h s; hdr := hdr s; flushed := flushed s |}
| S_wwrite s : wp s = WWrite ->
    step s {| n := n s; capc := capc s; capw := capw s; mp := mp s; a := a s; cp := cp s; b := b s; c := c s; d := d s; wp := WDone; e := e s; f := f s + 1; h := h s; hdr := hdr s; flushed := flushed s |}
| S_wdone s : wp s = WDone ->
    step s {| n := n s; capc := capc s; capw := capw s; mp := mp s; a := a s; cp := cp s; b := b s; c := c s; d := d s; wp := WGet; e := e s; f := f s; h := h s + 1; hdr := hdr s; flushed := flushed s |}.

Definition init (N cc cw : Z) : st :=
  {| n := N; capc := cc; capw := cw; mp := MPut; a := 0; cp := CGet; b := 0; c := 0; d := 0; wp := WHdr; e := 0; f := 0; h := 0; hdr := false; flushed := false |}.

Definition cb (p : cpc) : Z * Z := match p with CGet => (0,0) | CPut => (1,0) | CDone => (0,1) end. (* b-c , c-d *)
Definition wb (p : wpc) : Z * Z := match p with WHdr => (0,0) | WGet => (0,0) | WWrite => (1,0) | WDone => (0,1) end. (* e-f, f-h *)

Definition Inv (s : st) : Prop :=
  0 <= n s /\ 1 <= capc s /\ 1 <= capw s /\
  0 <= a s <= n s /\ b s <= a s /\ a s - b s <= capc s /\ c s - e s <= capw s /\ e s <= c s /\
  b s - c s = fst (cb (cp s)) /\ c s - d s = snd (cb (cp s)) /\
  e s - f s = fst (wb (wp s)) /\ f s - h s = snd (wb (wp s)) /\
  0 <= d s /\ 0 <= h s /\
  (wp s = WHdr -> hdr s = false /\ e s = 0) /\ (wp s <> WHdr -> hdr s = true) /\
  (mp s <> MPut -> a s = n s) /\
  (mp s = MJoinW \/ mp s = MFlush \/ mp s = MDone -> d s = n s) /\
  (mp s = MFlush \/ mp s = MDone -> h s = n s) /\
  (flushed s = true <-> mp s = MDone).

Lemma inv_init N cc cw : 0 <= N -> 1 <= cc -> 1 <= cw -> Inv (init N cc cw).
Proof. unfold Inv, init; cbn. intros. repeat split; try lia; try congruence; try discriminate; intuition congruence. Qed.

Ltac pcs s := destruct (cp s) eqn:?CC; destruct (wp s) eqn:?WW; destruct (mp s) eqn:?MM; cbn [cb wb fst snd] in *.
Lemma inv_step s s' : Inv s -> step s s' -> Inv s'.
Proof.
  intros I H. unfold Inv in *. 
  destruct I as (I1&I2&I3&I4&I5&I6&I7&I8&I9&I10&I11&I12&I13&I14&I15&I16&I17&I18&I19&I20).
  inversion H; subst; clear H; cbn [n capc capw mp a cp b c d wp e f h hdr flushed] in *;
  unfold qc_len, qw_len, unf_c, unf_w in *; pcs s; try discriminate;
  repeat split; try lia; try congruence; try discriminate; try (intuition (try congruence; try lia; try discriminate)).
Qed.

(* final = main returned *)
Definition final s := mp s = MDone.
Theorem final_correct s : Inv s -> 1 <= n s -> final s -> hdr s = true /\ f s = n s /\ h s = n s /\ flushed s = true.
Proof.
  unfold Inv, final. intros (I1&I2&I3&I4&I5&I6&I7&I8&I9&I10&I11&I12&I13&I14&I15&I16&I17&I18&I19&I20) N1 F.
  assert (h s = n s) by (apply I19; tauto). assert (d s = n s) by (apply I18; tauto). assert (a s = n s) by (apply I17; congruence).
  assert (flushed s = true) by (apply I20; assumption).
  pcs s; try discriminate; repeat split; try lia; try assumption; try (apply I16; discriminate);
  try (destruct I15 as [E0 E1]; [reflexivity|]; lia).
Qed.

(* after return no step is enabled at all: the daemons are blocked on get *)
Theorem quiescent s s' : Inv s -> 1 <= n s -> final s -> step s s' -> False.
Proof.
  intros I N1 F H. pose proof (final_correct s I N1 F) as (Hh & Hf & Hhh & _).
  unfold Inv, final in *. destruct I as (I1&I2&I3&I4&I5&I6&I7&I8&I9&I10&I11&I12&I13&I14&I15&I16&I17&I18&I19&I20).
  assert (d s = n s) by (apply I18; tauto). assert (a s = n s) by (apply I17; congruence).
  inversion H; subst; clear H; unfold qc_len, qw_len, unf_c, unf_w in *; try congruence;
  pcs s; try discriminate; try lia; try (destruct I15 as [E1 E2]; [reflexivity|]; congruence).
Qed.

(* progress: not final -> some step enabled *)
Theorem no_deadlock s : Inv s -> ~ final s -> exists s', step s s'.
Proof.
  intros I NF. unfold Inv, final in *. destruct I as (I1&I2&I3&I4&I5&I6&I7&I8&I9&I10&I11&I12&I13&I14&I15&I16&I17&I18&I19&I20).
  destruct (wp s) eqn:W; [eexists; apply S_whdr; assumption | | eexists; apply S_wwrite; assumption | eexists; apply S_wdone; assumption].
  (* writer at WGet *)
  destruct (Z_lt_dec 0 (qw_len s)) as [Q|Q]; [eexists; apply S_wget; assumption|].
  destruct (cp s) eqn:C; [ | eexists; apply S_cput; [assumption| unfold qw_len in *; lia] | eexists; apply S_cdone; assumption].
  (* compressor at CGet *)
  destruct (Z_lt_dec 0 (qc_len s)) as [Q2|Q2]; [eexists; apply S_cget; assumption|].
  cbn [cb wb fst snd] in *. unfold qc_len, qw_len in *.
  destruct (mp s) eqn:M.
  - destruct (Z_lt_dec (a s) (n s)); [eexists; apply S_put; [assumption|assumption|unfold qc_len; lia] | eexists; apply S_putdone; [assumption|lia]].
  - eexists; apply S_joinc; [assumption| unfold unf_c; lia].
  - eexists; apply S_joinw; [assumption| unfold unf_w; lia].
  - eexists; apply S_flush; assumption.
  - congruence.
Qed.

(* termination: every step decreases a measure *)
Definition pcm (s : st) : Z := match mp s with MPut => 4 | MJoinC => 3 | MJoinW => 2 | MFlush => 1 | MDone => 0 end.
Definition mu (s : st) : Z := 7 * n s + 5 - (a s + b s + c s + d s + e s + f s + h s) + pcm s + (if hdr s then 0 else 1) - 5.
Theorem step_decreases s s' : Inv s -> step s s' -> 0 <= mu s' < mu s.
Proof.
  intros I H. pose proof (inv_step _ _ I H) as I'.
  unfold Inv in I.
  destruct I as (I1&I2&I3&I4&I5&I6&I7&I8&I9&I10&I11&I12&I13&I14&I15&I16&I17&I18&I19&I20).
  inversion H; subst; clear H; unfold mu, pcm, qc_len, qw_len, unf_c, unf_w in *; cbn [n capc capw mp a cp b c d wp e f h hdr flushed] in *;
  pcs s; try discriminate; destruct (hdr s) eqn:HH; try lia;
  try (destruct I15 as [E1 E2]; [reflexivity|]; try congruence; lia);
  try (assert (X: hdr s = true) by (apply I16; discriminate); congruence).
Qed.
Print Assumptions step_decreases.
