From Coq Require Import ZArith List Bool Lia.
Open Scope Z_scope.

Definition pad (orig m : Z) : Z := if orig mod m =? 0 then orig else m * (orig / m + 1).

Lemma pad_spec o m : 0 < m -> 0 <= o -> o <= pad o m < o + m /\ (pad o m) mod m = 0.
Proof.
  intros Hm Ho. unfold pad. pose proof (Z.div_mod o m ltac:(lia)) as D. pose proof (Z.mod_pos_bound o m Hm) as B.
  destruct (o mod m =? 0) eqn:E.
  - apply Z.eqb_eq in E. split; [lia|exact E].
  - apply Z.eqb_neq in E. split; [nia|]. rewrite Z.mul_comm. apply Z_mod_mult.
Qed.

Lemma mixed_inj B C a b c a' b' c' :
  0 <= b < B -> 0 <= c < C -> 0 <= b' < B -> 0 <= c' < C ->
  (a*B + b)*C + c = (a'*B + b')*C + c' -> a = a' /\ b = b' /\ c = c'.
Proof.
  intros Hb Hc Hb' Hc' E.
  assert (E1: (a*B+b) = (a'*B+b') /\ c = c').
  { apply (Z.div_mod_unique C); [left; lia | left; lia | lia]. }
  destruct E1 as [E1 E2]. 
  assert (E3: a = a' /\ b = b').
  { apply (Z.div_mod_unique B); [left; lia | left; lia | lia]. }
  tauto.
Qed.

Lemma exact_div a b : 0 < b -> a mod b = 0 -> a = b * (a / b).
Proof. intros. apply Z_div_exact_full_2; lia. Qed.

Section ILSET.
Variables (ub bs2 PX PZ : Z).
Hypothesis Hub : 0 < ub.
Hypothesis Hbs2 : 0 < bs2 /\ bs2 mod 4 = 0.
Hypothesis Hblock : ub * (bs2/4) = 4096.
Hypothesis HPX : 0 < PX /\ PX mod 4 = 0.
Hypothesis HPZ : 0 < PZ /\ PZ mod bs2 = 0.
Definition uidx (iu xu zu : Z) : Z := (iu * (PX/4) + xu) * (PZ/4) + zu.
Definition chunk_bytes := 4096 * (PZ / bs2).
Definition il_off (i : Z) := ((chunk_bytes * PX) / 4) * (i / 4).
Definition il_len := chunk_bytes * PX.

Lemma PZ4 : PZ / 4 = (PZ / bs2) * (bs2 / 4).
Proof.
  destruct Hbs2 as [A B], HPZ as [C D].
  pose proof (exact_div PZ bs2 A D) as E. pose proof (exact_div bs2 4 ltac:(lia) B) as F.
  set (q := PZ / bs2) in *. set (r := bs2/4) in *.
  rewrite E at 1. rewrite F at 1. replace (4 * r * q) with ((r*q)*4) by ring. rewrite Z_div_mult by lia. ring.
Qed.

Theorem il_set_addr i x z : 0 <= i -> 0 <= x < PX -> 0 <= z < PZ ->
  il_off i + ((x/4)*(PZ/4) + z/4) * ub = ub * uidx (i/4) (x/4) (z/4).
Proof.
  intros Hi Hx Hz. unfold il_off, il_len, chunk_bytes, uidx.
  rewrite PZ4. set (q := PZ / bs2). set (r := bs2/4) in *.
  destruct HPX as [A B]. pose proof (exact_div PX 4 ltac:(lia) B) as E2.
  set (p := PX/4) in *.
  replace (4096 * q * PX / 4) with (4096 * q * p).
  2:{ rewrite E2. replace (4096 * q * (4 * p)) with ((4096*q*p)*4) by ring. rewrite Z_div_mult by lia. reflexivity. }
  rewrite <- Hblock. ring.
Qed.
End ILSET.
Print Assumptions il_set_addr.
