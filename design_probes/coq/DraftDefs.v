From Coq Require Import ZArith List Bool Lia.
Import ListNotations.
Open Scope Z_scope.

(* ---------- Lib ---------- *)
Definition pad (o m : Z) : Z := if o mod m =? 0 then o else m * (o / m + 1).
Fixpoint zrange_aux (lo : Z) (n : nat) : list Z := match n with O => [] | S k => lo :: zrange_aux (lo+1) k end.
Definition zrange (lo hi : Z) : list Z := zrange_aux lo (Z.to_nat (hi - lo)).

(* ---------- Spec/Container ---------- *)
Record geo := { n_il : Z; n_xl : Z; n_s : Z; bs0 : Z; bs1 : Z; bs2 : Z; ub : Z (* bytes per 4x4x4 unit = 8*rate *) }.
Definition PI g := pad (n_il g) (bs0 g).
Definition PX g := pad (n_xl g) (bs1 g).
Definition PZ g := pad (n_s g) (bs2 g).
Definition is_pow2_ge4 (n : Z) : bool := (4 <=? n) && (Z.land n (n-1) =? 0).
Definition wf (g : geo) : bool :=
  (1 <=? n_il g) && (1 <=? n_xl g) && (1 <=? n_s g) &&
  is_pow2_ge4 (bs0 g) && is_pow2_ge4 (bs1 g) && is_pow2_ge4 (bs2 g) && (0 <? ub g) &&
  ((bs0 g / 4) * (bs1 g / 4) * (bs2 g / 4) * ub g =? 4096).
(* unit coordinates -> index of the unit in the data section: blocks il-major, z fastest; C order inside a block *)
Definition unit_index_spec (g : geo) (iu xu zu : Z) : Z :=
  let u0 := bs0 g / 4 in let u1 := bs1 g / 4 in let u2 := bs2 g / 4 in
  let nbx := PX g / bs1 g in let nbz := PZ g / bs2 g in
  let blk := ((iu / u0) * nbx + xu / u1) * nbz + zu / u2 in
  let inb := ((iu mod u0) * u1 + xu mod u1) * u2 + zu mod u2 in
  blk * (u0 * u1 * u2) + inb.
Definition spec_unit_offset g iu xu zu := ub g * unit_index_spec g iu xu zu.

(* provenance of one returned cell *)
Inductive cell := FromUnit (off : Z) (c : Z) (* c = ((i mod 4)*4 + x mod 4)*4 + z mod 4 *) | ZeroCell.
Definition spec_decode (g : geo) (i x z : Z) : cell :=
  FromUnit (spec_unit_offset g (i/4) (x/4) (z/4)) (((i mod 4)*4 + x mod 4)*4 + z mod 4).

(* ZFP array-level structure: decoding a buffer that holds the units of an (A,B,C) array in C order *)
Definition zfp_array_cell (base : Z -> Z) (* buffer position -> data-section offset it was filled from *)
                          (ubytes A B C a b c : Z) : cell :=
  FromUnit (base ((((a/4)*(B/4) + b/4)*(C/4) + c/4) * ubytes)) (((a mod 4)*4 + b mod 4)*4 + c mod 4).

(* ---------- results ---------- *)
Inductive err := IndexErr | WrongDim | AssertErr | ValueErr | OSErr | Crash.
Inductive res (A : Type) := Ok (a : A) | Error (e : err).
Arguments Ok {A}. Arguments Error {A}.

(* ---------- a read path in the model: plan + assembled grid ---------- *)
Record plan_item := { p_off : Z; p_len : Z; p_buf : Z }.
(* inline fast path, arithmetic as in loader.read_and_decompress_il_set / read.read_inline *)
Definition chunk_bytes g := 4096 * (PZ g / bs2 g).
Definition plan_il_set g (i : Z) : list plan_item :=
  [ {| p_off := ((chunk_bytes g * PX g) / 4) * (i / 4); p_len := chunk_bytes g * PX g; p_buf := 0 |} ].
Definition base_of (pl : list plan_item) (pos : Z) : Z :=
  match find (fun it => (p_buf it <=? pos) && (pos <? p_buf it + p_len it)) pl with
  | Some it => p_off it + (pos - p_buf it) | None => -1 end.
Definition read_inline_model g (il : Z) : res (Z -> Z -> cell) :=
  if negb ((0 <=? il) && (il <? n_il g)) then Error IndexErr
  else Ok (fun x z => zfp_array_cell (base_of (plan_il_set g (4 * (il / 4)))) (ub g) 4 (PX g) (PZ g) (il mod 4) x z).

Definition coherent_inline_statement :=
  forall g il, wf g = true -> bs0 g = 4 -> bs1 g = 4 -> 0 <= il < n_il g ->
  exists f, read_inline_model g il = Ok f /\
            forall x z, 0 <= x < n_xl g -> 0 <= z < n_s g -> f x z = spec_decode g il x z.

(* ---------- version ---------- *)
Record ver := { vmaj : Z; vmin : Z; vpat : Z; vdev : bool }.
Definition enc_ver v := 1024*2048*vmaj v + 2048*vmin v + 2*vpat v + 1 - (if vdev v then 1 else 0).
Definition dec_ver (n : Z) : ver :=
  let M := n / (1024*2048) in let m := (n - M*1024*2048) / 2048 in
  {| vmaj := M; vmin := m; vpat := (n - M*1024*2048 - m*2048) / 2; vdev := n mod 2 =? 0 |}.
Definition ver_ok v := 0 <= vmaj v /\ 0 <= vmin v < 1024 /\ 0 <= vpat v < 1024.
Definition ver_lt a b :=
  vmaj a < vmaj b \/ (vmaj a = vmaj b /\ (vmin a < vmin b \/ (vmin a = vmin b /\
  (vpat a < vpat b \/ (vpat a = vpat b /\ vdev a = true /\ vdev b = false))))).
Lemma dec_enc v : ver_ok v -> dec_ver (enc_ver v) = v.
Proof.
  destruct v as [M m p d]; unfold ver_ok, dec_ver, enc_ver; cbn [vmaj vmin vpat vdev]; intros (HM & Hm & Hp).
  set (k := if d then 1 else 0). assert (Hk: 0 <= k <= 1) by (subst k; destruct d; lia).
  assert (E1: (1024*2048*M + 2048*m + 2*p + 1 - k) / (1024*2048) = M).
  { symmetry. apply (Z.div_unique_pos _ _ _ (2048*m + 2*p + 1 - k)); lia. }
  rewrite E1.
  assert (E2: (1024*2048*M + 2048*m + 2*p + 1 - k - M*1024*2048) / 2048 = m).
  { symmetry. apply (Z.div_unique_pos _ _ _ (2*p + 1 - k)); lia. }
  rewrite E2.
  assert (E3: (1024*2048*M + 2048*m + 2*p + 1 - k - M*1024*2048 - m*2048) / 2 = p).
  { symmetry. apply (Z.div_unique_pos _ _ _ (1 - k)); lia. }
  rewrite E3.
  assert (E4: ((1024*2048*M + 2048*m + 2*p + 1 - k) mod 2 =? 0) = d).
  { replace (1024*2048*M + 2048*m + 2*p + 1 - k) with ((1-k) + (1024*1024*M + 1024*m + p)*2) by ring.
    rewrite Z_mod_plus_full. subst k; destruct d; reflexivity. }
  rewrite E4. reflexivity.
Qed.
Lemma enc_monotone a b : ver_ok a -> ver_ok b -> (ver_lt a b <-> enc_ver a < enc_ver b).
Proof.
  destruct a as [M m p d], b as [M' m' p' d']; unfold ver_ok, ver_lt, enc_ver; cbn [vmaj vmin vpat vdev].
  intros (?&?&?) (?&?&?). destruct d, d'; split; intro H5; try lia.
Qed.
Print Assumptions enc_monotone.

(* ---------- pipeline ---------- *)
Inductive qid := Qc | Qw.
Inductive op := Get (q : qid) | Put (q : qid) | TaskDone (q : qid) | Join (q : qid) | Compress | WriteFile | WriteHeader | Flush.
Record queue_st := { items : list Z; unfinished : Z; cap : Z }.
