from mk import *
import hashlib
rs = np.random.RandomState(3)
ZT = zfpy.dtype_to_ztype(np.dtype('float32'))
def sconv(path, out, ck={}, **k):
    with SegyConverter(path, **ck) as c: c.run(out, **k)
# D. irregular with distinct il/xl increments
n_il, n_xl, ns = 5, 6, 9
a = rs.randn(n_il, n_xl, ns).astype(np.float32)
il = 10 + 3*np.arange(n_il); xl = 100 + 2*np.arange(n_xl)
present = np.ones((n_il,n_xl), bool); present[1,2]=False; present[3,0]=False; present[4,5]=False
idx = mk_segy("d.sgy", a, il, xl, present=present)
try:
    quiet(sconv, "d.sgy", "d.sgz", bits_per_voxel=16)
    with SgzReader("d.sgz") as r:
        print("D ilines", r.ilines, "xlines", r.xlines, "tracecount", r.tracecount, "structured", r.structured)
        tr_ok = all(np.allclose(r.get_trace(t), a[i,x], atol=1e-2) for t,(i,x) in enumerate(idx))
        print("D traces ok", tr_ok)
        v = r.read_volume()
        z = a.copy(); z[~present] = 0
        print("D volume close", np.allclose(v, z, atol=1e-2))
        g = np.pad(z, ((0,3),(0,2),(0,r.shape_pad[2]-ns)))  # zero-extended
        o = zfpy._decompress(zfpy.compress_numpy(g, rate=16, write_header=False), ZT, g.shape, rate=16)[:n_il,:n_xl,:ns]
        print("D volume eq zero-extended oracle", np.array_equal(o, v))
        print("D tracefield", r.get_tracefield_values(189))
        h = r.gen_trace_header(7); print("D hdr7", h[189], h[193], "src", il[idx[7][0]], xl[idx[7][1]])
except Exception as e:
    import traceback; traceback.print_exc()
