import numpy as np, zfpy, itertools
ZT = zfpy.dtype_to_ztype(np.dtype('float32'))
rs = np.random.RandomState(0)
for rate in [1, 2, 4, 8, 16, 32]:
    ub = int(16*rate)//8
    B, C = 12, 16
    a = (rs.randn(B,C) * 10.0**rs.randint(-3,4,(B,C))).astype(np.float32)
    s = zfpy.compress_numpy(a, rate=rate, write_header=False)
    size_ok = len(s) == (B//4)*(C//4)*ub
    keys = list(itertools.product(range(B//4), range(C//4)))
    units = {(q,r): (s[(q*(C//4)+r)*ub:(q*(C//4)+r+1)*ub], a[4*q:4*q+4,4*r:4*r+4]) for q,r in keys}
    perm = [keys[i] for i in rs.permutation(len(keys))]
    b = np.zeros_like(a)
    for (q,r), src in zip(keys, perm): b[4*q:4*q+4,4*r:4*r+4] = units[src][1]
    s2 = zfpy.compress_numpy(b, rate=rate, write_header=False)
    loc = s2 == b''.join(units[src][0] for src in perm)
    d = zfpy._decompress(s, ZT, a.shape, rate=rate); d2 = zfpy._decompress(s2, ZT, a.shape, rate=rate)
    dec_ok = all(np.array_equal(d2[4*q:4*q+4,4*r:4*r+4].view(np.uint32), d[4*sq:4*sq+4,4*sr:4*sr+4].view(np.uint32)) for (q,r),(sq,sr) in zip(keys, perm))
    print("2D", rate, "ub", ub, "size", size_ok, "locality/order", loc, "decode", dec_ok)
