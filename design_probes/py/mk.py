from common import *
def mk_segy(path, data, ilines, xlines, dt_us=4000, t0=0, fmt=5, present=None, hdr=None, sorting=2):
    """data: (n_il,n_xl,ns) float32. present: bool mask (n_il,n_xl) or None"""
    n_il, n_xl, ns = data.shape
    spec = segyio.spec()
    spec.format = fmt
    spec.samples = t0 + np.arange(ns) * dt_us / 1000.0
    if present is None:
        spec.sorting = sorting
        spec.ilines = np.asarray(ilines); spec.xlines = np.asarray(xlines); spec.offsets=[0]
        idx = [(i, x) for i in range(n_il) for x in range(n_xl)]
    else:
        idx = [(i, x) for i in range(n_il) for x in range(n_xl) if present[i, x]]
        spec.tracecount = len(idx)
    with segyio.create(path, spec) as f:
        f.bin[segyio.BinField.Interval] = dt_us
        f.bin[segyio.BinField.Samples] = ns
        for t, (i, x) in enumerate(idx):
            h = {segyio.TraceField.INLINE_3D: int(ilines[i]), segyio.TraceField.CROSSLINE_3D: int(xlines[x]),
                 segyio.TraceField.TRACE_SAMPLE_INTERVAL: dt_us, segyio.TraceField.TRACE_SAMPLE_COUNT: ns,
                 segyio.TraceField.DelayRecordingTime: t0, segyio.TraceField.offset: 0,
                 segyio.TraceField.CDP_X: 1000+7*i+x, segyio.TraceField.CDP_Y: 5000+3*i-11*x}
            if hdr: h.update(hdr(t, i, x))
            f.header[t] = h
            f.trace[t] = data[i, x]
    return idx
def mk_segy_2d(path, data, dt_us=4000, t0=0, fmt=5, hdr=None):
    nt, ns = data.shape
    spec = segyio.spec(); spec.format = fmt
    spec.samples = t0 + np.arange(ns) * dt_us / 1000.0
    spec.tracecount = nt
    with segyio.create(path, spec) as f:
        f.bin[segyio.BinField.Interval] = dt_us
        f.bin[segyio.BinField.Samples] = ns
        for t in range(nt):
            h = {segyio.TraceField.TRACE_SAMPLE_INTERVAL: dt_us, segyio.TraceField.TRACE_SAMPLE_COUNT: ns,
                 segyio.TraceField.DelayRecordingTime: t0, segyio.TraceField.CDP: t+100, segyio.TraceField.TRACE_SEQUENCE_FILE: t+1}
            if hdr: h.update(hdr(t))
            f.header[t] = h
            f.trace[t] = data[t]
