from mk import *
rs = np.random.RandomState(17)
TF = segyio.TraceField
def sconv(path, out, ck={}, **k):
    with SegyConverter(path, **ck) as c: c.run(out, **k)
n_il, n_xl, ns = 5, 7, 9
a = rs.randn(n_il, n_xl, ns).astype(np.float32)
def hdr(t, i, x):
    return {TF.FieldRecord: 7,                       # constant non-zero
            TF.TraceNumber: t+1,                     # varying
            TF.EnergySourcePoint: t+1,               # duplicate of TraceNumber
            TF.CDP: 5 if t in (0, n_il*n_xl-1) else 99,   # same at both ends, varies inside
            TF.SourceX: -12345678 + t, TF.SourceY: 2**31-1-t,
            TF.ElevationScalar: -100, TF.SourceGroupScalar: -32768 + (t % 3),   # 2-byte extremes
            TF.GroupX: (t*37) % 11,                  # varying; first==last? t=0 ->0, t=34 -> 1258%11=4
            TF.GroupY: 0 if t % 2 == 0 else 8}       # first (t=0)=0, last (t=34)=0 -> equal at ends but varying
mk_segy("p.sgy", a, 10+np.arange(n_il), 20+np.arange(n_xl), hdr=hdr)
for mode in ['heuristic', 'thorough', 'exhaustive', 'strip']:
    quiet(sconv, "p.sgy", "p.sgz", bits_per_voxel=8, header_detection=mode)
    with SgzReader("p.sgz") as r, segyio.open("p.sgy") as s:
        bad = {}
        for t in range(n_il*n_xl):
            h = r.gen_trace_header(t); sh = s.header[t]
            for k, v in h.items():
                if sh[k] != v: bad.setdefault(str(k), []).append(t)
        print(mode, "narr", r.n_header_arrays, "size", os.path.getsize("p.sgz"), "fields wrong:", {k: len(v) for k, v in bad.items()}, "text eq", r.file_text_header == open("p.sgy","rb").read(3200), "bin eq", r.file_binary_header == open("p.sgy","rb").read(3600)[3200:])
