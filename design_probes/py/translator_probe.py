import ast, sys
src = open('/repo/seismic_zfp/loader.py').read()
mod = ast.parse(src)
cls = {c.name: c for c in mod.body if isinstance(c, ast.ClassDef)}
meths = {}
for c in cls.values():
    for f in c.body:
        if isinstance(f, ast.FunctionDef): meths[f.name] = f

class Fail(Exception): pass
BIN = {ast.Add: '+', ast.Sub: '-', ast.Mult: '*', ast.FloorDiv: '/', ast.Mod: 'mod'}
def E(e, env):
    if isinstance(e, ast.Constant) and isinstance(e.value, int): return str(e.value)
    if isinstance(e, ast.Name):
        if e.id in env: return env[e.id]
        raise Fail(f"unbound {e.id}")
    if isinstance(e, ast.Attribute) and isinstance(e.value, ast.Name) and e.value.id == 'self':
        return f"(L.({e.attr}))"
    if isinstance(e, ast.Subscript) and isinstance(e.slice, ast.Constant):
        return f"(nth3 {E(e.value, env)} {e.slice.value})"
    if isinstance(e, ast.BinOp) and type(e.op) in BIN:
        return f"({E(e.left, env)} {BIN[type(e.op)]} {E(e.right, env)})"
    raise Fail(ast.dump(e)[:80])

def run(body, env, emits, ctx):
    """symbolic straight-line execution; emits: list of coq exprs for list (Z*Z*Z), wrapped by ctx loops"""
    for st in body:
        if isinstance(st, ast.Expr) and isinstance(st.value, ast.Constant): continue   # docstring
        if isinstance(st, ast.Assign) and len(st.targets) == 1 and isinstance(st.targets[0], ast.Name):
            try: env[st.targets[0].id] = E(st.value, env)
            except Fail:
                # maybe it is a call to _get_compressed_bytes
                call = st.value
                if isinstance(call, ast.Call) and getattr(call.func, 'attr', '') == '_get_compressed_bytes':
                    emits.append(ctx(f"[({E(call.args[0], env)}, {E(call.args[1], env)}, 0)]"))
                env[st.targets[0].id] = None   # poisoned
            continue
        if isinstance(st, ast.With):
            run(st.body, env, emits, ctx); continue
        if isinstance(st, ast.For) and isinstance(st.iter, ast.Call) and getattr(st.iter.func, 'id', '') == 'range':
            args = [E(a, env) for a in st.iter.args]
            lo, hi = ('0', args[0]) if len(args) == 1 else (args[0], args[1])
            v = st.target.id
            env2 = dict(env); env2[v] = v
            run(st.body, env2, emits, lambda s, ctx=ctx, v=v, lo=lo, hi=hi: ctx(f"flat_map (fun {v} => {s}) (zrange {lo} {hi})"))
            continue
        if isinstance(st, ast.Expr) and isinstance(st.value, ast.Call):
            call = st.value
            if getattr(call.func, 'attr', '') == 'submit':
                target = call.args[0].attr
                inline(target, [E(a, env) if not (isinstance(a, ast.Name) and a.id == 'buffer') else 'BUF' for a in call.args[1:]], emits, ctx)
                continue
        if isinstance(st, ast.Return): continue
        raise Fail(f"stmt {ast.dump(st)[:100]}")

def inline(name, args, emits, ctx):
    f = meths[name]
    params = [a.arg for a in f.args.args][1:]
    env = dict(zip(params, args))
    for st in f.body:
        if isinstance(st, ast.Expr) and isinstance(st.value, ast.Call) and getattr(st.value.func, 'attr', '').startswith('_insert'):
            inline(st.value.func.attr, [E(a, env) if not (isinstance(a, ast.Name) and env.get(a.id) == 'BUF') else 'BUF' for a in st.value.args], emits, ctx)
        elif isinstance(st, ast.Assign) and isinstance(st.value, ast.Call) and getattr(st.value.func, 'attr', '') == '_get_compressed_bytes':
            off, ln = [E(a, env) for a in st.value.args]
            env[st.targets[0].id] = ('PART', off, ln)
        elif isinstance(st, ast.Assign) and isinstance(st.targets[0], ast.Subscript) and isinstance(st.value, ast.Name) and isinstance(env.get(st.value.id), tuple):
            _, off, ln = env[st.value.id]
            sl = st.targets[0].slice
            emits.append(ctx(f"[({off}, {ln}, {E(sl.lower, env)})]"))
        else: raise Fail(f"inline stmt {ast.dump(st)[:100]}")

for name in ['read_and_decompress_il_set', 'read_and_decompress_xl_set', 'read_and_decompress_zslice_set', 'read_chunk_range']:
    f = meths[name]
    params = [a.arg for a in f.args.args][1:]
    env = {p: p for p in params}
    emits = []
    try:
        run(f.body, env, emits, lambda s: s)
        print(f"Definition plan_{name} (L : loader) {' '.join('(%s : Z)' % p if p != 'blocks_per_dim' else '(blocks_per_dim : Z*Z*Z)' for p in params)} : list (Z*Z*Z) :=\n  " + " ++\n  ".join(emits) + ".\n")
    except Fail as e:
        print(name, "FAIL", e)
