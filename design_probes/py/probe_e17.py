from mk import *
rs = np.random.RandomState(12)
def nconv(a, out, ck={}, **k):
    with NumpyConverter(a, **ck) as c: c.run(out, **k)
a = rs.randn(9, 9, 9).astype(np.float32)
for bpv, bs in [(0.5,(128,128,4)), (0.25,(256,128,4)), (1,(64,128,4)), (2,(64,64,4))]:
    quiet(nconv, a, "q.sgz", bits_per_voxel=bpv, blockshape=bs)
    with SgzReader("q.sgz") as r:
        v = r.read_volume(); z = r.read_zslice(5)
        print(bpv, bs, "zslice == volume[:,:,5]:", np.array_equal(z, v[:,:,5]), "zslice all zero:", not z.any(), "rate type", type(r.rate).__name__)
