import warnings, types, os, sys
warnings.filterwarnings("ignore")
import pkg_resources
_real = pkg_resources.get_distribution
def _fake(name):
    if name == 'seismic_zfp':
        return types.SimpleNamespace(version=os.environ.get("SZV", "0.2.5"))
    return _real(name)
pkg_resources.get_distribution = _fake
import numpy as np, segyio, zfpy
import seismic_zfp
from seismic_zfp.conversion import SegyConverter, NumpyConverter, SgzConverter
from seismic_zfp.read import SgzReader
from seismic_zfp.cropping import SgzCropper
import io, contextlib
def quiet(f, *a, **k):
    with contextlib.redirect_stdout(io.StringIO()):
        return f(*a, **k)
