from mk import *
rs = np.random.RandomState(15)
def nconv(a, out, ck={}, **k):
    with NumpyConverter(a, **ck) as c: c.run(out, **k)
class CF:
    def __init__(self, path): self.f = open(path,'rb'); self.name=path; self.log=[]; self.pos=0
    def seek(self, o, w=0): self.pos=o; return self.f.seek(o, w)
    def read(self, n=-1):
        self.log.append((self.pos, n)); b = self.f.read(n); self.pos += len(b); return b
    def close(self): self.f.close()
def summarize(log, ds):
    data = [(o-ds, n) for o, n in log if o >= ds]
    blocks = set()
    for o, n in data:
        for b in range(o//4096, (o+n-1)//4096+1): blocks.add(b)
    tot = sum(n for o, n in data)
    # duplicate bytes
    cov = {}
    dup = 0
    ivs = sorted(data)
    end = -1
    for o, n in ivs:
        if o < end: dup += min(end, o+n) - o
        end = max(end, o+n)
    return f"reads={len(data)} bytes={tot} blocks={len(blocks)} dupbytes={dup} nondata={[(o,n) for o,n in log if o<ds]}"
for shape, bpv, bs in [((9,10,300), 8, (4,4,-1)), ((70,70,9), 2, (64,64,4)), ((13,9,70), 8, (8,8,64))]:
    a = rs.randn(*shape).astype(np.float32)
    quiet(nconv, a, "c.sgz", bits_per_voxel=bpv, blockshape=bs)
    fh = CF("c.sgz"); r = SgzReader(fh)
    print(shape, bs, "->", r.blockshape, "pad", r.shape_pad, "open:", fh.log, "ndb", r.compressed_data_diskblocks)
    ds = r.data_start_bytes
    for name, f in [("inline 5", lambda: r.read_inline(5)), ("inline 6 (same set)", lambda: r.read_inline(6)), ("xline 5", lambda: r.read_crossline(5)), ("zslice 5", lambda: r.read_zslice(5)), ("trace 37", lambda: r.get_trace(37)), ("trace 38 (same chunk?)", lambda: r.get_trace(38)), ("trace 37 win(3,7)", lambda: r.get_trace(37,3,7)),
                    ("subvol 2:7,3:6,5:9", lambda: r.read_subvolume(2,7,3,6,5,9)), ("cd 1", lambda: r.read_correlated_diagonal(1)), ("ad 7", lambda: r.read_anticorrelated_diagonal(7)), ("hdr 7", lambda: r.gen_trace_header(7)), ("volume", lambda: r.read_volume())]:
        fh.log.clear(); f(); print("   ", name, summarize(fh.log, ds))
