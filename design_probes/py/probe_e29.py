from mk import *
rs = np.random.RandomState(21)
def nconv(a, out, ck={}, **k):
    with NumpyConverter(a, **ck) as c: c.run(out, **k)
def sconv(path, out, ck={}, **k):
    with SegyConverter(path, **ck) as c: c.run(out, **k)
a = rs.randn(4,5,6).astype(np.float32)
def t(label, f):
    try: print(label, f())
    except Exception as e: print(label, "EXC", type(e).__name__, str(e)[:80])
def np_axes(il, xl, sm):
    quiet(nconv, a, "ax.sgz", ck=dict(ilines=il, xlines=xl, samples=sm), bits_per_voxel=8)
    with SgzReader("ax.sgz") as r:
        return (np.array_equal(r.ilines, np.asarray(il)), np.array_equal(r.xlines, np.asarray(xl)), np.allclose(r.zslices, np.asarray(sm, dtype=float)), r.ilines[:2].tolist(), r.xlines[:2].tolist(), r.zslices[:3].tolist())
t("np arrays", lambda: np_axes(np.arange(10,14), np.arange(20,25), 4.0*np.arange(6)))
t("lists", lambda: np_axes([10,11,12,13], [20,21,22,23,24], [0.0,4.0,8.0,12.0,16.0,20.0]))
t("negative/descending", lambda: np_axes(np.arange(-3,-11,-2), np.arange(5,0,-1), 4.0*np.arange(6)))
t("big", lambda: np_axes(2**31-1-np.arange(4)[::-1]*1000, -2**31+np.arange(5)*7, 4.0*np.arange(6)))
t("samples 1.001ms", lambda: np_axes(np.arange(4), np.arange(5), 1.001*np.arange(6)))
t("samples start -200", lambda: np_axes(np.arange(4), np.arange(5), -200+0.5*np.arange(6)))
t("samples start 2.5 (fractional)", lambda: np_axes(np.arange(4), np.arange(5), 2.5+2.0*np.arange(6)))
t("int samples", lambda: np_axes(np.arange(4), np.arange(5), 4*np.arange(6)))
# SEG-Y axes
def sg_axes(il, xl, dt, t0):
    mk_segy("ax.sgy", a, il, xl, dt_us=dt, t0=t0)
    quiet(sconv, "ax.sgy", "ax2.sgz", bits_per_voxel=8)
    with SgzReader("ax2.sgz") as r, segyio.open("ax.sgy") as s:
        return (np.array_equal(r.ilines, s.ilines), np.array_equal(r.xlines, s.xlines), len(r.zslices)==len(s.samples) and np.allclose(r.zslices, s.samples, rtol=1e-12, atol=1e-9), r.tracecount == s.tracecount, r.structured, r.zslices[:3].tolist(), s.samples[:3].tolist())
t("segy neg desc", lambda: sg_axes(-3-2*np.arange(4), 50-3*np.arange(5), 2000, -200))
t("segy big", lambda: sg_axes(2**31-1-np.arange(4)[::-1]*1000, -2**31+np.arange(5)*7, 500, 32767))
t("segy dt=1 t0=-32768", lambda: sg_axes(np.arange(1,5), np.arange(1,6), 1, -32768))
t("segy dt=65535", lambda: sg_axes(np.arange(1,5), np.arange(1,6), 65535, 0))
t("segy dt=1001", lambda: sg_axes(np.arange(1,5), np.arange(1,6), 1001, 0))
t("segy dt=3", lambda: sg_axes(np.arange(1,5), np.arange(1,6), 3, 0))
