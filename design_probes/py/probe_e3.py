from mk import *
import hashlib
rs = np.random.RandomState(2)
ZT = zfpy.dtype_to_ztype(np.dtype('float32'))
def sconv(path, out, ck={}, **k):
    with SegyConverter(path, **ck) as c: c.run(out, **k)
# A. footer stride: n_traces multiple of 128 (8x16=128), 3 variant arrays at least
a = rs.randn(8,16,10).astype(np.float32)
mk_segy("a.sgy", a, range(10,18), range(100,116))
quiet(sconv, "a.sgy", "a.sgz", bits_per_voxel=8)
with SgzReader("a.sgz") as r, segyio.open("a.sgy") as s:
    print("A stored keys", r.stored_header_keys, "entry", r.header_entry_length_bytes, "padded", r.padded_header_entry_length_bytes, "size", os.path.getsize("a.sgz"))
    bad = [(t,k) for t in range(128) for k,v in r.gen_trace_header(t).items() if s.header[t][k] != v]
    print("A header mismatches:", len(bad), bad[:4])
# B. same with 8x15 (non multiple)
a = rs.randn(8,15,10).astype(np.float32)
mk_segy("b.sgy", a, range(10,18), range(100,115))
quiet(sconv, "b.sgy", "b.sgz", bits_per_voxel=8)
with SgzReader("b.sgz") as r, segyio.open("b.sgy") as s:
    bad = [(t,k) for t in range(120) for k,v in r.gen_trace_header(t).items() if s.header[t][k] != v]
    print("B header mismatches:", len(bad))
    print("B hash ok:", r.get_source_data_hash() == hashlib.sha1(a.tobytes()).hexdigest())
# C. 2D hash
d = rs.randn(21, 33).astype(np.float32)
mk_segy_2d("c.sgy", d)
quiet(sconv, "c.sgy", "c.sgz", bits_per_voxel=8)
with SgzReader("c.sgz") as r:
    print("C 2d", r.is_2d, r.blockshape, r.tracecount, "hash ok:", r.get_source_data_hash() == hashlib.sha1(d.tobytes()).hexdigest())
    tr = np.array([r.get_trace(i) for i in range(21)])
    p = np.pad(d, ((0, 32-21),(0, r.shape_pad[2]-33)), 'edge')
    o = zfpy._decompress(zfpy.compress_numpy(p, rate=8, write_header=False), ZT, p.shape, rate=8)[:21,:33]
    print("C 2d data eq oracle", np.array_equal(o, tr))
    for idx in [21, 25, 31, 32, -1, -5, 40]:
        try:
            t = r.get_trace(idx); print("  get_trace", idx, "returned shape", t.shape)
        except Exception as e: print("  get_trace", idx, type(e).__name__)
    for idx in [21, -5, -30]:
        try:
            t = r.gen_trace_header(idx); print("  gen_trace_header", idx, "returned CDP", t[segyio.TraceField.CDP])
        except Exception as e: print("  gen_trace_header", idx, type(e).__name__)
for n in [16, 17, 32, 5]:
    d = rs.randn(n, 9).astype(np.float32); mk_segy_2d("c2.sgy", d); quiet(sconv, "c2.sgy", "c2.sgz", bits_per_voxel=8)
    with SgzReader("c2.sgz") as r: print("C 2d n=",n,"hash ok:", r.get_source_data_hash() == hashlib.sha1(d.tobytes()).hexdigest())
