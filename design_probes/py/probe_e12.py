from mk import *
rs = np.random.RandomState(9)
def nconv(a, out, ck={}, **k):
    with NumpyConverter(a, **ck) as c: c.run(out, **k)
a = rs.randn(9, 10, 40).astype(np.float32)
quiet(nconv, a, "m.sgz", bits_per_voxel=8)
with SgzReader("m.sgz") as r: full = r.read_volume(); il3 = r.read_inline(3); xl3=r.read_crossline(3); z3=r.read_zslice(3); h3 = r.gen_trace_header(3)
size = os.path.getsize("m.sgz"); print("size", size)
blob = open("m.sgz","rb").read()
# truncation
for cut in [8192, 8192+4096*3, 8192+4096*3+100, size-1024, size-600, size-1]:
    open("mt.sgz","wb").write(blob[:cut])
    res = []
    try:
        with SgzReader("mt.sgz") as r:
            for name, f, ref in [("vol", lambda: r.read_volume(), full), ("il3", lambda: r.read_inline(3), il3), ("xl3", lambda: r.read_crossline(3), xl3), ("z3", lambda: r.read_zslice(3), z3), ("hdr3", lambda: r.gen_trace_header(3), h3), ("hdr89", lambda: r.gen_trace_header(89), None), ("tf", lambda: r.get_tracefield_values(193), None)]:
                try:
                    v = f()
                    if ref is None: res.append((name, "returned"))
                    elif isinstance(ref, dict): res.append((name, "same" if v == ref else "DIFFERENT"))
                    else: res.append((name, "same" if np.array_equal(v, ref) else "DIFFERENT"))
                except Exception as e: res.append((name, type(e).__name__))
    except Exception as e: res.append(("open", type(e).__name__))
    print("cut", cut, res)
# faults
class F:
    def __init__(self, path, fail_at, kind): self.f = open(path,'rb'); self.name=path; self.n=0; self.fail_at=fail_at; self.kind=kind; self.pos=0
    def seek(self, o, w=0): return self.f.seek(o, w)
    def read(self, n=-1):
        self.n += 1
        if self.n-1 == self.fail_at:
            if self.kind == 'exc': raise OSError("injected")
            if self.kind == 'short': return self.f.read(max(0, n//2))
            if self.kind == 'empty': return b''
        return self.f.read(n)
    def close(self): self.f.close()
for name, call, ref in [("il3", lambda r: r.read_inline(3), il3), ("xl3", lambda r: r.read_crossline(3), xl3), ("z3", lambda r: r.read_zslice(3), z3), ("vol", lambda r: r.read_volume(), full), ("hdr3", lambda r: r.gen_trace_header(3), h3)]:
    for kind in ['exc', 'short', 'empty']:
        out = []
        for k in range(1, 5):
            fh = F("m.sgz", k, kind)
            try:
                r = SgzReader(fh)
                v = call(r)
                if fh.n <= k: out.append("nofault"); continue
                same = (v == ref) if isinstance(ref, dict) else np.array_equal(v, ref)
                out.append("same" if same else "WRONG-DATA")
            except Exception as e: out.append(type(e).__name__)
        print(name, kind, out)
