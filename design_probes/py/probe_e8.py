from mk import *
rs = np.random.RandomState(7)
def sconv(path, out, ck={}, **k):
    with SegyConverter(path, **ck) as c: c.run(out, **k)
n_il, n_xl, ns = 6, 5, 8
a = rs.randn(n_il, n_xl, ns).astype(np.float32)
for il, xl in [(10+2*np.arange(n_il), 100+3*np.arange(n_xl)), (30-2*np.arange(n_il), 100+3*np.arange(n_xl)), (np.arange(-3,3), 20-np.arange(n_xl))]:
    mk_segy("i.sgy", a, il, xl)
    quiet(sconv, "i.sgy", "i.sgz", bits_per_voxel=16)
    with seismic_zfp.open("i.sgz") as z, segyio.open("i.sgy") as s:
        print("axes", z.ilines, s.ilines, z.xlines, s.xlines)
        def cmp(name, fz, fs):
            try: rz = fz(); ez=None
            except Exception as e: rz=None; ez=type(e).__name__
            try: rs_ = fs(); es=None
            except Exception as e: rs_=None; es=type(e).__name__
            if ez or es:
                print("  ", name, "sgz:", ez or "ok", "segyio:", es or "ok", "" if (ez is not None)==(es is not None) else "<<< MISMATCH")
            else:
                lz = [np.asarray(x).shape for x in rz] if isinstance(rz, list) else np.asarray(rz).shape
                ls = [np.asarray(x).shape for x in rs_] if not isinstance(rs_, np.ndarray) and hasattr(rs_, '__iter__') and not isinstance(rs_, dict) else np.asarray(rs_).shape
                print("  ", name, "same structure", lz == ls, "" if lz==ls else f"<<< {lz} vs {ls}")
        i0, i1, di = int(il[0]), int(il[-1]), int(il[1]-il[0])
        cmp("iline[:]", lambda: z.iline[:], lambda: list(s.iline[:]))
        cmp("iline[i0:i1]", lambda: z.iline[i0:i1], lambda: list(s.iline[i0:i1]))
        cmp("iline[i0:i1:2di]", lambda: z.iline[i0:i1:2*di], lambda: list(s.iline[i0:i1:2*di]))
        cmp("iline[::di]", lambda: z.iline[::di], lambda: list(s.iline[::di]))
        cmp("iline[i1::-di]", lambda: z.iline[i1::-di], lambda: list(s.iline[i1::-di]))
        cmp("iter iline", lambda: [x for x in z.iline], lambda: [x.copy() for x in s.iline])
        cmp("iline[absent]", lambda: z.iline[i0+1 if abs(di)>1 else 9999], lambda: s.iline[i0+1 if abs(di)>1 else 9999])
        cmp("len(iline)", lambda: len(z.iline), lambda: len(s.iline))
        cmp("depth_slice[::-2]", lambda: z.depth_slice[::-2], lambda: list(s.depth_slice[::-2]))
        cmp("depth_slice[-1]", lambda: z.depth_slice[-1], lambda: s.depth_slice[-1])
        cmp("depth_slice[ns]", lambda: z.depth_slice[ns], lambda: s.depth_slice[ns])
        cmp("depth_slice[-ns-1]", lambda: z.depth_slice[-ns-1], lambda: s.depth_slice[-ns-1])
        cmp("trace[-1]", lambda: z.trace[-1], lambda: s.trace[-1])
        cmp("trace[tc]", lambda: z.trace[n_il*n_xl], lambda: s.trace[n_il*n_xl])
        cmp("trace[-tc-1]", lambda: z.trace[-n_il*n_xl-1], lambda: s.trace[-n_il*n_xl-1])
        cmp("trace[3:20:4]", lambda: z.trace[3:20:4], lambda: list(s.trace[3:20:4]))
        cmp("header[-1]", lambda: dict(z.header[-1]), lambda: dict(s.header[-1]))
        cmp("header[tc]", lambda: z.header[n_il*n_xl], lambda: s.header[n_il*n_xl])
        cmp("header[-tc-1]", lambda: z.header[-n_il*n_xl-1], lambda: s.header[-n_il*n_xl-1])
        cmp("attributes", lambda: z.attributes(189)[:], lambda: s.attributes(189)[:])
