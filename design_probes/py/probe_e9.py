from mk import *
rs = np.random.RandomState(8)
def nconv(a, out, ck={}, **k):
    with NumpyConverter(a, **ck) as c: c.run(out, **k)
def sconv(path, out, ck={}, **k):
    with SegyConverter(path, **ck) as c: c.run(out, **k)
# config grid samples
a = rs.randn(9, 9, 40).astype(np.float32)
for bpv, bs in [(3,(4,4,-1)), (0.3,(4,4,-1)), (4,(4,4,100)), (4,(3,4,-1)), (4,(2,4,-1)), (-1,(4,4,100)), (4,(4,4,512)), ("4",(4,4,-1)), (-2,(4,4,-1)), (-3,(4,4,-1)), (64,(4,4,-1)), (4,(8,-1,8)), (4,(4,4,1024)), (1,(1,16,-1)), (0,(4,4,-1)), (-1,(4,4,-1)), (4,(0,4,-1)), (2,(4,2,-1)), (0.25,(4,4,8192)), (32,(4,4,16)), (16,(2,2,-1))]:
    if os.path.exists("j.sgz"): os.remove("j.sgz")
    try:
        quiet(nconv, a, "j.sgz", bits_per_voxel=bpv, blockshape=bs)
        try:
            with SgzReader("j.sgz") as r: v = r.read_volume(); print(bpv, bs, "-> wrote; read ok", r.blockshape, r.rate, "close", np.allclose(v, a, atol=10))
        except Exception as e: print(bpv, bs, "-> wrote; READ EXC", type(e).__name__, str(e)[:60])
    except Exception as e:
        print(bpv, bs, "-> EXC", type(e).__name__, str(e)[:60], "out exists", os.path.exists("j.sgz"))
# 2D rates
d = rs.randn(21, 33).astype(np.float32); mk_segy_2d("k.sgy", d)
for bpv, bs in [(0.25,(1,16,-1)), (0.5,(1,16,-1)), (1,(1,16,-1)), (2,(1,4,-1)), (32,(1,4,-1)), (16,(1,16,-1)), (8, (1,64,64)), (4,(1,-1,4))]:
    try:
        quiet(sconv, "k.sgy", "k.sgz", bits_per_voxel=bpv, blockshape=bs)
        with SgzReader("k.sgz") as r:
            exp = 8192 + 4096*r.compressed_data_diskblocks + r.n_header_arrays*r.padded_header_entry_length_bytes
            tr = np.array([r.get_trace(i) for i in range(21)])
            sp = r.read_subplane(0,21,0,33)
            print("2D", bpv, bs, "->", r.blockshape, "size", os.path.getsize("k.sgz"), "expected", exp, "trace==subplane", np.array_equal(tr, sp), "maxerr", np.abs(tr-d).max())
    except Exception as e:
        print("2D", bpv, bs, "EXC", type(e).__name__, str(e)[:80])
