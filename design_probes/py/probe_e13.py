from mk import *
import xarray as xr
rs = np.random.RandomState(10)
def sconv(path, out, ck={}, **k):
    with SegyConverter(path, **ck) as c: c.run(out, **k)
a = rs.randn(6, 7, 30).astype(np.float32)
il = 10+2*np.arange(6); xl = 100+3*np.arange(7)
for fmt in (1,5):
    mk_segy("x.sgy", a, il, xl, fmt=fmt, t0=100, dt_us=2000)
    quiet(sconv, "x.sgy", "x.sgz", bits_per_voxel=16, header_detection='exhaustive')
    with SgzConverter("x.sgz") as c: quiet(c.convert_to_segy, "x2.sgy")
    with segyio.open("x.sgy") as s1, segyio.open("x2.sgy") as s2, SgzReader("x.sgz") as r:
        print("fmt", fmt, "ilines", np.array_equal(s1.ilines, s2.ilines), "xl", np.array_equal(s1.xlines, s2.xlines), "samples", np.array_equal(s1.samples, s2.samples), "tc", s1.tracecount==s2.tracecount)
        print("  text eq", s1.text[0]==s2.text[0], "bin eq", dict(s1.bin)==dict(s2.bin), "raw 3600 eq", open("x.sgy","rb").read(3600)==open("x2.sgy","rb").read(3600))
        print("  headers eq", all(dict(s1.header[t])==dict(s2.header[t]) for t in range(42)))
        v = r.read_volume(); c2 = segyio.tools.cube(s2)
        print("  samples exact vs sgz", np.array_equal(v, c2), "max rel", np.max(np.abs(v-c2)/np.maximum(np.abs(v),1e-30)))
if 1:
    ds = xr.open_dataset("x.sgz", engine="sgz_engine")
    with SgzReader("x.sgz") as r: v = r.read_volume()
    for name, idx in [("[1:5,2:6,3:20]", (slice(1,5),slice(2,6),slice(3,20))), ("[::2,:,:]", (slice(None,None,2),slice(None),slice(None))), ("[1,:,:]", (1,slice(None),slice(None))), ("[1:5:2, 2, 3:20:5]", (slice(1,5,2),2,slice(3,20,5))), ("[-1,:,:]", (-1,slice(None),slice(None))), ("[::-1,:,:]", (slice(None,None,-1),slice(None),slice(None)))]:
        try:
            got = ds.data[idx].values
            print("xarray", name, got.shape, v[idx].shape, np.array_equal(got, v[idx]))
        except Exception as e: print("xarray", name, "EXC", type(e).__name__, str(e)[:80])
