from mk import *
import hashlib
rs = np.random.RandomState(4)
ZT = zfpy.dtype_to_ztype(np.dtype('float32'))
def sconv(path, out, ck={}, **k):
    with SegyConverter(path, **ck) as c: c.run(out, **k)
def rd(p):
    with SgzReader(p) as r: return r.read_volume(), r.ilines.copy(), r.xlines.copy(), r.tracecount, [r.gen_trace_header(t) for t in range(r.n_ilines*r.n_xlines)] if r.structured else None
n_il, n_xl, ns = 7, 9, 11
a = rs.randn(n_il, n_xl, ns).astype(np.float32)
il = 10 + 3*np.arange(n_il); xl = 100 + 2*np.arange(n_xl)
mk_segy("e.sgy", a, il, xl)
# E. windows
for w in [(1,5,2,7), (0,5,2,7), (1,5,0,7), (4,7,4,9), (1,2,1,2)]:
    for riops in [False, True]:
        try:
            quiet(sconv, "e.sgy", "e.sgz", ck=dict(min_il=w[0], max_il=w[1], min_xl=w[2], max_xl=w[3]), bits_per_voxel=16, reduce_iops=riops)
            v, ils, xls, tc, hs = rd("e.sgz")
            sub = a[w[0]:w[1], w[2]:w[3]]
            shape_ok = v.shape == sub.shape
            print("E window", w, "riops", riops, "shape", v.shape, "data ok", shape_ok and np.allclose(v, sub, atol=1e-2), "ilines", ils, "xlines", xls, "tc", tc,
                  "hdr ok", hs is not None and shape_ok and all(hs[i*sub.shape[1]+x][189]==il[w[0]+i] and hs[i*sub.shape[1]+x][193]==xl[w[2]+x] for i in range(sub.shape[0]) for x in range(sub.shape[1])))
        except Exception as e:
            print("E window", w, "riops", riops, "EXC", type(e).__name__, e)
# F. reduce_iops on IBM / IEEE full cube
for fmt in (1, 5):
    mk_segy("f.sgy", a, il, xl, fmt=fmt)
    for riops in (False, True):
        quiet(sconv, "f.sgy", "f.sgz", bits_per_voxel=16, reduce_iops=riops)
        with segyio.open("f.sgy") as s: src = segyio.tools.cube(s)
        v = rd("f.sgz")[0]
        print("F fmt", fmt, "riops", riops, "close", np.allclose(v, src, atol=1e-2))
