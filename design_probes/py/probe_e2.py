from common import *
ZT = zfpy.dtype_to_ztype(np.dtype('float32'))
def conv(a, out, **k):
    with NumpyConverter(a, **k.pop('ck', {})) as c: c.run(out, **k)
def oracle(a, bs, rate):
    from seismic_zfp.utils import pad
    ps = tuple(pad(n, 4) for n in a.shape)   # property says multiple of 4
    p = np.pad(a, [(0, ps[i]-a.shape[i]) for i in range(3)], 'edge')
    d = zfpy._decompress(zfpy.compress_numpy(p, rate=rate, write_header=False), ZT, p.shape, rate=rate)
    return d[:a.shape[0], :a.shape[1], :a.shape[2]]
rs = np.random.RandomState(1)
# 1. (4,8,M) layouts with >1 z block
for shape, bpv, bs in [((5,9,600),2,(4,8,512)), ((5,9,500),2,(4,8,512)), ((5,9,70),8,(8,8,64)), ((9,9,9),8,(8,8,64)), ((70,70,9),2,(64,64,4)), ((5,9,300), 4, (4,8,256)), ((5,9,200), 4, (4,8,256))]:
    a = rs.randn(*shape).astype(np.float32)
    try:
        quiet(conv, a, "t.sgz", bits_per_voxel=bpv, blockshape=bs)
        with SgzReader("t.sgz") as r:
            v = r.read_volume()
        o = oracle(a, bs, bpv)
        print(shape, bpv, bs, "equal-to-oracle:", np.array_equal(o.view(np.uint32), v.view(np.uint32)), "maxdiff", np.abs(o-v).max())
    except Exception as e:
        print(shape, bpv, bs, "EXC", type(e).__name__, e)
