from mk import *
import random
rs = np.random.RandomState(16); rnd = random.Random(3)
def nconv(a, out, ck={}, **k):
    with NumpyConverter(a, **ck) as c: c.run(out, **k)
def sconv(path, out, ck={}, **k):
    with SegyConverter(path, **ck) as c: c.run(out, **k)
# history independence probe on regular, irregular, 2D
a = rs.randn(9,10,21).astype(np.float32)
quiet(nconv, a, "h3.sgz", bits_per_voxel=8)
present = np.ones((9,10), bool); present[0,0]=False; present[4,5]=False; present[8,9]=False
mk_segy("hi.sgy", a, 10+np.arange(9), 20+np.arange(10), present=present); quiet(sconv, "hi.sgy", "hi.sgz", bits_per_voxel=8)
d = rs.randn(21, 33).astype(np.float32); mk_segy_2d("h2.sgy", d); quiet(sconv, "h2.sgy", "h2.sgz", bits_per_voxel=8, blockshape=(1,4,-1))
def ops3(tc):
    return [("read_inline", (rnd.randrange(9),)), ("read_crossline", (rnd.randrange(10),)), ("read_zslice", (rnd.randrange(21),)), ("get_trace", (rnd.randrange(tc),)),
            ("get_trace", (rnd.randrange(tc), 2, 9)), ("read_subvolume", (1,6,2,9,3,17)), ("read_correlated_diagonal", (rnd.randrange(-9,9),)), ("read_anticorrelated_diagonal", (rnd.randrange(0,18),)),
            ("gen_trace_header", (rnd.randrange(tc),)), ("get_tracefield_values", (189,)), ("get_tracefield_values", (193,)), ("gen_trace_header", (rnd.randrange(tc), True))]
def ops2():
    return [("get_trace", (rnd.randrange(21),)), ("read_subplane", (rnd.randrange(0,10), rnd.randrange(11,21), 2, 30)), ("gen_trace_header", (rnd.randrange(21),)), ("get_tracefield_values", (21,)), ("get_tracefield_values", (5,))]
def canon(v):
    if isinstance(v, dict): return tuple(sorted((int(k), int(x)) for k, x in v.items()))
    return (v.shape, v.tobytes())
def run(r, op):
    try: return canon(getattr(r, op[0])(*op[1]))
    except Exception as e: return type(e).__name__
for path, gen in [("h3.sgz", lambda: ops3(90)), ("hi.sgz", lambda: ops3(87)), ("h2.sgz", ops2)]:
    bad = {}
    for trial in range(40):
        kw = dict(preload=rnd.random()<0.5, chunk_cache_size=rnd.choice([1,2,None]))
        r = SgzReader(path, **kw)
        hist = []
        for _ in range(8):
            op = rnd.choice(gen()); hist.append(op)
            got = run(r, op)
            with SgzReader(path) as fresh: exp = run(fresh, op)
            if got != exp:
                key = (hist[-2][0] if len(hist)>1 else None, op[0], got if isinstance(got,str) else "value", exp if isinstance(exp,str) else "value")
                bad.setdefault(key, hist[:]); break
        r.close()
    print(path, "history-dependent outcomes:", len(bad))
    for k, h in list(bad.items())[:6]: print("   ", k, "history:", [(o[0], o[1]) for o in h][-3:])
