import numpy as np, zfpy, itertools
ZT = zfpy.dtype_to_ztype(np.dtype('float32'))
rs = np.random.RandomState(0)
ok = True
for rate in [0.25, 0.5, 1, 2, 4, 8, 16, 32]:
    ub = int(64*rate)//8
    A, B, C = 8, 12, 16
    a = (rs.randn(A,B,C) * 10.0**rs.randint(-3,4,(A,B,C))).astype(np.float32)
    s = zfpy.compress_numpy(a, rate=rate, write_header=False)
    assert len(s) == (A//4)*(B//4)*(C//4)*ub, (rate, len(s))
    # unit (p,q,r) code at index ((p*(B/4)+q)*(C/4)+r)
    units = {}
    for p,q,r in itertools.product(range(A//4), range(B//4), range(C//4)):
        k = (p*(B//4)+q)*(C//4)+r
        units[(p,q,r)] = (s[k*ub:(k+1)*ub], a[4*p:4*p+4, 4*q:4*q+4, 4*r:4*r+4])
    # locality + position independence: build another array with units permuted; codes must permute identically
    keys = list(units); perm = [keys[i] for i in rs.permutation(len(keys))]
    b = np.zeros_like(a)
    for dst, src in zip(keys, perm):
        p,q,r = dst; b[4*p:4*p+4, 4*q:4*q+4, 4*r:4*r+4] = units[src][1]
    s2 = zfpy.compress_numpy(b, rate=rate, write_header=False)
    exp = b''.join(units[src][0] for src in perm)
    loc = (s2 == exp)
    # decode: arrangement of decodes; also decode a sub-arrangement (subset of units as a smaller array)
    d = zfpy._decompress(s, ZT, a.shape, rate=rate)
    d2 = zfpy._decompress(s2, ZT, a.shape, rate=rate)
    dec_ok = all(np.array_equal(d2[4*p:4*p+4,4*q:4*q+4,4*r:4*r+4].view(np.uint32), d[4*sp:4*sp+4,4*sq:4*sq+4,4*sr:4*sr+4].view(np.uint32)) for (p,q,r),(sp,sq,sr) in zip(keys, perm))
    # sub-arrangement: take units of p=1 plane only as a (4,B,C) array
    sub = b''.join(units[(1,q,r)][0] for q in range(B//4) for r in range(C//4))
    dsub = zfpy._decompress(sub, ZT, (4,B,C), rate=rate)
    sub_ok = np.array_equal(dsub.view(np.uint32), d[4:8].view(np.uint32))
    # odd byte length buffers (rate 0.25: ub=2): single column of z units
    col = b''.join(units[(0,0,r)][0] for r in range(C//4))
    dcol = zfpy._decompress(col, ZT, (4,4,C), rate=rate)
    col_ok = np.array_equal(dcol.view(np.uint32), d[0:4,0:4,:].view(np.uint32))
    print(rate, "ub", ub, "locality/order", loc, "decode", dec_ok, "sub", sub_ok, "col", col_ok)
