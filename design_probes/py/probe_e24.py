from mk import *
import random
rs = np.random.RandomState(19); rnd = random.Random(5)
ZT = zfpy.dtype_to_ztype(np.dtype('float32'))
def sconv(path, out, ck={}, **k):
    with SegyConverter(path, **ck) as c: c.run(out, **k)
class CF:
    def __init__(self, path): self.f = open(path,'rb'); self.name=path; self.log=[]; self.pos=0
    def seek(self, o, w=0): self.pos=o; return self.f.seek(o, w)
    def read(self, n=-1):
        self.log.append((self.pos, n)); b = self.f.read(n); self.pos += len(b); return b
    def close(self): self.f.close()
for nt, ns, bpv, bs in [(21,33,8,(1,16,-1)), (21,33,2,(1,4,-1)), (9,300,8,(1,4,-1)), (70,70,8,(1,64,64)), (21,33,4,(1,256,-1)), (21,600,16,(1,16,-1)), (5,9,1,(1,16,-1)), (2,2,32,(1,4,-1))]:
    d = rs.randn(nt, ns).astype(np.float32); mk_segy_2d("t2.sgy", d)
    quiet(sconv, "t2.sgy", "t2.sgz", bits_per_voxel=bpv, blockshape=bs)
    fh = CF("t2.sgz"); r = SgzReader(fh)
    p = np.pad(d, ((0, (-nt)%4), (0, (-ns)%4)), 'edge')
    o = zfpy._decompress(zfpy.compress_numpy(p, rate=bpv, write_header=False), ZT, p.shape, rate=bpv)[:nt,:ns]
    tr = np.array([r.get_trace(i) for i in range(nt)])
    bad = []
    if not np.array_equal(tr, o): bad.append("traces!=oracle")
    for _ in range(40):
        t0 = rnd.randrange(nt); t1 = rnd.randrange(t0+1, nt+1); z0 = rnd.randrange(ns); z1 = rnd.randrange(z0+1, ns+1)
        sp = r.read_subplane(t0,t1,z0,z1)
        if sp.shape != (t1-t0, z1-z0) or not np.array_equal(sp, o[t0:t1, z0:z1]): bad.append(("sp",t0,t1,z0,z1))
    fh.log.clear(); r.get_trace(nt-1); lg = [(o_-r.data_start_bytes, n) for o_, n in fh.log]
    print((nt,ns), bpv, "->", r.blockshape, "pad", r.shape_pad, "bad", bad[:3], "last-trace read:", lg, "chunk_bytes", r.chunk_bytes, "data bytes", 4096*r.compressed_data_diskblocks)
