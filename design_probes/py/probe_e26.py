from mk import *
rs = np.random.RandomState(20)
def sconv(path, out, ck={}, **k):
    with SegyConverter(path, **ck) as c: c.run(out, **k)
a = rs.randn(4,5,8).astype(np.float32)
mk_segy("y.sgy", a, 10+2*np.arange(4), 100+3*np.arange(5), t0=0, dt_us=4000)
quiet(sconv, "y.sgy", "y.sgz", bits_per_voxel=16)
def desc(v):
    if isinstance(v, np.ndarray): return ("ndarray", v.shape, str(v.dtype))
    if isinstance(v, (list, tuple)): return (type(v).__name__, len(v), desc(v[0]) if len(v) else None)
    if isinstance(v, dict) or hasattr(v, 'keys'): return ("mapping", len(v))
    return (type(v).__name__, v if isinstance(v, (int, float)) else None)
with seismic_zfp.open("y.sgz") as z, segyio.open("y.sgy") as s:
    for name, fz, fs in [("attributes[0]", lambda: z.attributes(189)[0], lambda: s.attributes(189)[0]), ("attributes[:]", lambda: z.attributes(189)[:], lambda: s.attributes(189)[:]), ("attributes[-1]", lambda: z.attributes(189)[-1], lambda: s.attributes(189)[-1]),
                         ("attributes[2:9:3]", lambda: z.attributes(193)[2:9:3], lambda: s.attributes(193)[2:9:3]), ("attributes[20]", lambda: z.attributes(189)[20], lambda: s.attributes(189)[20]),
                         ("bin", lambda: dict(z.bin), lambda: dict(s.bin)), ("text[0]", lambda: bytes(z.text[0]), lambda: bytes(s.text[0])), ("dt", lambda: seismic_zfp.tools.dt(z), lambda: segyio.tools.dt(s)),
                         ("cube", lambda: seismic_zfp.tools.cube("y.sgz"), lambda: segyio.tools.cube("y.sgy")), ("samples", lambda: z.samples, lambda: s.samples), ("tracecount", lambda: z.tracecount, lambda: s.tracecount),
                         ("ilines", lambda: z.ilines, lambda: s.ilines), ("header[3]", lambda: z.header[3], lambda: s.header[3]), ("header[1:7:2]", lambda: z.header[1:7:2], lambda: list(s.header[1:7:2])),
                         ("trace[3]", lambda: z.trace[3], lambda: s.trace[3]), ("trace[::-1]", lambda: z.trace[::-1], lambda: list(s.trace[::-1])), ("depth_slice[2]", lambda: z.depth_slice[2], lambda: s.depth_slice[2]), ("depth_slice[1:6:2]", lambda: z.depth_slice[1:6:2], lambda: list(s.depth_slice[1:6:2])),
                         ("xline[103]", lambda: z.xline[103], lambda: s.xline[103]), ("xline[100:110:6]", lambda: z.xline[100:110:6], lambda: list(s.xline[100:110:6])), ("len(trace)", lambda: len(z.trace), lambda: len(s.trace)), ("len(header)", lambda: len(z.header), lambda: len(s.header)), ("len(depth_slice)", lambda: len(z.depth_slice), lambda: len(s.depth_slice)),
                         ("iter xline", lambda: [x for x in z.xline], lambda: [x.copy() for x in s.xline]), ("iter trace", lambda: [x for x in z.trace], lambda: [x.copy() for x in s.trace]), ("iter depth", lambda: [x for x in z.depth_slice], lambda: [x.copy() for x in s.depth_slice])]:
        try: dz = desc(fz())
        except Exception as e: dz = type(e).__name__
        try: ds = desc(fs())
        except Exception as e: ds = type(e).__name__
        eqv = ""
        if name in ("bin", "text[0]"): eqv = " values equal: %s" % (fz() == fs())
        print(f"{name:22s} sgz={dz}  segyio={ds} {'' if dz==ds else '<<< DIFF'}{eqv}")
