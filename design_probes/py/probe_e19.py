from mk import *
rs = np.random.RandomState(14)
def nconv(a, out, ck={}, **k):
    with NumpyConverter(a, **ck) as c: c.run(out, **k)
shape = (5, 6, 9)
a = rs.randn(*shape).astype(np.float32)
il = np.arange(100, 110, 2); xl = np.arange(50, 56)
quiet(nconv, a, "b.sgz", ck=dict(ilines=il, xlines=xl, samples=10.0+2.0*np.arange(9)), bits_per_voxel=8)
def cls(f):
    try:
        v = f(); return f"RETURNED{getattr(v,'shape','')}"
    except Exception as e: return type(e).__name__
with SgzReader("b.sgz") as r:
    print("pad", r.shape_pad)
    T = [("read_inline", [-1, 5, 6, 7, 8, -5, -6]), ("read_crossline", [-1, 6, 7, 8]), ("read_zslice", [-1, 9, 10, 255, 256]),
         ("read_inline_number", [99, 101, 110, 0]), ("read_crossline_number", [49, 56]), ("read_zslice_coord", [9.0, 11.0, 28.0]),
         ("get_trace", [-1, 30, 31, 35, 47, 48, -30, -31]), ("gen_trace_header", [-1, 30, 47, 48]),
         ("read_correlated_diagonal", [-6, 5, -5, 4]), ("read_anticorrelated_diagonal", [-1, 10, 11])]
    for m, args in T:
        print(m, {x: cls(lambda: getattr(r, m)(x)) for x in args})
    print("get_trace windows", {w: cls(lambda: r.get_trace(3, *w)) for w in [(0,10), (0,256), (0,257), (8,12), (-1,5), (-3,-1), (5,3), (4,4), (9,10), (250,256)]})
    print("get_trace_by_coord", {w: cls(lambda: r.get_trace_by_coord(3, *w)) for w in [(10.0, 30.0), (10.0, 28.0), (8.0, 20.0), (10.0, 11.0), (20.0, 12.0), (12.0, 12.0)]})
    print("subvolume", {w: cls(lambda: r.read_subvolume(*w)) for w in [(0,6,0,6,0,9), (0,5,0,7,0,9), (0,5,0,6,0,10), (-1,5,0,6,0,9), (3,3,0,6,0,9), (4,3,0,6,0,9), (5,8,0,6,0,9), (0,8,0,8,0,256)]})
    print("cd crop", {w: cls(lambda: r.read_correlated_diagonal(0, *w)) for w in [(0,5), (0,6), (2,2), (3,2), (-1,3), (0,5,0,9), (0,5,0,10), (0,5,-1,9), (0,5,5,3), (0,5,0,256)]})
    print("ad crop", {w: cls(lambda: r.read_anticorrelated_diagonal(4, *w)) for w in [(0,5), (0,6), (2,2), (3,2), (0,5,0,10)]})
    print("subplane on 3d", cls(lambda: r.read_subplane(0,1,0,1)))
with seismic_zfp.open("b.sgz") as z:
    print("emu", {k: cls(f) for k, f in {"iline[101]": lambda: z.iline[101], "iline[98]": lambda: z.iline[98], "xline[56]": lambda: z.xline[56], "depth_slice[9]": lambda: z.depth_slice[9], "depth_slice[-10]": lambda: z.depth_slice[-10],
          "trace[30]": lambda: z.trace[30], "trace[-31]": lambda: z.trace[-31], "header[30]": lambda: z.header[30], "header[-31]": lambda: z.header[-31],
          "subvol step bad": lambda: z.subvolume[100:108:3, 50:56:1, 10:28:2], "subvol start out": lambda: z.subvolume[98:108:2, 50:56:1, 10:28:2], "subvol stop out": lambda: z.subvolume[100:112:2, 50:56:1, 10:28:2], "subvol stop==start": lambda: z.subvolume[100:100:2, 50:56:1, 10:28:2], "subvol reversed": lambda: z.subvolume[104:102:2, 50:56:1, 10:28:2], "subvol absent start": lambda: z.subvolume[101:108:2, 50:56:1, 10:28:2]}.items()})
