from mk import *
import itertools, random
rs = np.random.RandomState(13); rnd = random.Random(1)
def nconv(a, out, ck={}, **k):
    with NumpyConverter(a, **ck) as c: c.run(out, **k)
configs = [((9,10,21), 8, (4,4,-1)), ((9,10,300), 8, (4,4,-1)), ((9,10,21), 0.25, (4,4,-1)), ((13,9,21), 8, (8,8,64)), ((70,9,9), 2, (64,64,4)), ((9,70,9), 2, (64,64,4)),
           ((9,9,9), 4, (16,16,32)), ((9,13,40), 4, (4,8,-1)), ((9,9,9), 0.5, (128,128,4)), ((17,9,9), 1, (8,4,-1)), ((9,9,70), 16, (4,4,-1)), ((9,9,9),32,(4,4,-1)), ((20,9,9), 4, (16,4,-1))]
for shape, bpv, bs in configs:
    a = rs.randn(*shape).astype(np.float32)
    il = np.arange(100, 100+2*shape[0], 2); xl = np.arange(50, 50-shape[1], -1)
    quiet(nconv, a, "r.sgz", ck=dict(ilines=il, xlines=xl, samples=10.0+2.0*np.arange(shape[2])), bits_per_voxel=bpv, blockshape=bs)
    bad = []
    with SgzReader("r.sgz") as r:
        V = r.read_volume()
        n_il, n_xl, ns = shape
        def chk(name, got, exp):
            if got.shape != exp.shape or not np.array_equal(np.asarray(got, dtype=np.float32), exp): bad.append(name)
        for i in range(n_il): chk(f"il{i}", r.read_inline(i), V[i]); chk(f"iln{i}", r.read_inline_number(int(il[i])), V[i])
        for x in range(n_xl): chk(f"xl{x}", r.read_crossline(x), V[:,x]); chk(f"xln{x}", r.read_crossline_number(int(xl[x])), V[:,x])
        for z in range(ns): chk(f"z{z}", r.read_zslice(z), V[:,:,z]); chk(f"zc{z}", r.read_zslice_coord(10.0+2.0*z), V[:,:,z])
        for t in rnd.sample(range(n_il*n_xl), min(30, n_il*n_xl)):
            chk(f"tr{t}", r.get_trace(t), V[t//n_xl, t%n_xl])
            z0 = rnd.randrange(ns); z1 = rnd.randrange(z0+1, ns+1)
            chk(f"trw{t},{z0},{z1}", r.get_trace(t, z0, z1), V[t//n_xl, t%n_xl, z0:z1])
        for _ in range(60):
            b = []
            for n in shape:
                lo = rnd.randrange(n); hi = rnd.randrange(lo+1, n+1); b += [lo, hi]
            chk(f"sv{b}", r.read_subvolume(*b), V[b[0]:b[1], b[2]:b[3], b[4]:b[5]])
        for cd in range(-n_xl+1, n_il):
            exp = np.array([V[d+max(cd,0), d-min(cd,0)] for d in range(min(n_il-max(cd,0), n_xl+min(cd,0)))])
            try: chk(f"cd{cd}", r.read_correlated_diagonal(cd), exp)
            except Exception as e: bad.append(f"cd{cd}:{type(e).__name__}")
        for ad in range(0, n_il+n_xl-1):
            cells = [(i, ad-i) for i in range(n_il) if 0 <= ad-i < n_xl]
            exp = np.array([V[i, x] for i, x in cells])
            try: chk(f"ad{ad}", r.read_anticorrelated_diagonal(ad), exp)
            except Exception as e: bad.append(f"ad{ad}:{type(e).__name__}")
    print(shape, bpv, bs, "->", r.blockshape, "mismatches:", len(bad), bad[:6])
