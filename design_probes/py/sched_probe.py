# Feasibility probe: cooperative scheduler substituting Queue/Thread in conversion_utils
from common import *
import threading, random, itertools, hashlib
import seismic_zfp.conversion_utils as cu

class Sched:
    """Only the thread holding the baton runs; at each yield point the controller picks the next runnable thread."""
    def __init__(self, choose):
        self.choose = choose; self.lock = threading.Condition(); self.current = 'main'; self.threads = {'main': None}
        self.blocked = {}   # name -> predicate that must be true to run
        self.trace = []
    def yield_point(self, me, label, can_run=lambda: True):
        with self.lock:
            self.blocked[me] = can_run
            if self.current == me:
                self.trace.append((me, label))
                self._pick()
            while self.current != me: self.lock.wait()
            self.blocked.pop(me, None)
    def _pick(self):
        runnable = sorted(n for n, p in self.blocked.items() if p())
        if not runnable: raise RuntimeError(f"DEADLOCK blocked={list(self.blocked)}")
        self.current = self.choose(runnable, self.trace); self.lock.notify_all()
    def me(self): return threading.current_thread().name if threading.current_thread() is not threading.main_thread() else 'main'

def make_patches(s):
    class Q:
        def __init__(self, maxsize=0): self.maxsize = maxsize; self.items = []; self.unfinished = 0
        def put(self, x):
            s.yield_point(s.me(), 'put', lambda: len(self.items) < self.maxsize); self.items.append(x); self.unfinished += 1
        def get(self):
            s.yield_point(s.me(), 'get', lambda: len(self.items) > 0); return self.items.pop(0)
        def task_done(self):
            s.yield_point(s.me(), 'task_done'); self.unfinished -= 1
        def join(self):
            s.yield_point(s.me(), 'join', lambda: self.unfinished == 0)
    class T(threading.Thread):
        n = 0
        def __init__(self, target, args):
            T.n += 1; super().__init__(name=f"t{T.n}-{target.__name__}"); self._t = target; self._a = args
        def run(self):
            s.yield_point(self.name, 'start')
            try: self._t(*self._a)
            except RuntimeError as e: pass
        def start(self):
            with s.lock: s.blocked[self.name] = lambda: True
            super().start()
    return Q, T

class RecFile:
    def __init__(self, s): self.s = s; self.writes = []; self.name = "rec"
    def write(self, b): self.s.yield_point(self.s.me(), 'write'); self.writes.append(bytes(b))
    def flush(self): self.s.yield_point(self.s.me(), 'flush'); self.writes.append(b'FLUSH')

def run_once(seed, qsize, mutate=False):
    rnd = random.Random(seed)
    s = Sched(lambda runnable, trace: rnd.choice(runnable))
    Q, T = make_patches(s)
    cu.Queue, cu.Thread = Q, T
    if mutate:
        def compressor(queue_in, queue_out, bpv):
            while True:
                buffer = queue_in.get(); compressed = zfpy.compress_numpy(buffer, rate=bpv, write_header=False)
                queue_in.task_done(); queue_out.put(compressed)
        cu.compressor = compressor
    a = np.random.RandomState(0).randn(10, 5, 9).astype(np.float32)   # 3 plane sets
    from seismic_zfp.headers import HeaderwordInfo
    from seismic_zfp.utils import CubeWithAxes, Geometry3d, define_blockshape_3d
    bpv, bs = define_blockshape_3d(8, (4,4,-1))
    src = CubeWithAxes(a, np.arange(10), np.arange(5), 4.0*np.arange(9))
    hi = HeaderwordInfo(n_traces=50, variant_header_dict={})
    f = RecFile(s)
    try:
        cu.run_conversion_loop(src, f, bpv, bs, hi, Geometry3d(0,10,0,5), queue_size=qsize)
    except RuntimeError as e:
        return "DEADLOCK", len(s.trace)
    n_at_return = len(f.writes)
    return hashlib.sha1(b'|'.join(f.writes)).hexdigest()[:10], n_at_return, len(s.trace)

import importlib
orig_compressor = cu.compressor
for mutate in (False, True):
    cu.compressor = orig_compressor
    res = {}
    for seed in range(60):
        for q in (1, 2):
            r = run_once(seed, q, mutate)
            res.setdefault(r[:2], 0); res[r[:2]] += 1
    print("mutated" if mutate else "original", res)
