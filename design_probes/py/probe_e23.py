from mk import *
rs = np.random.RandomState(18)
def sconv(path, out, ck={}, **k):
    with SegyConverter(path, **ck) as c: c.run(out, **k)
def export(src, out):
    with SgzConverter(src) as c: c.convert_to_segy(out)
def cmp_segy(p1, p2, label):
    with segyio.open(p1, strict=False) as s1, segyio.open(p2, strict=False) as s2:
        res = dict(tc=s1.tracecount==s2.tracecount, samples=np.array_equal(s1.samples, s2.samples),
                   raw3600=open(p1,"rb").read(3600)==open(p2,"rb").read(3600),
                   headers=all(dict(s1.header[t])==dict(s2.header[t]) for t in range(min(s1.tracecount, s2.tracecount))),
                   il=(s1.ilines is None and s2.ilines is None) or (s1.ilines is not None and s2.ilines is not None and np.array_equal(s1.ilines, s2.ilines)),
                   traces_close=all(np.allclose(s1.trace[t], s2.trace[t], atol=1e-2) for t in range(min(s1.tracecount, s2.tracecount))))
        print(label, res)
# 2D
d = rs.randn(21, 33).astype(np.float32); mk_segy_2d("u.sgy", d, t0=100, dt_us=2000)
quiet(sconv, "u.sgy", "u.sgz", bits_per_voxel=16); quiet(export, "u.sgz", "u2.sgy"); cmp_segy("u.sgy", "u2.sgy", "2D")
# irregular
a = rs.randn(5,6,9).astype(np.float32); present = np.ones((5,6), bool); present[1,2]=False; present[4,5]=False
mk_segy("v.sgy", a, 10+np.arange(5), 20+np.arange(6), present=present)
quiet(sconv, "v.sgy", "v.sgz", bits_per_voxel=16)
try:
    quiet(export, "v.sgz", "v2.sgy"); cmp_segy("v.sgy", "v2.sgy", "irregular")
    print("sizes", os.path.getsize("v.sgy"), os.path.getsize("v2.sgy"))
except Exception as e: print("irregular export EXC", type(e).__name__, str(e)[:100])
# regular with negative t0 and descending il
a = rs.randn(5,6,9).astype(np.float32)
mk_segy("w.sgy", a, 30-2*np.arange(5), 20+3*np.arange(6), t0=-200, dt_us=500)
quiet(sconv, "w.sgy", "w.sgz", bits_per_voxel=16); quiet(export, "w.sgz", "w2.sgy"); cmp_segy("w.sgy", "w2.sgy", "desc il, t0=-200")
