from mk import *
rs = np.random.RandomState(11)
TF = segyio.TraceField
def nconv(a, out, ck={}, **k):
    with NumpyConverter(a, **ck) as c: c.run(out, **k)
def sconv(path, out, ck={}, **k):
    with SegyConverter(path, **ck) as c: c.run(out, **k)
a = rs.randn(5, 6, 9).astype(np.float32)
# default headers
quiet(nconv, a, "n.sgz", bits_per_voxel=8)
with SgzReader("n.sgz") as r:
    print("default IL hdr:", r.get_tracefield_values(189)[:, 0], "XL:", r.get_tracefield_values(193)[0, :], "size", os.path.getsize("n.sgz"))
# user header with code > 189 and int64
sp = rs.randint(0, 1000, (5,6))
quiet(nconv, a, "n.sgz", ck=dict(trace_headers={TF.ShotPoint: sp.astype(np.int32)}), bits_per_voxel=8)
with SgzReader("n.sgz") as r:
    print("ShotPoint(197) ok:", np.array_equal(r.get_tracefield_values(197), sp), "IL ok:", np.array_equal(r.get_tracefield_values(189)[:,0], np.arange(5)))
quiet(nconv, a, "n.sgz", ck=dict(trace_headers={TF.CDP_X: sp.astype(np.int64)}, ilines=np.arange(5, dtype=np.int32), xlines=np.arange(6,dtype=np.int32)), bits_per_voxel=8)
with SgzReader("n.sgz") as r:
    print("int64 CDP_X ok:", np.array_equal(r.get_tracefield_values(181), sp))
# sample interval truncation & arange length
bad = [d for d in range(1, 65536) if int(np.array(1000.0*np.array((np.arange(2)*(d/1000.0)+0)[1] - 0.0)).astype(int)) != d]
print("intervals truncated wrongly at t0=0:", len(bad), bad[:10])
from seismic_zfp.utils import gen_coord_list
badlen = [(d, c) for d in range(1, 5000) for c in (2,3,5,50,1000) if len(gen_coord_list(0, d/1000, c)) != c]
print("arange length wrong:", len(badlen), badlen[:8])
for dt in (1001, 100, 4000, 333):
    d = rs.randn(4,4,7).astype(np.float32)
    mk_segy("s.sgy", d, [1,2,3,4], [1,2,3,4], dt_us=dt)
    quiet(sconv, "s.sgy", "s.sgz", bits_per_voxel=8)
    with SgzReader("s.sgz") as r, segyio.open("s.sgy") as s:
        print("dt", dt, "src samples", s.samples[:3], "sgz", r.zslices[:3], "len", len(r.zslices), "n_samples", r.n_samples)
