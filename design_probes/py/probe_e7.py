from mk import *
rs = np.random.RandomState(6)
def nconv(a, out, ck={}, **k):
    with NumpyConverter(a, **ck) as c: c.run(out, **k)
def adv(src, out):
    with SgzConverter(src) as c: c.convert_to_adv_sgz(out)
TF = segyio.TraceField
for shape in [(5,5,50), (4,9,20), (64,64,8), (65,70,9), (128, 3, 5), (8, 16, 5)]:
    a = rs.randn(*shape).astype(np.float32)
    hd = {TF.CDP_X: rs.randint(0,1000,shape[:2]).astype(np.int32)}
    quiet(nconv, a, "h.sgz", ck=dict(trace_headers=hd), bits_per_voxel=2)
    try:
        quiet(adv, "h.sgz", "ha.sgz")
        with SgzReader("h.sgz") as r, SgzReader("ha.sgz") as q:
            v, w = r.read_volume(), q.read_volume()
            hs_ok = all(r.gen_trace_header(t) == q.gen_trace_header(t) for t in range(shape[0]*shape[1]))
            print(shape, "vol eq", np.array_equal(v, w), "hdr eq", hs_ok, "size", os.path.getsize("ha.sgz"), "expected", 8192+4096*q.compressed_data_diskblocks+q.n_header_arrays*q.padded_header_entry_length_bytes, "hash eq", r.get_source_data_hash()==q.get_source_data_hash())
    except Exception as e:
        print(shape, "EXC", type(e).__name__, e)
