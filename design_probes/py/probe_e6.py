from mk import *
rs = np.random.RandomState(5)
def nconv(a, out, ck={}, **k):
    with NumpyConverter(a, **ck) as c: c.run(out, **k)
def crop(src, out, **k):
    with SgzCropper(src) as c: c.write_cropped_file_by_indexes(out, **k)
a = rs.randn(10, 13, 300).astype(np.float32)
il = np.arange(20, 30); xl = np.arange(5, 18)
quiet(nconv, a, "g.sgz", ck=dict(ilines=il, xlines=xl), bits_per_voxel=8)
with SgzReader("g.sgz") as r: full = r.read_volume(); print("src", r.blockshape, r.shape_pad, r.stored_header_keys)
for k in [dict(iline_index_range=(4,8)), dict(iline_index_range=(4,8), xline_index_range=(4,12), zslices_index_range=(0,256)),
          dict(iline_index_range=(4,10)), dict(xline_index_range=(4,13)), dict(zslices_index_range=(256,300)), dict(iline_index_range=(5,7)),
          dict(iline_index_range=(8,4)), dict(iline_index_range=(4,4)), dict(iline_index_range=(0,11)), dict()]:
    if os.path.exists("gc.sgz"): os.remove("gc.sgz")
    try:
        quiet(crop, "g.sgz", "gc.sgz", **k)
        with SgzReader("gc.sgz") as r:
            i0,i1 = k.get('iline_index_range',(0,10)); x0,x1 = k.get('xline_index_range',(0,13)); z0,z1 = k.get('zslices_index_range',(0,300))
            i0 -= i0%4; x0 -= x0%4; z0 -= z0%256
            i1 = min(10, -(-i1//4)*4); x1 = min(13, -(-x1//4)*4); z1=min(300, -(-z1//256)*256)
            exp = full[i0:i1, x0:x1, z0:z1]
            try:
                v = r.read_volume()
                print(k, "size", os.path.getsize("gc.sgz"), "expected data blocks", r.compressed_data_diskblocks, "shape", v.shape, "eq", v.shape==exp.shape and np.array_equal(v, exp), "structured", r.structured, "tc", r.tracecount, "il", r.ilines[:2], "xl", r.xlines[:2])
                h = r.gen_trace_header(1); print("     hdr1", h[189], h[193], "expect", il[i0], xl[x0+1])
            except Exception as e: print(k, "READ EXC", type(e).__name__, e)
    except Exception as e:
        print(k, "EXC", type(e).__name__, e, "output exists:", os.path.exists("gc.sgz"))
