"""D47 (C12, C06): on an irregular file the header arrays are held in one padding mode at a time.  convert_to_adv_sgz and
write_segy call read_variant_headers directly, which asserts that the mode has not changed: after gen_trace_header (mode
'unpadded') the re-blocker, and after get_tracefield_values (mode 'padded') the SEG-Y export, fail with AssertionError on the
same converter object, although both succeed on a fresh one (the readers' own callers reload through _load_variant_headers)."""
import sys, os
if len(sys.argv) > 1:
    os.environ['VERIF_REPO'] = sys.argv[1]
sys.path.insert(0, os.path.join(os.path.dirname(os.path.abspath(__file__)), '..', 'tools'))
from hz import *
d = scratch_dir()
sgz = os.path.join(d, 'irr.sgz')
write_segy_sgz(os.path.join(REPO, 'test_data', 'small-irregular.sgy'), sgz, bpv=2)
ref = {}
with SgzConverter(sgz) as c:
    quiet(c.convert_to_adv_sgz, os.path.join(d, 'ref.sgz'))
with SgzConverter(sgz) as c:
    quiet(c.convert_to_segy, os.path.join(d, 'ref.sgy'))
bad = 0
for label, pre, act, out, refout in [
        ('gen_trace_header(0) then convert_to_adv_sgz', lambda c: c.gen_trace_header(0), lambda c, o: c.convert_to_adv_sgz(o), 'o.sgz', 'ref.sgz'),
        ('get_tracefield_values(189) then convert_to_segy', lambda c: c.get_tracefield_values(189), lambda c, o: c.convert_to_segy(o), 'o.sgy', 'ref.sgy'),
        ('get_tracefield_values(193) then convert_to_adv_sgz', lambda c: c.get_tracefield_values(193), lambda c, o: c.convert_to_adv_sgz(o), 'o.sgz', 'ref.sgz'),
        ('gen_trace_header(3) then convert_to_segy', lambda c: c.gen_trace_header(3), lambda c, o: c.convert_to_segy(o), 'o.sgy', 'ref.sgy')]:
    o = os.path.join(d, out)
    if os.path.exists(o):
        os.remove(o)
    with SgzConverter(sgz) as c:
        try:
            pre(c)
            quiet(act, c, o)
        except BaseException as e:
            print(f'{label}: {type(e).__name__} {e} (a fresh converter object converts the same file)')
            bad += 1
            continue
    if open(o, 'rb').read() != open(os.path.join(d, refout), 'rb').read():
        print(f'{label}: output differs from the output of a fresh converter object')
        bad += 1
shutil.rmtree(d, ignore_errors=True)
sys.exit(1 if bad else 0)
