"""D51 (C02): the xarray backend returns WRONG SAMPLES, silently, when the dataset is opened with dask chunks.

    ds = xr.open_dataset(path, engine=SeismicZfpBackendEntrypoint, chunks={...});  ds.data.values

dask's threaded scheduler (its default for arrays) loads the chunks from several threads at once.  Every chunk ends in
SeismicZfpBackendArray._raw_indexing_method -> SgzReader.read_subvolume on the ONE reader of the dataset, whose range
reads are `file.seek(offset)` followed by `file.read(length)` on one shared handle (utils.read_range_file) and whose
loader keeps one-entry caches: a thread switch between another thread's seek and read makes it decompress the wrong
bytes.  No exception is raised; the values differ from read_volume().  xarray's backend protocol requires the raw indexing
method to be thread safe ("with self.lock:").  Witnesses: a (8,8,64) file, a default-layout file and a z-slice-layout file,
each loaded with 8 dask worker threads (a few repetitions; with the defect every repetition is wrong on this machine);
the same selections with dask's synchronous scheduler are right, which pins the cause on concurrency.
Exit status 1 when a threaded load differs from read_volume(), 0 otherwise."""
import sys, os
sys.path.insert(0, os.path.join(os.path.dirname(os.path.abspath(__file__)), '..', 'tools'))
from hz import *
import random
import xarray as xr
import dask
from seismic_zfp.sgz_xarray import SeismicZfpBackendEntrypoint

rng = random.Random(45)
d = scratch_dir()
bad = 0
try:
    for bpv, bs, shape, chunks in [(8, (8, 8, 64), (40, 40, 200), {'il': 8, 'xl': 8, 'z': 64}),
                                   (4, (4, 4, -1), (24, 28, 300), {'il': 4, 'xl': 4, 'z': 300}),
                                   (2, (64, 64, 4), (130, 70, 20), {'il': 64, 'xl': 64, 'z': 4})]:
        p = os.path.join(d, f'd51_{bs[0]}.sgz')
        write_numpy_sgz(p, rnd_cube(rng, shape), bpv=bpv, blockshape=bs)
        with SgzReader(p) as r:
            V = r.read_volume()
        for sched, reps in (('synchronous', 1), ('threads', 6)):
            wrong = 0
            for rep in range(reps):
                ds = xr.open_dataset(p, engine=SeismicZfpBackendEntrypoint, chunks=chunks)
                try:
                    with dask.config.set(scheduler=sched, num_workers=8):
                        got = ds.data.values
                        sub = ds.data[::2, 1::3, ::-1].values
                    if not bits_equal(got, V) or not bits_equal(sub, V[::2, 1::3, ::-1]):
                        wrong += 1
                        k = int(np.sum(got != V))
                finally:
                    ds.close()
            if wrong:
                print(f'blockshape {bs}, shape {shape}, chunks {chunks}, dask scheduler {sched!r}: {wrong} of {reps} loads differ '
                      f'from read_volume() (last: {k} of {V.size} samples wrong), no exception raised')
                bad += 1
finally:
    shutil.rmtree(d, ignore_errors=True)
print('D51:', 'DEFECT PRESENT' if bad else 'ok')
sys.exit(1 if bad else 0)
