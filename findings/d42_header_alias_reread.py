"""D42 (C07): regenerating ONE trace header of a regular file should cost 4 bytes per STORED header array.  Header words that
merely duplicate another varying word alias the same stored array in the reader's template (same FileOffset), and
gen_trace_header issues one 4-byte range read per FileOffset ENTRY: the word of a shared array is requested once per alias
(over a blob backend: one extra round trip each).  Witness 1: test_data/padding/padding_7x6.sgz (9 stored arrays, 14
FileOffset words): 14 requests / 56 bytes instead of 9 / 36.  Witness 2: a 5 x 6 SEG-Y survey whose fields 1, 5 and 21 all
count the traces, converted with the default 'heuristic' detection: 5 stored arrays, 7 requests, the same 4 bytes 3 times."""
import sys, os
sys.path.insert(0, os.path.join(os.path.dirname(os.path.abspath(__file__)), '..', 'tools'))
from hz import *
import random
d = scratch_dir()
bad = 0


def check(path, label, traces):
    global bad
    sp = SpecFile(path)
    foot = 4096 * sp.nhb + 4096 * sp.ndb
    f = CountingFile(path)
    with SgzReader(f) as r:
        for t in traces:
            f.log.clear()
            hdr = r.gen_trace_header(t)
            got = [(o, l) for o, l in f.log if o >= foot]
            want = [(foot + k * sp.stride + 4 * t, 4) for k in range(sp.nha)]
            if sorted(got) != want:
                print(f'{label}: gen_trace_header({t}) issued {len(got)} footer requests / {sum(l for _, l in got)} bytes for '
                      f'{sp.nha} stored arrays; repeated: {sorted(set(x for x in got if got.count(x) > 1))}')
                bad += 1
            # the values must be what the stored arrays hold, aliases included
            for k, v in r.segy_traceheader_template.items():
                if isinstance(v, szutils.FileOffset):
                    kk = (int(v) - foot) // sp.stride
                    if int(hdr[k]) != int(sp.footer_array(kk)[t]):
                        print(f'{label}: header word {int(k)} of trace {t} is {int(hdr[k])}, stored {int(sp.footer_array(kk)[t])}')
                        bad += 1


try:
    check(os.path.join(REPO, 'test_data', 'padding', 'padding_7x6.sgz'), 'padding_7x6.sgz', (0, 5, 41))
    rng = random.Random(42)
    n_il, n_xl, ns = 5, 6, 40
    sgy = os.path.join(d, 'a.sgy'); p = os.path.join(d, 'a.sgz')
    mk_segy(sgy, rnd_cube(rng, (n_il, n_xl, ns)), range(1, 1 + n_il), range(20, 20 + n_xl),
            hdr=lambda t, i, x: {segyio.TraceField.TRACE_SEQUENCE_LINE: t + 1, segyio.TraceField.TRACE_SEQUENCE_FILE: t + 1,
                                 segyio.TraceField.CDP: t + 1})
    write_segy_sgz(sgy, p, bpv=4)
    check(p, 'segy 5x6 with fields 1 = 5 = 21', (0, 7, 29))
    sys.exit(1 if bad else 0)
finally:
    shutil.rmtree(d)
