"""D34 (C06, known finding): a SEG-Y source that announces extended textual headers (binary header bytes 3505-3506)
converts to SGZ (segyio skips the extended headers; the SGZ file keeps the first 3600 bytes only), but the export
writes the stored binary header -- which still announces them -- over a file that has none: segyio then looks for
trace 0 at 3600 + 3200*n and the exported file cannot be read back.
Exit 1 when the exported file of a source with one extended textual header does not open with the source's traces."""
import sys, os, random
sys.path.insert(0, os.path.join(os.path.dirname(os.path.abspath(__file__)), '..', 'tools'))
from hz import *
d = scratch_dir()
try:
    rng = random.Random(30)
    a = rnd_cube(rng, (4, 5, 9))
    sgy, sgz, out = (os.path.join(d, n) for n in ('a.sgy', 'a.sgz', 'o.sgy'))
    mk_segy(sgy, a, [1, 2, 3, 4], [1, 2, 3, 4, 5], ext_text=1)
    write_segy_sgz(sgy, sgz, bpv=16)
    with SgzConverter(sgz) as c:
        quiet(c.convert_to_segy, out)
    print('source size', os.path.getsize(sgy), 'exported size', os.path.getsize(out),
          'announced extended headers', int.from_bytes(open(out, 'rb').read(3600)[3504:3506], 'big'))
    try:
        with segyio.open(out) as f, segyio.open(sgy) as g:
            ok = f.tracecount == g.tracecount and np.allclose(f.trace.raw[:], g.trace.raw[:], rtol=1e-2, atol=1e-3)
        print('exported file opens; traces agree:', ok)
    except Exception as e:
        print('exported file cannot be opened:', repr(e))
        ok = False
    sys.exit(0 if ok else 1)
finally:
    shutil.rmtree(d)
