"""D31 (C04, C09): a 2D SEG-Y (inline/crossline fields zero) whose offset field (byte 37) is populated with a different
value in every trace is opened by segyio (strict=False) as a structured file of 1 inline x 1 crossline x n offsets.
detect_geometry then takes Geometry2d(seismic.xlines): ONE trace.  The converter writes the data of one trace group and
header arrays of 4 bytes while the file header says n traces: every gen_trace_header(i), i >= 1, raises IndexError and
the samples of all traces but the first group are lost.  Exit 1 if any header differs or raises, 0 otherwise."""
import sys, os, random
sys.path.insert(0, os.path.join(os.path.dirname(os.path.abspath(__file__)), '..', 'tools'))
from hz import *
d = scratch_dir()
bad = 0
try:
    rng = random.Random(2)
    n = 21
    a = rnd_cube(rng, (n, 12))
    sgy = os.path.join(d, 'a.sgy'); p = os.path.join(d, 'a.sgz')
    mk_segy_2d(sgy, a, hdr=lambda t: {segyio.TraceField.offset: 100 + 25 * t})
    for mode in ('heuristic', 'exhaustive'):
        write_segy_sgz(sgy, p, bpv=8, header_detection=mode)
        with segyio.open(sgy, ignore_geometry=True) as s, SgzReader(p) as r:
            print(f'{mode}: tracecount {r.tracecount}, bytes per header array {r.header_entry_length_bytes} (4 x {n} expected)')
            for t in range(n):
                try:
                    h = r.gen_trace_header(t)
                    bad += any(int(h[k]) != int(v) for k, v in s.header[t].items())
                except Exception as e:
                    bad += 1
                    if t == 1:
                        print(f'  gen_trace_header(1): {type(e).__name__}: {e}')
            if os.path.getsize(p) != SpecFile(p).expected_length():
                bad += 1
    print('bad headers:', bad)
    sys.exit(1 if bad else 0)
finally:
    shutil.rmtree(d)
