"""D40 (C18, known finding): the source-data hash is patched into header bytes 960..980 by the LAST write of a conversion.
A file cut anywhere before (or inside) that write opens normally and get_source_data_hash() returns zeros (or a mixture)
instead of raising.  Not a sample and not a trace header; recorded for completeness.  Exit 1 = reproduces."""
import sys, os, io
sys.path.insert(0, os.path.join(os.path.dirname(os.path.abspath(__file__)), '..', 'tools'))
from hz import *
d = scratch_dir()
try:
    a = rnd_cube(random.Random(1), (5, 6, 20))
    p = os.path.join(d, 'a.sgz')
    write_numpy_sgz(p, a, bpv=8)
    final = open(p, 'rb').read()
    want = SgzReader(p).get_source_data_hash()
    before = bytearray(final)
    before[960:980] = bytes(20)          # the state of the file until write_hash runs (footer complete, hash pending)
    f = io.BytesIO(bytes(before)); f.name = 'before_hash.sgz'
    got = SgzReader(f).get_source_data_hash()
    if got != want:
        print(f'before the hash patch: get_source_data_hash() = {got} (complete file: {want}), no error')
        sys.exit(1)
    sys.exit(0)
finally:
    shutil.rmtree(d)
