"""D46 (C12, also C06): convert_to_segy on an SGZ file whose stored binary header has a data-sample-format code other than 1 or 5
(every NumpyConverter file: code 0) substitutes code 1 by REPLACING self.headerbytes of the converter object.  Whatever the
same object writes afterwards carries the substituted byte: convert_to_adv_sgz then produces a re-blocked file whose file
header differs from the source's (C12: 'file headers ... unchanged')."""
import sys, os
if len(sys.argv) > 1:
    os.environ['VERIF_REPO'] = sys.argv[1]
sys.path.insert(0, os.path.join(os.path.dirname(os.path.abspath(__file__)), '..', 'tools'))
from hz import *
d = scratch_dir()
rng = random.Random(4)
src = rnd_cube(rng, (5, 6, 30))
p = os.path.join(d, 'a.sgz')
write_numpy_sgz(p, src, bpv=2, blockshape=(4, 4, -1), ilines=np.arange(1, 6), xlines=np.arange(20, 26), samples=np.arange(30) * 4.0)
source_header = open(p, 'rb').read()[4096:4096 + 3600]
bad = 0
for label, export_first in [('re-block only', False), ('export to SEG-Y, then re-block, same object', True)]:
    out = os.path.join(d, 'adv.sgz')
    with SgzConverter(p) as c:
        before = bytes(c.headerbytes)
        if export_first:
            quiet(c.convert_to_segy, os.path.join(d, 'x.sgy'))
            if bytes(c.headerbytes) != before:
                k = [i for i in range(len(before)) if c.headerbytes[i] != before[i]]
                print(f'{label}: the object\'s header bytes changed at {k} during convert_to_segy')
                bad += 1
        quiet(c.convert_to_adv_sgz, out)
    got = open(out, 'rb').read()[4096:4096 + 3600]
    if got != source_header:
        k = [i for i in range(3600) if got[i] != source_header[i]]
        print(f'{label}: stored SEG-Y file header of the re-blocked file differs from the source at bytes {k}: {[got[i] for i in k]} vs {[source_header[i] for i in k]}')
        bad += 1
shutil.rmtree(d, ignore_errors=True)
sys.exit(1 if bad else 0)
