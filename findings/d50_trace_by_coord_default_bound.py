"""D50 (C02): get_trace_by_coord(index) -- the whole trace, no sample window -- raises IndexError on files whose sample
interval is not exactly representable in binary (0.1 ms, 0.2 ms with enough samples, 0.3 ms, 1.1 ms, 2.1 ms, 3.3 ms ...).
A missing upper bound is first turned into the COORDINATE  zslices[-1] + zslices[1] - zslices[0]  and then looked up with
coord_to_index(..., include_stop=True), which recognises only  zslices[-1] + (zslices[-1] - zslices[-2]) ; the two are the
same number in exact arithmetic but not in float64.  get_trace(index) on the same file works; so does an explicit window.
Witness: a 5 x 4 x 4 cube with samples 0, 0.1, 0.2, 0.3 ms: default upper bound 0.4, stop value 0.4000000000000001.
Repair: a missing bound becomes the ORDINAL (0 / n_samples); only a given bound is looked up."""
import sys, os
sys.path.insert(0, os.path.join(os.path.dirname(os.path.abspath(__file__)), '..', 'tools'))
from hz import *
import random
d = scratch_dir()
bad = 0
try:
    rng = random.Random(47)
    for dt, ns in ((0.1, 4), (0.3, 9), (1.1, 12), (2.1, 7), (3.3, 40), (4.0, 8), (0.5, 9)):
        src = rnd_cube(rng, (5, 4, ns))
        zs = np.array([dt * k for k in range(ns)], dtype=np.float64)
        p = os.path.join(d, 'a.sgz')
        write_numpy_sgz(p, src, samples=zs)
        with SgzReader(p) as r:
            V = r.read_volume()
            for t in (0, 7, 19):
                want = V[t // 4, t % 4]
                for label, call in (('get_trace_by_coord(t)', lambda: r.get_trace_by_coord(t)),
                                    ('get_trace_by_coord(t, zs[1])', lambda: r.get_trace_by_coord(t, r.zslices[1])),
                                    ('get_trace_by_coord(t, None, zs[-1])', lambda: r.get_trace_by_coord(t, None, r.zslices[-1]))):
                    lo = 1 if 'zs[1]' in label else 0
                    hi = ns - 1 if 'zs[-1]' in label else ns
                    try:
                        got = call()
                        if not bits_equal(got, want[lo:hi]):
                            print(f'dt={dt} ms, {ns} samples: {label} differs from the decoded trace'); bad += 1
                    except Exception as e:
                        print(f'dt={dt} ms, {ns} samples, t={t}: {label} raised {type(e).__name__}: {e}'); bad += 1
    sys.exit(1 if bad else 0)
finally:
    shutil.rmtree(d, ignore_errors=True)
