"""D36 (C04, C03): NumpyConverter accepts every value of segyio.tracefield.keys as a header key, including 233 and 237
(the "unassigned" words at bytes 233-240 of a trace header).  The SGZ header-word table has 89 entries, one per field of
segyio.segy.Field(kind='trace'); 233 and 237 are not among them.  HeaderwordInfo then holds a 90th table row, to_buffer()
writes it past its bytearray(1068), `buffer[980:2048] = ...` grows the 8 kB header by 12 bytes, and the file that is
written cannot be opened (the reader decodes 89 rows, counts one stored array too few and asserts).
Exit 1 if such a key is accepted and the file is unreadable or mis-sized, 0 if it is refused (or read back correctly)."""
import sys, os
sys.path.insert(0, os.path.join(os.path.dirname(os.path.abspath(__file__)), '..', 'tools'))
from hz import *
d = scratch_dir()
bad = 0
try:
    a = np.zeros((3, 5, 8), dtype=np.float32)
    grid = np.arange(15).reshape(3, 5).astype(np.int32)
    for code in (233, 237):
        p = os.path.join(d, f'x{code}.sgz')
        try:
            write_numpy_sgz(p, a, bpv=8, trace_headers={code: grid})
        except AssertionError:
            print(f'field {code}: refused by NumpyConverter')
            continue
        size, want = os.path.getsize(p), SpecFile(p).expected_length()
        try:
            with SgzReader(p) as r:
                ok = np.array_equal(r.get_tracefield_values(code), grid) and size == want
            print(f'field {code}: written, length {size} (header implies {want}), read back {"ok" if ok else "WRONG"}')
            bad += not ok
        except Exception as e:
            print(f'field {code}: written, length {size} (header implies {want}), SgzReader raises {type(e).__name__}')
            bad += 1
    # the 89 table fields are all still accepted
    fields = [int(k) for k in segyio.segy.Field(bytearray(240), kind='trace')]
    p = os.path.join(d, 'all.sgz')
    write_numpy_sgz(p, a, bpv=8, trace_headers={f: grid + f for f in fields if f not in (189, 193)})
    with SgzReader(p) as r:
        if not all(np.array_equal(r.get_tracefield_values(f), grid + f) for f in fields if f not in (189, 193)):
            print('the 89 table fields do not all read back')
            bad += 1
    sys.exit(1 if bad else 0)
finally:
    shutil.rmtree(d)
