"""D5 (C01): reduce_iops=True on a SEG-Y with an extended textual header: the reduced-I/O reader's self-test fails
(its fixed 3600-byte offset is wrong), the converter only WARNS and keeps using it instead of falling back to segyio
as documented, so every trace is read from the wrong file position and the SGZ holds wrong samples."""
import sys, os, random
sys.path.insert(0, os.path.join(os.path.dirname(os.path.abspath(__file__)), '..', 'tools'))
from hz import *
d = scratch_dir()
try:
    rng = random.Random(1)
    a = rnd_cube(rng, (6, 7, 9))
    sgy = os.path.join(d, 'a.sgy'); p = os.path.join(d, 'a.sgz'); q = os.path.join(d, 'b.sgz')
    mk_segy(sgy, a, range(1, 7), range(10, 17), ext_text=1)
    write_segy_sgz(sgy, p, bpv=8, reduce_iops=True)
    write_segy_sgz(sgy, q, bpv=8, reduce_iops=False)
    with SgzReader(p) as r1, SgzReader(q) as r2:
        v1, v2 = r1.read_volume(), r2.read_volume()
    ok = bits_equal(v1, v2)
    print('reduce_iops=True gives the same volume as reduce_iops=False:', ok, '' if ok else 'max abs diff %g' % np.abs(v1 - v2).max())
    sys.exit(0 if ok else 1)
finally:
    shutil.rmtree(d)
