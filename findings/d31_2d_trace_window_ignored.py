"""D31 (C02, C14): on a 2D file get_trace(i, min_sample_id, max_sample_id) ignores the sample window: it returns the
whole trace (docstring: shape (max_sample_id - min_sample_id)) and accepts any window, including out-of-range ones."""
import sys, os, random
sys.path.insert(0, os.path.join(os.path.dirname(os.path.abspath(__file__)), '..', 'tools'))
from hz import *
d = scratch_dir()
try:
    rng = random.Random(1)
    a = rnd_cube(rng, (21, 50))
    sgy = os.path.join(d, 'a.sgy'); p = os.path.join(d, 'a.sgz')
    mk_segy_2d(sgy, a)
    bad = 0
    for bs in ((1, 16, -1), (1, 4, -1)):
        write_segy_sgz(sgy, p, bpv=8, blockshape=bs)
        with SgzReader(p) as r:
            full = r.get_trace(3)
            w = r.get_trace(3, 5, 10)
            ok = w.shape == (5,) and bits_equal(w, full[5:10])
            print(bs, 'get_trace(3, 5, 10): shape', w.shape, 'is the window of the trace:', ok)
            bad += not ok
            for lo, hi in ((0, 51), (-1, 10), (10, 5), (7, 7)):
                try:
                    r.get_trace(3, lo, hi)
                    print(bs, 'window', (lo, hi), 'outside the trace was accepted'); bad += 1
                except IndexError:
                    pass
    sys.exit(1 if bad else 0)
finally:
    shutil.rmtree(d)
