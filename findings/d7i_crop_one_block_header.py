"""D7i (C10): regenerate_header patches the sample count of the SEG-Y binary header at byte 4096 + 3200 + 20 of the copied
header whatever its length.  Files of the first format version have ONE header block (no SEG-Y headers): the slice
assignment past the end of the 4096-byte bytearray APPENDS two bytes, the cropped file gets a 4098-byte header, its data
section is shifted by two bytes and the file is two bytes longer than its header says."""
import sys, os, random
sys.path.insert(0, os.path.join(os.path.dirname(os.path.abspath(__file__)), '..', 'tools'))
from hz import *
d = scratch_dir()
try:
    src, out = os.path.join(REPO, 'test_data', 'small_v0.0.1.sgz'), os.path.join(d, 'out.sgz')
    with SgzReader(src) as r:
        vol = r.read_volume()
        print('source: header blocks', r.n_header_blocks, 'shape', vol.shape)
    with SgzCropper(src) as c:
        quiet(c.write_cropped_file_by_indexes, out, (0, 4), (0, 4), None)
    sp = SpecFile(out)
    bad = os.path.getsize(out) != sp.expected_length()
    print('file length', os.path.getsize(out), 'header says', sp.expected_length())
    try:
        with SgzReader(out) as r:
            ok = bits_equal(r.read_volume(), vol[0:4, 0:4])
    except Exception as e:
        print('read_volume raises', type(e).__name__, e)
        ok = False
    print('read_volume equals source[0:4, 0:4]:', ok)
    sys.exit(1 if (bad or not ok) else 0)
finally:
    shutil.rmtree(d)
