"""D53 (C01, C20; known finding, not repaired): a ZGY (or VDS) source whose INLINE numbering contains a negative number cannot be
converted faithfully.  conversion_utils.io_thread_func fetches a plane as seismicfile.iline[seismicfile.ilines[L]] (the segyio
idiom: the key is the line NUMBER).  The pyzgy / pyvds emulators implement SliceAccessor.__getitem__(int) as
`elif subscript < 0: values_function(len(self) + subscript)`, i.e. a negative key is taken as a position from the end and only
then looked up as a number.  With the inline axis -2, 0, 2, 4, 6, 8 the converter asks for iline[-2] and receives inline
NUMBER 6 + (-2) = 4 (ordinal 3): the SGZ file silently holds the wrong plane as its first inline and the stored hash is not
that of the source.  With step 1 (axis -3 .. 2) the lookup fails instead: IndexError "Coordinate 3 not in axis".
Negative CROSSLINE numbers are harmless (the crossline accessor is never used), and seismic_zfp's own emulator (SGZ as input)
treats negative keys as numbers.  The cause lies in pyzgy / pyvds (outside /repo); a repair inside /repo would have to special-case
handle types (e.g. call read_inline(ordinal) when the handle has it), so the finding is recorded with the guard "every inline
number of the source is >= 0" (Props/C01a.v: C01a_emulator_contract / C01a_emulator_negative_refuted).
Exit 1 when the defect reproduces, 0 otherwise."""
import sys, os
sys.path.insert(0, os.path.join(os.path.dirname(os.path.abspath(__file__)), '..', 'tools'))
from hz import *
import pyzgy
from pyzgy.write import SeismicWriter
from seismic_zfp.conversion import ZgyConverter
d = scratch_dir()
rc = 0
try:
    data = (np.random.RandomState(1).standard_normal((6, 5, 8)) + 1000.0 * np.arange(6)[:, None, None]).astype(np.float32)
    for name, astart, ainc in (('step2', (-2, 10), (2, 1)), ('step1', (-3, 10), (1, 1))):
        src = os.path.join(d, name + '.zgy')
        with SeismicWriter(src, size=data.shape, zstart=0.0, zinc=4.0, annotstart=astart, annotinc=ainc) as w:
            w.write_volume(data)
        out = os.path.join(d, name + '.sgz')

        def conv():
            with ZgyConverter(src) as c:
                c.run(out, bits_per_voxel=16)
        try:
            quiet(conv)
        except Exception as e:
            print(f'{name}: inline numbers start at {astart[0]}: ZgyConverter.run raised {type(e).__name__}: {e}')
            rc = 1
            continue
        with SgzReader(out) as r:
            v = r.read_volume()
            worst = [float(np.abs(v[i] - data[i]).max()) for i in range(6)]
            same_hash = r.get_source_data_hash() == hashlib.sha1(data.tobytes()).hexdigest()
            print(f'{name}: ilines {list(r.ilines)}; max |read-back - source| per inline {[round(x, 3) for x in worst]}; hash equal: {same_hash}')
            if max(worst) > 1.0 or not same_hash:
                which = [i for i in range(6) if np.abs(v[0] - data[i]).max() < 1.0]
                print(f'   inline ordinal 0 of the SGZ file holds source inline ordinal {which}')
                rc = 1
finally:
    shutil.rmtree(d, ignore_errors=True)
sys.exit(rc)
