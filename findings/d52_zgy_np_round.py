"""D52 (C01, C03): the ZGY route cannot convert anything under NumPy >= 2.0: HeaderwordInfo.get_zgy_header_arrays calls
np.round_, which NumPy 2.0 removed, so ZgyConverter.run raises AttributeError before any output is produced (the three ZGY
tests of the repository fail for the same reason even with a parseable library version).  C01 and C03 quantify over the
VDS/ZGY routes.  Repair: np.round (the same function under its surviving name).
Exit 1 when the conversion raises or the read-back differs from the ZFP image of the source, 0 otherwise."""
import sys, os
sys.path.insert(0, os.path.join(os.path.dirname(os.path.abspath(__file__)), '..', 'tools'))
from hz import *
import pyzgy
from seismic_zfp.conversion import ZgyConverter
d = scratch_dir()
try:
    src = os.path.join(REPO, 'test_data', 'zgy', 'small-32bit.zgy')
    out = os.path.join(d, 'z.sgz')

    def conv():
        with ZgyConverter(src) as c:
            c.run(out, bits_per_voxel=8)
    try:
        quiet(conv)
    except Exception as e:
        print(f'ZgyConverter.run raised {type(e).__name__}: {e}')
        sys.exit(1)
    ref = pyzgy.tools.cube(src)
    with SgzReader(out) as r:
        v = r.read_volume()
    img = zfpy.decompress_numpy(zfpy.compress_numpy(np.pad(ref, [(0, -s % 4) for s in ref.shape], mode='edge'), rate=8, write_header=True))
    img = img[:ref.shape[0], :ref.shape[1], :ref.shape[2]]
    ok = bits_equal(v, img)
    print('read-back equals the ZFP image of the ZGY cube:', ok)
    sys.exit(0 if ok else 1)
finally:
    shutil.rmtree(d, ignore_errors=True)
