"""D45 (C12): convert_to_adv_sgz writes the footer arrays in the insertion order of the converter's header memo
(self.variant_headers), while a reader assigns the arrays their offsets in header-word-table order.  On a fresh converter the
two orders agree; after a tracefield query on the SAME SgzConverter object (e.g. get_tracefield_values(193) to look at the
crossline numbers before converting) the queried array is written first: every trace header of the re-blocked file is wrong."""
import sys, os
if len(sys.argv) > 1:
    os.environ['VERIF_REPO'] = sys.argv[1]
sys.path.insert(0, os.path.join(os.path.dirname(os.path.abspath(__file__)), '..', 'tools'))
from hz import *
d = scratch_dir()
rng = random.Random(3)
n_il, n_xl, ns = 6, 7, 40
src = rnd_cube(rng, (n_il, n_xl, ns))
ii, xx = np.meshgrid(np.arange(n_il), np.arange(n_xl), indexing='ij')
hdrs = {segyio.tracefield.TraceField.INLINE_3D: (10 + ii).astype(np.int32), segyio.tracefield.TraceField.CROSSLINE_3D: (200 + 2 * xx).astype(np.int32),
        segyio.tracefield.TraceField.CDP_X: (1000 + 3 * ii + 7 * xx).astype(np.int32)}
p = os.path.join(d, 'a.sgz')
with NumpyConverter(src, ilines=np.arange(10, 10 + n_il), xlines=np.arange(200, 200 + 2 * n_xl, 2), samples=np.arange(ns) * 4.0, trace_headers=hdrs) as c:
    quiet(c.run, p, bits_per_voxel=2)
with SgzReader(p) as r:
    want = [dict(r.gen_trace_header(t)) for t in range(n_il * n_xl)]
bad = 0
for label, pre in [('fresh converter', None), ('after get_tracefield_values(193)', 193), ('after get_tracefield_values(181)', 181)]:
    out = os.path.join(d, 'adv.sgz')
    with SgzConverter(p) as c:
        if pre is not None:
            c.get_tracefield_values(pre)
        quiet(c.convert_to_adv_sgz, out)
    with SgzReader(out) as r:
        got = [dict(r.gen_trace_header(t)) for t in range(n_il * n_xl)]
    wrong = sum(1 for a, b in zip(got, want) if a != b)
    if wrong:
        k = next(t for t in range(len(got)) if got[t] != want[t])
        diff = {int(f): (int(got[k][f]), int(want[k][f])) for f in want[k] if got[k][f] != want[k][f]}
        print(f'{label}: {wrong} of {len(want)} trace headers of the re-blocked file differ from the source, e.g. trace {k}: {diff}')
        bad += 1
shutil.rmtree(d, ignore_errors=True)
sys.exit(1 if bad else 0)
