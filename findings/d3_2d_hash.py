"""D3 (C20): 2D producer hashes seismic_buffer[0:n_traces] of every trace group: when n_traces exceeds the group size
and is not a multiple of it the replicated padding traces of the last group are hashed too."""
import sys, os, random
sys.path.insert(0, os.path.join(os.path.dirname(os.path.abspath(__file__)), '..', 'tools'))
from hz import *
d = scratch_dir()
try:
    rng = random.Random(1)
    bad = 0
    for nt in (5, 16, 17, 21, 32):
        a = rnd_cube(rng, (nt, 40))
        sgy = os.path.join(d, 'a.sgy'); p = os.path.join(d, 'a.sgz')
        mk_segy_2d(sgy, a)
        write_segy_sgz(sgy, p, bpv=4, blockshape=(1, 16, -1))
        with SgzReader(p) as r:
            h = r.get_source_data_hash()
        want = hashlib.sha1(a.tobytes()).hexdigest()
        print(nt, 'traces: hash ok' if h == want else 'traces: HASH DIFFERS')
        bad += h != want
    sys.exit(1 if bad else 0)
finally:
    shutil.rmtree(d)
