"""D14 (C05): (a) the writer stores the sample interval by truncation of 1000.0*(samples[1]-samples[0]); for 741 of the
65535 whole-microsecond intervals (first: 1001 us) that float product is just below the integer, so the header holds one
microsecond less and every sample time of the SGZ is wrong.  (b) the reader regenerates the sample axis with
np.arange(z0, z0 + r*n, r); for many (r, n) (e.g. 3 us x 3 samples) the float stop overshoots and the axis has n+1
elements.  Exit 1 if either reproduces, 0 if the SGZ sample axis equals the source's for all probes."""
import sys, os, random
sys.path.insert(0, os.path.join(os.path.dirname(os.path.abspath(__file__)), '..', 'tools'))
from hz import *
d = scratch_dir()
bad = 0
try:
    rng = random.Random(1)
    for dt, t0, ns in [(1001, 0, 5), (3, 0, 3), (1001, -2000, 3), (8003, 0, 7), (4000, 0, 6)]:
        a = rnd_cube(rng, (4, 4, ns))
        sgy = os.path.join(d, 'a.sgy'); p = os.path.join(d, 'a.sgz')
        mk_segy(sgy, a, [1, 2, 3, 4], [5, 6, 7, 8], dt_us=dt, t0=t0)
        with segyio.open(sgy) as f:
            src = f.samples.copy()
        write_segy_sgz(sgy, p, bpv=8)
        with SgzReader(p) as r:
            got = np.asarray(r.zslices)
            stored = struct.unpack('<I', r.headerbytes[28:32])[0]
        ok = got.shape == src.shape and got.tobytes() == src.tobytes()
        print(f'dt={dt}us t0={t0}ms n={ns}: stored interval {stored}; source {src.tolist()} sgz {got.tolist()} {"ok" if ok else "DIFFERENT"}')
        bad += not ok
    # NumPy route, an interval above the SEG-Y 16-bit limit that truncates (the 741 are spread over 1..65535)
    for dt, ns in [(64002, 4), (65535, 3)]:
        s = np.arange(ns) * (dt / 1000.0)
        p = os.path.join(d, 'n.sgz')
        write_numpy_sgz(p, rnd_cube(rng, (4, 4, ns)), bpv=8, ilines=np.arange(4), xlines=np.arange(4), samples=s)
        with SgzReader(p) as r:
            got = np.asarray(r.zslices)
        ok = got.shape == s.shape and got.tobytes() == s.tobytes()
        print(f'numpy route dt={dt}us n={ns}: source {s.tolist()} sgz {got.tolist()} {"ok" if ok else "DIFFERENT"}')
        bad += not ok
    sys.exit(1 if bad else 0)
finally:
    shutil.rmtree(d)
