"""D11: 2D fast path (blockshape (1,4,N)): get_trace for trace group g reads g+1 chunks (into the footer / past EOF)."""
import sys, os, random
sys.path.insert(0, os.path.join(os.path.dirname(os.path.abspath(__file__)), '..', 'tools'))
from hz import *
d = scratch_dir()
try:
    rng = random.Random(2)
    a = rnd_cube(rng, (21, 40))
    sgy = os.path.join(d, 'a.sgy'); p = os.path.join(d, 'a.sgz')
    mk_segy_2d(sgy, a)
    write_segy_sgz(sgy, p, bpv=4, blockshape=(1, 4, -1))
    sp = SpecFile(p)
    f = CountingFile(p)
    r = SgzReader(f)
    bad = 0
    for t in range(21):
        f.log.clear()
        r.loader.clear_cache()
        tr = r.get_trace(t)
        nbytes = sum(l for _, l in f.log)
        chunk = 4096 * (sp.shape_pad[2] // sp.bs[2])
        if nbytes != chunk:
            bad += 1
            print('trace', t, 'read', f.log, 'expected one chunk of', chunk)
        assert bits_equal(tr, sp.volume()[t, :40])
    sys.exit(1 if bad else 0)
finally:
    shutil.rmtree(d)
