"""D30 (C08): irregular (unstructured) 3D file converted with heuristic header detection: a trace-header field with
the same non-zero value in every source trace is kept in the header template, and get_tracefield_values(field) (since the
D28 fix: np.full of the template value) returns that value at the grid positions that hold NO trace, where the stored
arrays -- and the same field under 'thorough' / 'exhaustive' detection -- have zeros."""
import sys, os, random
sys.path.insert(0, os.path.join(os.path.dirname(os.path.abspath(__file__)), '..', 'tools'))
from hz import *
d = scratch_dir()
try:
    rng = random.Random(1)
    il = [10 + 3 * i for i in range(4)]; xl = [100 + 2 * x for x in range(5)]
    present = np.ones((4, 5), bool); present[0, 0] = False; present[2, 3] = False
    a = rnd_cube(rng, (4, 5, 6))
    sgy = os.path.join(d, 'a.sgy'); p = os.path.join(d, 'a.sgz')
    mk_segy(sgy, a, il, xl, present=present)
    expected = np.where(present, 6, 0)            # TRACE_SAMPLE_COUNT (115) is 6 in every source trace
    ok = True
    for mode in ('heuristic', 'thorough', 'exhaustive'):
        write_segy_sgz(sgy, p, bpv=16, header_detection=mode)
        with SgzReader(p) as r:
            got = r.get_tracefield_values(115)
        same = np.array_equal(got, expected)
        print(mode, 'ok' if same else 'WRONG', got.tolist())
        ok = ok and same
    sys.exit(0 if ok else 1)
finally:
    shutil.rmtree(d)
