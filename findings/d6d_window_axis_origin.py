"""D6d (C11): make_header writes the axis origins (bytes 20:28) from the first line numbers of the SOURCE axes
(xlines[0], ilines[0]) also when a window is converted: the windowed file's ilines / xlines start at the source origin
instead of the window's first lines."""
import sys, os, random
sys.path.insert(0, os.path.join(os.path.dirname(os.path.abspath(__file__)), '..', 'tools'))
from hz import *
d = scratch_dir()
try:
    rng = random.Random(1)
    a = rnd_cube(rng, (7, 9, 10))
    il, xl = list(range(10, 31, 3)), list(range(100, 118, 2))
    sgy = os.path.join(d, 'a.sgy'); p = os.path.join(d, 'w.sgz')
    mk_segy(sgy, a, il, xl)
    w = (1, 5, 2, 7)
    write_segy_sgz(sgy, p, bpv=16, window=w)
    with SgzReader(p) as r:
        got = ([int(v) for v in r.ilines], [int(v) for v in r.xlines])
    want = (il[w[0]:w[1]], xl[w[2]:w[3]])
    print('window', w, ': ilines', got[0], 'xlines', got[1], '; windowed traces have', want[0], want[1])
    sys.exit(0 if got == want else 1)
finally:
    shutil.rmtree(d)
