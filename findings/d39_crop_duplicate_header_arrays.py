"""D39 (C10): the cropper writes one footer array per key of stored_header_keys, which also lists header words that merely
DUPLICATE another varying word (they alias the same stored array in the reader's template).  With such a source
(test_data/padding/padding_7x6.sgz: 14 keys for 9 stored arrays) the cropped file gets extra arrays, it is longer than its
header implies, and every array after the first duplicate is read from the wrong slot (same mechanism as D8d)."""
import sys, os
sys.path.insert(0, os.path.join(os.path.dirname(os.path.abspath(__file__)), '..', 'tools'))
from hz import *
d = scratch_dir()
try:
    p = os.path.join(REPO, 'test_data', 'padding', 'padding_7x6.sgz'); q = os.path.join(d, 'c.sgz')
    with SgzCropper(p) as c:
        quiet(c.write_cropped_file_by_indexes, q, iline_index_range=(0, c.n_ilines), xline_index_range=(0, c.n_xlines),
              zslices_index_range=(0, c.n_samples))
    bad = 0
    sp = SpecFile(q)
    if os.path.getsize(q) != sp.expected_length():
        print('cropped file length', os.path.getsize(q), 'header implies', sp.expected_length()); bad += 1
    with SgzReader(p) as r0, SgzReader(q) as r1:
        for t in (0, 5, r0.tracecount - 1):
            h0, h1 = r0.gen_trace_header(t), r1.gen_trace_header(t)
            diff = {int(k): (int(h0[k]), int(h1[k])) for k in h0 if h0[k] != h1[k]}
            if diff:
                print('trace', t, 'header words differ (source, cropped):', diff); bad += 1
    sys.exit(1 if bad else 0)
finally:
    shutil.rmtree(d)
