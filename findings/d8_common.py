"""shared by the four D8 demonstrations (re-blocker SgzConverter.convert_to_adv_sgz): build a 2-bit default-layout
SGZ file from a synthetic SEG-Y, re-block it and compare the two files with the specification decoder (hz.SpecFile)."""
import sys, os, random
sys.path.insert(0, os.path.join(os.path.dirname(os.path.abspath(__file__)), '..', 'tools'))
from hz import *


def reblock_case(d, shape, seed=1, irregular=False, dup=False):
    """returns (SpecFile source, SpecFile output, source path, output path)"""
    rng = random.Random(seed)
    n_il, n_xl, ns = shape
    data = rnd_cube(rng, shape)
    sgy = os.path.join(d, 'a.sgy'); src = os.path.join(d, 'a.sgz'); out = os.path.join(d, 'b.sgz')
    present = None
    if irregular:
        present = np.ones((n_il, n_xl), bool)
        present[0, 0] = False
        present[n_il - 1, n_xl // 2] = False
    hdr = None
    if dup:   # two varying fields that duplicate an earlier varying field: stored once, referenced three times
        hdr = lambda t, i, x: {segyio.TraceField.TRACE_SEQUENCE_LINE: t + 1, segyio.TraceField.TRACE_SEQUENCE_FILE: t + 1,
                               segyio.TraceField.FieldRecord: t + 1}
    mk_segy(sgy, data, list(range(10, 10 + n_il)), list(range(100, 100 + 2 * n_xl, 2)), present=present, hdr=hdr)
    write_segy_sgz(sgy, src, bpv=2)
    with SgzConverter(src) as c:
        quiet(c.convert_to_adv_sgz, out)
    return SpecFile(src), SpecFile(out), src, out


def data_problems(S, O, shape):
    n_il, n_xl, ns = shape
    bad = []
    have = len(O.raw) - 4096 * O.nhb
    if have < 4096 * O.ndb:
        bad.append(f'data section holds {have} bytes, header states {4096 * O.ndb}')
    try:
        vs, vo = S.volume()[:n_il, :n_xl, :ns], O.volume()[:n_il, :n_xl, :ns]
        n = int((vs.view(np.uint32) != vo.view(np.uint32)).sum())
        if n:
            bad.append(f'{n} of {vs.size} real samples differ')
    except Exception as e:
        bad.append('output data section cannot be decoded: ' + repr(e)[:120])
    return bad


def footer_problems(S, O):
    bad = []
    if len(O.raw) != O.expected_length():
        bad.append(f'file length {len(O.raw)}, the header implies {O.expected_length()}')
    for k in range(S.nha):
        a, b = S.footer_array(k), O.footer_array(k)
        if a.shape != b.shape or not (a == b).all():
            bad.append(f'stored header array {k} differs at the offset the reader derives')
    return bad


def header_mismatches(src, out):
    n = 0
    with SgzReader(src) as a, SgzReader(out) as b:
        for t in range(a.tracecount):
            try:
                n += a.gen_trace_header(t) != b.gen_trace_header(t)
            except Exception:
                n += 1
    return n
