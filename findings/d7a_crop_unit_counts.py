"""D7a (C10): the cropper counts the inline/crossline compression units of the box with floor division
(cropping.py:164-165).  A box that reaches an end of the cube which is not a multiple of 4 loses its last unit row /
column: the data section is shorter than the regenerated header says and the cropped file cannot be read."""
import sys, os, random
sys.path.insert(0, os.path.join(os.path.dirname(os.path.abspath(__file__)), '..', 'tools'))
from hz import *
d = scratch_dir()


def crop(src, out, *ranges, coords=False):
    if os.path.exists(out):
        os.remove(out)
    with SgzCropper(src) as c:
        quiet(c.write_cropped_file_by_coords if coords else c.write_cropped_file_by_indexes, out, *ranges)


try:
    rng = random.Random(1)
    src, out = os.path.join(d, 'src.sgz'), os.path.join(d, 'out.sgz')
    a = rnd_cube(rng, (10, 13, 300))
    write_numpy_sgz(src, a, bpv=8)
    with SgzReader(src) as r:
        vol = r.read_volume()
    crop(src, out, None, (4, 13), None)          # crosslines 4..12: 9 lines = 3 unit columns, floor gives 2
    sp = SpecFile(out)
    bad = os.path.getsize(out) < 4096 * (sp.nhb + sp.ndb)
    print('file length', os.path.getsize(out), 'header + data section should be', 4096 * (sp.nhb + sp.ndb))
    try:
        with SgzReader(out) as r:
            ok = bits_equal(r.read_volume(), vol[:, 4:13, :])
        print('read_volume equals source[:, 4:13, :]:', ok)
        bad |= not ok
    except Exception as e:
        print('read_volume raises', type(e).__name__, e)
        bad = True
    sys.exit(1 if bad else 0)
finally:
    shutil.rmtree(d)
