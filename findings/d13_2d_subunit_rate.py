"""D13 (C19, C09): 2D files below 1 bit per voxel.  A 2D compression unit is 4x4 = 16 values: at 1/2 bit that is 8 bits,
at 1/4 bit 4 bits, but ZFP needs at least 9 bits for a block of floats, so zfpy returns a stream far longer than
rate * size / 8 (or corrupts the heap: "malloc(): invalid size", SIGSEGV/SIGABRT) and the reader's unit size is 1 or
0 bytes.  Before the repair the 2D converter accepted such a setting, created the output file and then crashed or
wrote a file that cannot be read back; after the repair it raises ValueError before creating the output.
Each setting runs in a child process.  Exit status 1 if some setting neither raises before creating the output nor
gives a file that reads back; 0 otherwise."""
import sys, os, random, subprocess
sys.path.insert(0, os.path.join(os.path.dirname(os.path.abspath(__file__)), '..', 'tools'))
CHILD = r'''
import sys, os
sys.path.insert(0, %r)
from hz import *
sgy, out, bpv, bs = sys.argv[1], sys.argv[2], eval(sys.argv[3]), eval(sys.argv[4])
try:
    write_segy_sgz(sgy, out, bpv=bpv, blockshape=bs)
except Exception as e:
    print('RAISED', type(e).__name__, 'created' if os.path.exists(out) else 'not-created'); sys.exit(0)
try:
    with SgzReader(out) as r:
        ok = True
        t = np.stack([r.get_trace(i) for i in range(r.tracecount)])
    s = SpecFile(out)
    print('WRITTEN', 'conforms' if len(s.raw) == s.expected_length() and bits_equal(t, s.volume()[:t.shape[0], :t.shape[1]]) else 'does-not-conform')
except Exception as e:
    print('WRITTEN', 'reader-fails', type(e).__name__)
''' % os.path.join(os.path.dirname(os.path.abspath(__file__)), '..', 'tools')

if __name__ == '__main__':
    from hz import *
    d = scratch_dir()
    bad = 0
    try:
        rng = random.Random(2)
        sgy = os.path.join(d, 'l.sgy')
        mk_segy_2d(sgy, rnd_cube(rng, (21, 70)))
        for k, (bpv, bs) in enumerate([(0.5, (1, 16, -1)), (-2, (1, 64, 1024)), (0.25, (1, 256, 512)), (-1, (1, 256, 256)),
                                       (1, (1, 16, -1)), (4, None)]):                   # the last two are fine
            out = os.path.join(d, f'l{k}.sgz')
            p = subprocess.run([sys.executable, '-c', CHILD, sgy, out, repr(bpv), repr(bs)], stdout=subprocess.PIPE,
                               stderr=subprocess.DEVNULL, text=True, env=dict(os.environ, PYTHONHASHSEED='0'))
            last = (p.stdout.strip().splitlines() or ['(no output)'])[-1]
            good = p.returncode == 0 and last in ('WRITTEN conforms',) or (last.startswith('RAISED') and last.endswith('not-created'))
            print(f'{bpv!r:>5} {bs}: child exit {p.returncode}: {last}')
            bad += not good
        sys.exit(1 if bad else 0)
    finally:
        shutil.rmtree(d)
