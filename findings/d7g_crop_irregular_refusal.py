"""D7g (C10): cropping an irregular (unstructured) source writes the header and the data section and then fails with
ValueError while reshaping the header arrays: a truncated file is left behind.  After the repair irregular (and 2D)
sources are refused before anything is written."""
import sys, os, random
sys.path.insert(0, os.path.join(os.path.dirname(os.path.abspath(__file__)), '..', 'tools'))
from hz import *
d = scratch_dir()


def crop(src, out, *ranges, coords=False):
    if os.path.exists(out):
        os.remove(out)
    with SgzCropper(src) as c:
        quiet(c.write_cropped_file_by_coords if coords else c.write_cropped_file_by_indexes, out, *ranges)


try:
    rng = random.Random(1)
    src, out = os.path.join(d, 'src.sgz'), os.path.join(d, 'out.sgz')
    a = rnd_cube(rng, (8, 12, 40))
    present = np.ones((8, 12), bool)
    present[0, 0] = present[5, 7] = False
    sgy = os.path.join(d, 'a.sgy')
    mk_segy(sgy, a, range(1, 9), range(10, 22), present=present)
    write_segy_sgz(sgy, src, bpv=8)
    try:
        crop(src, out, (0, 4), (0, 8), None)
        res = 'no exception'
    except Exception as e:
        res = type(e).__name__
    left = os.path.exists(out)
    print('crop of an irregular source ->', res, '| file left behind:', left, os.path.getsize(out) if left else '')
    sys.exit(1 if (res != 'IndexError' or left) else 0)
finally:
    shutil.rmtree(d)
