"""D7b (C10): regenerate_header does not rewrite the trace-count field (bytes 68-72, read by every reader of files newer
than 0.2.1).  A cropped file keeps the source's trace count, so it opens as unstructured and header reads fail."""
import sys, os, random
sys.path.insert(0, os.path.join(os.path.dirname(os.path.abspath(__file__)), '..', 'tools'))
from hz import *
d = scratch_dir()


def crop(src, out, *ranges, coords=False):
    if os.path.exists(out):
        os.remove(out)
    with SgzCropper(src) as c:
        quiet(c.write_cropped_file_by_coords if coords else c.write_cropped_file_by_indexes, out, *ranges)


try:
    rng = random.Random(1)
    src, out = os.path.join(d, 'src.sgz'), os.path.join(d, 'out.sgz')
    a = rnd_cube(rng, (12, 16, 40))
    sgy = os.path.join(d, 'a.sgy')
    mk_segy(sgy, a, range(10, 22), range(100, 116))
    write_segy_sgz(sgy, src, bpv=8)
    crop(src, out, (4, 12), None, None)     # 8 x 16 traces: arrays of exactly 512 bytes, so D7c does not interfere
    bad = False
    with SgzReader(src) as s, SgzReader(out) as r:
        print('cropped 8x16 box: tracecount', r.tracecount, 'structured', r.structured)
        bad |= (r.tracecount != 128) or not r.structured
        try:
            h, hs = r.gen_trace_header(21), s.gen_trace_header((4 + 1) * 16 + 5)
            print('header of trace 21 = (1,5) equals source trace (5,5):', h == hs)
            bad |= h != hs
        except Exception as e:
            print('gen_trace_header raises', type(e).__name__, e)
            bad = True
    sys.exit(1 if bad else 0)
finally:
    shutil.rmtree(d)
