"""D27-subvolume: subvolume[a:b:c, ...] with an explicit start or stop on a DESCENDING axis raises IndexError
(SubvolumeAccessor._check_subscripts tests coords[0] <= x < coords[-1] + inc, an empty interval when inc < 0), although
_get_index_subscripts resolves such bounds correctly.

On cubes with descending inline and/or crossline axes and non-unit increments, every expression of the documented grammar
(start / stop existing line numbers in axis order, stop possibly the one-past-the-end value coords[-1] + inc, steps
multiples of the increment in axis order, i.e. negative on a descending axis) must equal the matching ordinal slice of
read_volume(), and bounds that are no coordinates of the axis (lines segyio does not have) must still raise.
Exit 1 when any expression is refused / differs / a bad bound is accepted (unpatched code), 0 otherwise.
VERIF_REPO=<tree> selects the source tree (hz.py)."""
import sys, os, random, itertools
sys.path.insert(0, os.path.join(os.path.dirname(os.path.abspath(__file__)), '..', 'tools'))
from hz import *
import seismic_zfp
d = scratch_dir()
bad = 0
shown = 0


def axis_slices(ax):
    """every slice of the documented form on one axis: (python slice, ordinal slice)"""
    n, inc = len(ax), ax[1] - ax[0]
    past = ax[-1] + inc
    out = [(slice(None), slice(None))]
    for i0, i1 in itertools.combinations(range(n + 1), 2):
        for m in (None, 1, 2, 3):
            k = None if m is None else m * inc
            o = slice(i0, i1, 1 if m is None else m)
            sp = ax[i1] if i1 < n else past
            out.append((slice(ax[i0], sp, k), o))
            if i0 == 0:
                out.append((slice(None, sp, k), o))
            if i1 == n:
                out.append((slice(ax[i0], None, k), o))
    return out


def bad_slices(ax):
    """bounds segyio has no line for / outside the axis, and steps that are no multiples of the increment"""
    inc = ax[1] - ax[0]
    past = ax[-1] + inc
    sgn = 1 if inc > 0 else -1
    out = [slice(ax[0] - inc, None), slice(past, None), slice(past + inc, None),            # start outside
           slice(None, ax[0]), slice(None, ax[0] - inc), slice(None, past + inc),           # stop outside
           slice(ax[0], ax[0], inc), slice(ax[0] - inc, ax[-1], inc)]
    if abs(inc) > 1:
        out += [slice(ax[0] + sgn, None), slice(None, ax[-1] + sgn), slice(ax[1] + sgn, past, inc), slice(ax[0], ax[1] + sgn, inc),
                slice(None, None, inc + sgn), slice(ax[0], past, 2 * inc + sgn)]
    return out


def sl_str(s):
    return ':'.join('' if v is None else str(v) for v in (s.start, s.stop, s.step))


try:
    rng = random.Random(27)
    for il, xl in [([9, 7, 5, 3, 1], [10, 13, 16, 19]),          # descending inlines
                   ([2, 6, 10, 14], [40, 35, 30, 25, 20]),        # descending crosslines
                   ([12, 9, 6, 3], [8, 6, 4, 2, 0]),              # both descending; the one-past-the-end values are 0 and -2
                   ([1, 3, 5], [20, 22, 24, 26])]:                # both ascending (unchanged behaviour)
        a = rnd_cube(rng, (len(il), len(xl), 8))
        sgy, sgz = os.path.join(d, 'a.sgy'), os.path.join(d, 'a.sgz')
        mk_segy(sgy, a, il, xl)
        write_segy_sgz(sgy, sgz, bpv=16)
        with SgzReader(sgz) as r:
            vol = r.read_volume()
        with seismic_zfp.open(sgz) as z:
            zs = [int(v) for v in z.samples]
            n_ok = n_bad = 0
            zsl = [(slice(None), slice(None)), (slice(zs[2], zs[6], 2 * (zs[1] - zs[0])), slice(2, 6, 2))]
            for (si, oi), (sx, ox) in itertools.product(axis_slices(il), axis_slices(xl)):
                sz, oz = zsl[(n_ok + n_bad) % 2]
                expr = f'subvolume[{sl_str(si)}, {sl_str(sx)}, {sl_str(sz)}]'
                try:
                    got = z.subvolume[si, sx, sz]
                    ok = bits_equal(np.asarray(got), vol[oi, ox, oz])
                    what = f'shape {np.asarray(got).shape}, expected {vol[oi, ox, oz].shape}'
                except Exception as e:
                    ok, what = False, f'raises {type(e).__name__}'
                n_ok += ok
                n_bad += (not ok)
                if not ok and shown < 12:
                    shown += 1
                    print(f'ilines {il} xlines {xl}: {expr}: {what}  WRONG')
            n_rej = n_acc = 0
            for which, ax in ((0, il), (1, xl)):
                for b in bad_slices(ax):
                    sub = [slice(None), slice(None), slice(None)]
                    sub[which] = b
                    try:
                        got = z.subvolume[tuple(sub)]
                        n_acc += 1
                        print(f'ilines {il} xlines {xl}: axis {which} [{sl_str(b)}] accepted (shape {np.asarray(got).shape})  WRONG')
                    except (IndexError, KeyError, ValueError):
                        n_rej += 1
            print(f'ilines {il} xlines {xl}: {n_ok} expressions equal the ordinal slice of read_volume(), {n_bad} do not; '
                  f'{n_rej} bad bounds rejected, {n_acc} accepted')
            bad += n_bad + n_acc
finally:
    shutil.rmtree(d)
print('differences:', bad)
sys.exit(1 if bad else 0)
