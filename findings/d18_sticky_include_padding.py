"""D18: on an irregular 3D file or a 2D file (both have structured == False) get_tracefield_values needs the footer
arrays WITH padding and gen_trace_header needs them WITHOUT; both go through read_variant_headers, whose sticky
`include_padding` flag turns whichever of the two comes second into an AssertionError.  Expected: each call returns
what it returns on a fresh reader.  Exit 1 if any history fails, 0 otherwise (VERIF_REPO selects the tree)."""
import sys, os, random
sys.path.insert(0, os.path.join(os.path.dirname(os.path.abspath(__file__)), '..', 'tools'))
from hz import *
d = scratch_dir()
bad = 0
try:
    rng = random.Random(3)
    a = rnd_cube(rng, (5, 6, 20))
    present = np.ones((5, 6), bool)
    present[1, 2] = present[4, 5] = present[0, 0] = False
    sgy = os.path.join(d, 'i.sgy'); p3 = os.path.join(d, 'i.sgz')
    mk_segy(sgy, a, np.arange(5) * 2 + 10, np.arange(6) * 3 + 100, present=present)
    write_segy_sgz(sgy, p3, bpv=8)
    sgy2 = os.path.join(d, '2.sgy'); p2 = os.path.join(d, '2.sgz')
    mk_segy_2d(sgy2, rnd_cube(rng, (9, 20)))
    write_segy_sgz(sgy2, p2, bpv=8)

    def run(r, o, k):
        try:
            if o == 'tf':
                return ('ok', r.get_tracefield_values(k).tolist())
            return ('ok', {int(a): int(b) for a, b in r.gen_trace_header(1).items()})
        except Exception as e:
            return ('exc', type(e).__name__)

    for path in (p3, p2):
        with SgzReader(path) as r:
            k = r.stored_header_keys[0]
        fresh = {}
        for o in ('tf', 'hd'):
            with SgzReader(path) as r:
                fresh[o] = run(r, o, k)
        for hist in (('tf', 'hd'), ('hd', 'tf'), ('tf', 'hd', 'tf'), ('hd', 'tf', 'hd')):
            with SgzReader(path) as r:
                for o in hist:
                    got = run(r, o, k)
                    if got != fresh[o]:
                        bad += 1
                        print(os.path.basename(path), 'history', hist, 'op', o, '->', got[:2] if got[0] == 'exc' else 'wrong value',
                              '; fresh reader:', fresh[o][0])
    print('D18 histories failing:', bad)
finally:
    shutil.rmtree(d)
sys.exit(1 if bad else 0)
