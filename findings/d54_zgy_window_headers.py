"""D54 (C03; the ZGY instance of C11): ZgyConverter(path, min_il, max_il, min_xl, max_xl) writes the samples of the window
but the four header arrays (CDP_X, CDP_Y, INLINE_3D, CROSSLINE_3D) of the WHOLE file: HeaderwordInfo generates them from the
file's axes and nothing crops them.  The footer arrays are then longer than the 4 bytes per grid trace the header states
and trace t of the SGZ reports the line numbers / coordinates of trace t of the un-windowed grid (inline 1 for a window
that starts at inline 2).  Repair: keep the window of each generated array.
Exit 1 when a windowed ZGY conversion reports a header value that is not the source trace's, 0 otherwise."""
import sys, os
sys.path.insert(0, os.path.join(os.path.dirname(os.path.abspath(__file__)), '..', 'tools'))
from hz import *
import pyzgy
from seismic_zfp.conversion import ZgyConverter
d = scratch_dir()
bad = 0
try:
    src = os.path.join(REPO, 'test_data', 'zgy', 'small-32bit.zgy')
    with pyzgy.open(src) as f:
        n_xl = len(f.xlines)
        ref = {t: dict(f.header[t]) for t in range(f.tracecount)}
    for win in ((1, 4, 0, 3), (0, 5, 2, 5), (2, 5, 1, 4), (0, 5, 0, 5)):
        out = os.path.join(d, 'w.sgz')

        def conv():
            with ZgyConverter(src, min_il=win[0], max_il=win[1], min_xl=win[2], max_xl=win[3]) as c:
                c.run(out, bits_per_voxel=8)
        quiet(conv)
        sp = SpecFile(out)
        for k in range(sp.nha):
            if len(sp.footer_array(k)) != (win[1] - win[0]) * (win[3] - win[2]):
                print(f'window {win}: footer array {k} does not have one entry per trace of the window'); bad += 1
        with SgzReader(out) as r:
            t = 0
            for i in range(win[0], win[1]):
                for x in range(win[2], win[3]):
                    h = r.gen_trace_header(t)
                    for fld in (181, 185, 189, 193):
                        if int(h[fld]) != int(ref[i * n_xl + x][fld]):
                            if bad < 8:
                                print(f'window {win}: trace {t} (source trace {i * n_xl + x}) field {fld}: SGZ {int(h[fld])}, ZGY {int(ref[i * n_xl + x][fld])}')
                            bad += 1
                    t += 1
    print('differences:', bad)
    sys.exit(1 if bad else 0)
finally:
    shutil.rmtree(d, ignore_errors=True)
