"""D29 (C06): convert_to_segy read the data sample format code from bytes 3226-3227 (1-based) of the stored SEG-Y
file header, little-endian: the LOW byte of the format code and the HIGH byte of the next field (ensemble fold,
bytes 3227-3228).  A source whose ensemble fold is >= 256 was therefore taken for "no format code", exported as IBM
float whatever the source was, and its stored binary header was rewritten (and, int_to_bytes(1) being 4 bytes
assigned to a 2-byte slice, every byte after 3226 shifted by two).
Exit 1 when an IEEE source with ensemble fold 256 is not exported as IEEE with the original 3600 header bytes."""
import sys, os, random
sys.path.insert(0, os.path.join(os.path.dirname(os.path.abspath(__file__)), '..', 'tools'))
from hz import *
d = scratch_dir()
try:
    rng = random.Random(29)
    a = rnd_cube(rng, (4, 5, 9))
    bad = 0
    for fmt, fold in ((5, 256), (1, 300), (5, 255)):
        sgy, sgz, out = (os.path.join(d, f'a{fmt}_{fold}.{e}') for e in ('sgy', 'sgz', 'out.sgy'))
        mk_segy(sgy, a, [1, 2, 3, 4], [1, 2, 3, 4, 5], fmt=fmt)
        with segyio.open(sgy, 'r+') as f:
            f.bin[segyio.BinField.EnsembleFold] = fold
        write_segy_sgz(sgy, sgz, bpv=16)
        with SgzConverter(sgz) as c:
            quiet(c.convert_to_segy, out)
        h0, h1 = open(sgy, 'rb').read(3600), open(out, 'rb').read(3600)
        with segyio.open(out) as f:
            got = int(f.format)
        diff = [i for i in range(3600) if h0[i] != h1[i]]
        print(f'source format {fmt}, ensemble fold {fold}: exported format {got}, header bytes differing {diff[:8]}')
        if got != fmt or diff:
            bad += 1
    sys.exit(1 if bad else 0)
finally:
    shutil.rmtree(d)
