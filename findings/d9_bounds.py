"""D9/D22: reads that return padding / neighbours instead of raising IndexError."""
import sys, os, random
sys.path.insert(0, os.path.join(os.path.dirname(os.path.abspath(__file__)), '..', 'tools'))
from hz import *
d = scratch_dir()
try:
    rng = random.Random(5)
    bad = 0
    a2 = rnd_cube(rng, (21, 40))
    sgy = os.path.join(d, 'a.sgy'); p2 = os.path.join(d, 'a2.sgz')
    mk_segy_2d(sgy, a2)
    write_segy_sgz(sgy, p2, bpv=4, blockshape=(1, 16, -1))
    r = SgzReader(p2)
    for i in (21, 25, 31, -1):
        try:
            r.get_trace(i); bad += 1; print('2D get_trace(%d) returned a trace (tracecount 21)' % i)
        except IndexError:
            pass
    for i in (-5, 21):
        try:
            h = r.gen_trace_header(i); bad += 1; print('2D gen_trace_header(%d) returned a header' % i)
        except IndexError:
            pass
    a3 = rnd_cube(rng, (5, 6, 9))
    p3 = os.path.join(d, 'a3.sgz')
    write_numpy_sgz(p3, a3, bpv=8)
    r = SgzReader(p3)
    for w in ((0, 10), (0, 256), (9, 10), (250, 256), (5, 3), (4, 4), (-2, 4)):
        try:
            t = r.get_trace(3, w[0], w[1]); bad += 1; print('3D get_trace window', w, 'returned shape', np.shape(t), '(9 samples)')
        except IndexError:
            pass
    for w in ((0, 10), (9, 10)):
        try:
            t = r.read_correlated_diagonal(0, min_sample_idx=w[0], max_sample_idx=w[1]); bad += 1
            print('diagonal sample window', w, 'returned shape', t.shape)
        except IndexError:
            pass
    for kw in (dict(min_cd_idx=3, max_cd_idx=1), dict(min_cd_idx=2, max_cd_idx=2),
               dict(min_sample_idx=5, max_sample_idx=3), dict(min_sample_idx=4, max_sample_idx=4)):
        for fn in (r.read_correlated_diagonal, r.read_anticorrelated_diagonal):
            try:
                t = fn(4 if fn == r.read_anticorrelated_diagonal else 0,
                       **{k.replace('cd', 'ad' if fn == r.read_anticorrelated_diagonal else 'cd'): v for k, v in kw.items()})
                bad += 1; print(fn.__name__, kw, 'returned shape', t.shape)
            except IndexError:
                pass
            except Exception as e:
                bad += 1; print(fn.__name__, kw, 'raised', type(e).__name__, 'instead of IndexError')
    t = r.get_trace(3, 4, 5)
    if np.shape(t) != (1,):
        bad += 1; print('one-sample window has shape', np.shape(t), 'expected (1,)')
    sys.exit(1 if bad else 0)
finally:
    shutil.rmtree(d)
