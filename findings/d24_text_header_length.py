"""D24: text[0] of the emulator drops every byte that cp037 maps outside ASCII (errors="ignore"), so it is shorter than
the 3200 bytes segyio returns and every later 80-column card is shifted.  Exit 1 when the length differs from segyio's."""
import sys, os, random
sys.path.insert(0, os.path.join(os.path.dirname(os.path.abspath(__file__)), '..', 'tools'))
from hz import *
import seismic_zfp
d = scratch_dir()
try:
    rng = random.Random(24)
    a = rnd_cube(rng, (4, 5, 8))
    sgy, sgz = os.path.join(d, 'a.sgy'), os.path.join(d, 'a.sgz')
    mk_segy(sgy, a, [1, 2, 3, 4], [1, 2, 3, 4, 5])
    write_segy_sgz(sgy, sgz, bpv=16)
    with segyio.open(sgy) as s, seismic_zfp.open(sgz) as z:
        t, u = s.text[0], z.text[0]
    print('segyio', type(t).__name__, len(t), ' emulator', type(u).__name__, len(u))
    # card 40 starts at column 3120 in segyio's header
    print('card 40: segyio', bytes(t[3120:3140]), 'emulator', bytes(u[3120:3140]))
    sys.exit(0 if (type(t) == type(u) and len(t) == len(u) == 3200 and t[3120:3140] == u[3120:3140]) else 1)
finally:
    shutil.rmtree(d)
