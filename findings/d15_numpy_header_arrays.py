"""D15 (C04): NumpyConverter header arrays do not read back.
(a) the default inline/crossline header arrays are built from np.arange (int64) and serialised with tobytes() as 8-byte
    integers while the reader decodes int32: a 3x5 cube reads inline numbers 0 0 0 0 0 / 0 0 0 0 0 / 1 0 1 0 1;
(b) user arrays of any dtype other than int32 (int64, int16, uint8 ...) likewise;
(c) the default 189/193 arrays are appended AFTER the user's sorted fields, so with a user field of code > 193 the
    writer's array order is not the ascending order the reader derives from the table: every array from the first
    out-of-order one is attributed to the wrong field.
Exit 1 if any header value differs from what was given, 0 otherwise."""
import sys, os, random
sys.path.insert(0, os.path.join(os.path.dirname(os.path.abspath(__file__)), '..', 'tools'))
from hz import *
TF = segyio.tracefield.TraceField
d = scratch_dir()
bad = 0
try:
    rng = random.Random(1)
    a = rnd_cube(rng, (3, 5, 8))
    p = os.path.join(d, 'a.sgz')
    grid = np.arange(15).reshape(3, 5)
    il_def, xl_def = np.repeat(np.arange(3), 5).reshape(3, 5), np.tile(np.arange(5), 3).reshape(3, 5)

    def check(label, given):
        global bad
        with SgzReader(p) as r:
            for f, want in given.items():
                got = r.get_tracefield_values(int(f))
                one = [int(r.gen_trace_header(t)[f]) for t in range(15)]
                ok = np.array_equal(got, want) and one == [int(v) for v in np.asarray(want).reshape(-1)]
                print(f'{label}: field {int(f)} {"ok" if ok else "MISMATCH " + str(got.reshape(-1).tolist())}')
                bad += not ok
        n = os.path.getsize(p)
        if n != SpecFile(p).expected_length():
            print(f'{label}: file length {n}, header implies {SpecFile(p).expected_length()}')
            bad += 1

    write_numpy_sgz(p, a, bpv=8)                                            # (a) default il/xl
    check('default il/xl', {TF.INLINE_3D: il_def, TF.CROSSLINE_3D: xl_def})
    for dt in (np.int64, np.int16, np.uint8):                               # (b) other integer dtypes
        h = {TF.CDP_X: (grid + 100).astype(dt)}
        write_numpy_sgz(p, a, bpv=8, trace_headers=h)
        check(f'user {np.dtype(dt).name}', {TF.CDP_X: grid + 100, TF.INLINE_3D: il_def, TF.CROSSLINE_3D: xl_def})
    h = {TF.ShotPointScalar: (grid + 7).astype(np.int32), TF.CDP_X: (grid - 100).astype(np.int32)}   # (c) code 201 > 193
    write_numpy_sgz(p, a, bpv=8, trace_headers=h)
    check('field above 193', {TF.CDP_X: grid - 100, TF.ShotPointScalar: grid + 7, TF.INLINE_3D: il_def, TF.CROSSLINE_3D: xl_def})
    print('mismatches:', bad)
    sys.exit(1 if bad else 0)
finally:
    shutil.rmtree(d)
