"""D8a (C12): convert_to_adv_sgz computes the number of 4-line unit rows/columns of a partial 64-block as
(n % 64 + 4) // 4, one too many whenever the remainder is a multiple of 4.  The extra read lands in the next inline
set, in the footer or past the end of the file; a short read shrinks the staging bytearray (slice assignment with a
shorter right-hand side) and the blocks are written short and with wrong units.  Probes: 8x16x5 and 4x9x20."""
from d8_common import *
d = scratch_dir()
try:
    bad = []
    for shape in ((8, 16, 5), (4, 9, 20), (68, 5, 9)):
        S, O, src, out = reblock_case(d, shape)
        bad += [f'{shape}: {m}' for m in data_problems(S, O, shape)]
    for m in bad:
        print(m)
    print('D8a:', 'REPRODUCED' if bad else 'not reproduced')
    sys.exit(1 if bad else 0)
finally:
    shutil.rmtree(d)
