"""D7h (C10, known finding, no small repair): the SGZ header stores the time of the first sample as an INTEGER number of
milliseconds (bytes 16-19) and the cropper writes np.int32(self.zslices[z0]) there.  When the box starts at a sample
whose time is not a whole millisecond (sample interval not a divisor of 1 ms times the block length, e.g. 333 us) the
whole sample axis of the cropped file is shifted: it is not the sub-range of the source axis.  The data are right.
Exits 1 while the finding reproduces."""
import sys, os, random
sys.path.insert(0, os.path.join(os.path.dirname(os.path.abspath(__file__)), '..', 'tools'))
from hz import *
d = scratch_dir()
try:
    rng = random.Random(1)
    src, out = os.path.join(d, 'src.sgz'), os.path.join(d, 'out.sgz')
    write_numpy_sgz(src, rnd_cube(rng, (4, 4, 300)), bpv=16, samples=np.arange(300) * 0.333)     # block length 128 samples
    with SgzCropper(src) as c:
        quiet(c.write_cropped_file_by_indexes, out, None, None, (128, 300))
    with SgzReader(src) as s, SgzReader(out) as r:
        print('source axis from sample 128:', list(s.zslices[128:131]), ' cropped axis:', list(r.zslices[:3]))
        ok = np.allclose(r.zslices, s.zslices[128:300], atol=1e-6) and bits_equal(r.read_volume(), s.read_volume()[:, :, 128:300])
    sys.exit(0 if ok else 1)
finally:
    shutil.rmtree(d)
