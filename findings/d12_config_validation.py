"""D12 (C19): define_blockshape_* checked the consistency of (bits_per_voxel, blockshape) only when no parameter was
left free.  With one parameter free any value was taken: bits_per_voxel 3 or 0.3, blockshape (3, 4, -1), (2, 4, -1),
bits_per_voxel -1 with (4, 4, 100) were all accepted, a file was written, and the reader then rejects it (or, for
(2, 4, -1), reads a file whose blocks are not built from 4x4x4 units).
The statement: every setting either raises BEFORE the output file is created, or the file reads back.
Exit status 1 if some setting is accepted and the file cannot be read back; 0 otherwise."""
import sys, os, random
sys.path.insert(0, os.path.join(os.path.dirname(os.path.abspath(__file__)), '..', 'tools'))
from hz import *
d = scratch_dir()
bad = 0
try:
    rng = random.Random(1)
    a = rnd_cube(rng, (5, 6, 40))
    settings = [(3, (4, 4, -1)), (0.3, (4, 4, -1)), (4, (3, 4, -1)), (-1, (4, 4, 100)), (4, (2, 4, -1)),
                ("-1", (4, 4, -1)), (32, (-1, 32, 32)), (-3, (4, 4, -1)),
                (4, (4, 4, -1)), (-2, (4, -1, 4096)), (-1, (8, 8, 128))]          # the last three are valid
    for k, (bpv, bs) in enumerate(settings):
        p = os.path.join(d, f'a{k}.sgz')
        try:
            write_numpy_sgz(p, a, bpv=bpv, blockshape=bs)
        except Exception as e:
            created = os.path.exists(p)
            print(f'{bpv!r:>6} {bs}: raised {type(e).__name__}; output created: {created}')
            bad += created
            continue
        try:
            with SgzReader(p) as r:
                v = r.read_volume()
            s = SpecFile(p)
            ok = (v.shape == a.shape and len(s.raw) == s.expected_length() and min(s.bs) >= 4
                  and bits_equal(v, s.volume()[:5, :6, :40]))
            print(f'{bpv!r:>6} {bs}: accepted as rate {s.rate} blockshape {s.bs}; reads back and conforms: {ok}')
            bad += not ok
        except Exception as e:
            print(f'{bpv!r:>6} {bs}: accepted, file written, but the reader fails: {type(e).__name__} {e}')
            bad += 1
    sys.exit(1 if bad else 0)
finally:
    shutil.rmtree(d)
