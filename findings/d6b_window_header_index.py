"""D6b (C11): io_thread_func computes start_trace = (plane_set_id * blockshape[0] + i) * n_xl + geom.xlines[0] without
the window's first inline geom.ilines[0]: with a window that does not start at inline ordinal 0 the trace headers are
taken from inlines shifted by the window origin, t_store goes negative for the first row (the values land at the end of
the array) and the last rows of the window keep all-zero headers."""
import sys, os, random
sys.path.insert(0, os.path.join(os.path.dirname(os.path.abspath(__file__)), '..', 'tools'))
from hz import *
d = scratch_dir()
try:
    rng = random.Random(1)
    a = rnd_cube(rng, (7, 9, 10))
    sgy = os.path.join(d, 'a.sgy'); p = os.path.join(d, 'w.sgz')
    mk_segy(sgy, a, range(10, 31, 3), range(100, 118, 2))
    w = (1, 5, 2, 7)
    write_segy_sgz(sgy, p, bpv=16, window=w)
    bad = 0
    with segyio.open(sgy) as s, SgzReader(p) as r:
        for k, (i, x) in enumerate((i, x) for i in range(w[0], w[1]) for x in range(w[2], w[3])):
            hs, hz_ = s.header[i * 9 + x], r.gen_trace_header(k)
            for f in (segyio.TraceField.INLINE_3D, segyio.TraceField.CROSSLINE_3D, segyio.TraceField.CDP_X, segyio.TraceField.CDP_Y):
                bad += hs[f] != hz_[f]
    print('window', w, ': header values (INLINE_3D, CROSSLINE_3D, CDP_X, CDP_Y) differing from the windowed traces:', bad)
    sys.exit(1 if bad else 0)
finally:
    shutil.rmtree(d)
