"""D7f (C10): the first crossline / inline number of the box is packed with '<I' (np_float_to_bytes) although every
converter writes these fields signed: a source with negative line numbers cannot be cropped (struct.error)."""
import sys, os, random
sys.path.insert(0, os.path.join(os.path.dirname(os.path.abspath(__file__)), '..', 'tools'))
from hz import *
d = scratch_dir()


def crop(src, out, *ranges, coords=False):
    if os.path.exists(out):
        os.remove(out)
    with SgzCropper(src) as c:
        quiet(c.write_cropped_file_by_coords if coords else c.write_cropped_file_by_indexes, out, *ranges)


try:
    rng = random.Random(1)
    src, out = os.path.join(d, 'src.sgz'), os.path.join(d, 'out.sgz')
    a = rnd_cube(rng, (8, 12, 40))
    write_numpy_sgz(src, a, bpv=8, ilines=np.arange(-20, -12), xlines=np.arange(-6, 6))
    try:
        crop(src, out, (4, 8), (4, 12), None)
        with SgzReader(out) as r:
            il, xl = list(map(int, r.ilines)), list(map(int, r.xlines))
        print('cropped axes', il, xl)
        bad = il != list(range(-16, -12)) or xl != list(range(-2, 6))
    except Exception as e:
        print('crop raises', type(e).__name__, e)
        bad = True
    sys.exit(1 if bad else 0)
finally:
    shutil.rmtree(d)
