"""D8c (C12, C08): for an irregular source convert_to_adv_sgz loads the header arrays with the missing-trace mask
applied (read_variant_headers() default) and writes those shortened arrays: the output's arrays no longer have one
entry per grid position.  Probe 64x2x5 with two missing traces (128 grid positions = 512 bytes per array, so that
D8a and D8b do not interfere)."""
from d8_common import *
d = scratch_dir()
try:
    shape = (64, 2, 5)
    S, O, src, out = reblock_case(d, shape, irregular=True)
    bad = footer_problems(S, O)
    n = header_mismatches(src, out)
    if n:
        bad.append(f'{n} trace headers differ or cannot be generated')
    for m in bad:
        print(m)
    print('D8c:', 'REPRODUCED' if bad else 'not reproduced')
    sys.exit(1 if bad else 0)
finally:
    shutil.rmtree(d)
