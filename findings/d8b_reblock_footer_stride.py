"""D8b (C12, C03): convert_to_adv_sgz writes the stored header arrays back to back, while a file of a version after
0.2.1 (the version field is copied from the source) is read with a stride rounded up to 512 bytes: every array after
the first is read at the wrong offset and the file is shorter than its header implies.  Probe 65x70x9 (no remainder is
a multiple of 4, so D8a does not interfere); a pre-0.2.2 file (test_data/small_2bit.sgz) must stay unpadded."""
from d8_common import *
d = scratch_dir()
try:
    bad = []
    for shape in ((65, 70, 9), (5, 5, 50)):
        S, O, src, out = reblock_case(d, shape)
        bad += [f'{shape}: {m}' for m in footer_problems(S, O)]
        n = header_mismatches(src, out)
        if n:
            bad.append(f'{shape}: {n} trace headers differ or cannot be generated')
    old = os.path.join(REPO, 'test_data', 'small_2bit.sgz')
    out = os.path.join(d, 'c.sgz')
    with SgzConverter(old) as c:
        quiet(c.convert_to_adv_sgz, out)
    bad += [f'small_2bit.sgz: {m}' for m in footer_problems(SpecFile(old), SpecFile(out))]
    for m in bad:
        print(m)
    print('D8b:', 'REPRODUCED' if bad else 'not reproduced')
    sys.exit(1 if bad else 0)
finally:
    shutil.rmtree(d)
