"""D1 (C01, C19): blockshape (4, N != 4, M) with more than one block along z: the writer compresses the whole plane
set as one array (switch on blockshape[0] == 4 alone), so the unit order on disk is not the one the reader and the
specification derive from the blockshape.  Valid setting: 2 bit, (4, 8, 512): 4*8*512*2 = 32768 bits."""
import sys, os, random
sys.path.insert(0, os.path.join(os.path.dirname(os.path.abspath(__file__)), '..', 'tools'))
from hz import *
d = scratch_dir()
try:
    rng = random.Random(1)
    a = rnd_cube(rng, (5, 9, 600))
    p = os.path.join(d, 'a.sgz')
    write_numpy_sgz(p, a, bpv=2, blockshape=(4, 8, 512))
    with SgzReader(p) as r:
        v = r.read_volume()
    ext = np.pad(a, ((0, 3), (0, 3), (0, 0)), mode='edge')   # multiples of 4
    want = zfpy.decompress_numpy(zfpy.compress_numpy(ext, rate=2, write_header=True))[:5, :9, :600]
    ok = bits_equal(v, want)
    print('read_volume == zfp image of the edge-extended source:', ok, '' if ok else 'max abs diff %g' % np.abs(v - want).max())
    sys.exit(0 if ok else 1)
finally:
    shutil.rmtree(d)
