"""D37 (C14): on an irregular (unstructured) 3D file get_trace(i) with a negative ordinal (or trace[-n-1] of the emulator,
which passes -1) goes through the population mask with numpy's negative indexing and returns the LAST trace instead of
raising IndexError."""
import sys, os, random
sys.path.insert(0, os.path.join(os.path.dirname(os.path.abspath(__file__)), '..', 'tools'))
from hz import *
d = scratch_dir()
try:
    rng = random.Random(1)
    a = rnd_cube(rng, (5, 6, 20))
    present = np.ones((5, 6), bool); present[1, 2] = False; present[4, 5] = False
    sgy = os.path.join(d, 'a.sgy'); p = os.path.join(d, 'a.sgz')
    mk_segy(sgy, a, range(1, 6), range(10, 16), present=present)
    write_segy_sgz(sgy, p, bpv=8)
    bad = 0
    with SgzReader(p) as r:
        n = r.tracecount
        for i in (-1, -2, -n, -n - 1):
            try:
                t = r.get_trace(i)
                print(f'get_trace({i}) on a {n}-trace irregular file returned a trace'); bad += 1
            except IndexError:
                pass
    with seismic_zfp.open(p) as f:
        try:
            f.trace[-n - 1]
            print(f'trace[{-n - 1}] returned a trace'); bad += 1
        except IndexError:
            pass
        ok = bits_equal(f.trace[-1], f.trace[n - 1])
        print('trace[-1] is the last trace:', ok); bad += not ok
    sys.exit(1 if bad else 0)
finally:
    shutil.rmtree(d)
