"""D7c (C10, C03): the cropper writes the cropped header arrays back to back, but files newer than 0.2.1 store every
array padded to a multiple of 512 bytes (that is where the reader looks).  With more than one stored array every array
after the first is read at the wrong offset and the file is shorter than its header says.  (The whole inline x crossline
extent is kept here so that D7b does not interfere.)"""
import sys, os, random
sys.path.insert(0, os.path.join(os.path.dirname(os.path.abspath(__file__)), '..', 'tools'))
from hz import *
d = scratch_dir()


def crop(src, out, *ranges, coords=False):
    if os.path.exists(out):
        os.remove(out)
    with SgzCropper(src) as c:
        quiet(c.write_cropped_file_by_coords if coords else c.write_cropped_file_by_indexes, out, *ranges)


try:
    rng = random.Random(1)
    src, out = os.path.join(d, 'src.sgz'), os.path.join(d, 'out.sgz')
    a = rnd_cube(rng, (8, 12, 600))                  # 96 traces: 384 bytes per array, stride 512
    sgy = os.path.join(d, 'a.sgy')
    mk_segy(sgy, a, range(10, 18), range(100, 112))
    write_segy_sgz(sgy, src, bpv=8)
    crop(src, out, None, None, (0, 256))
    sp = SpecFile(out)
    bad = os.path.getsize(out) != sp.expected_length()
    print('file length', os.path.getsize(out), 'header says', sp.expected_length())
    with SgzReader(src) as s, SgzReader(out) as r:
        for k in s.stored_header_keys:
            try:
                ok = bool((r.get_tracefield_values(k) == s.get_tracefield_values(k)).all())
            except Exception as e:
                ok = False
                print(k, 'raises', type(e).__name__, e)
            print(k, 'equal' if ok else 'DIFFERENT')
            bad |= not ok
    sys.exit(1 if bad else 0)
finally:
    shutil.rmtree(d)
