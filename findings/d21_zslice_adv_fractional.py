"""D21: z-slice-layout files at fractional bit rates: read_zslice returns an all-zero plane."""
import sys, os, random
sys.path.insert(0, os.path.join(os.path.dirname(os.path.abspath(__file__)), '..', 'tools'))
from hz import *
d = scratch_dir()
try:
    rng = random.Random(4)
    a = rnd_cube(rng, (9, 9, 9))
    p = os.path.join(d, 'a.sgz')
    write_numpy_sgz(p, a, bpv=0.5, blockshape=(128, 128, 4))
    r = SgzReader(p)
    vol = r.read_volume()
    bad = 0
    for z in range(9):
        try:
            zs = r.read_zslice(z)
        except Exception as e:
            print('zslice', z, 'raised', type(e).__name__); bad += 1; continue
        if not bits_equal(zs, vol[:, :, z]):
            bad += 1
            print('zslice', z, 'differs from volume; all zero =', not zs.any())
    sys.exit(1 if bad else 0)
finally:
    shutil.rmtree(d)
