"""D8d (C12, C04): a header field that duplicates another varying field is not stored; the reader maps it to the
other field's array, so read_variant_headers() holds one entry per REFERENCE.  convert_to_adv_sgz writes every entry:
with d duplicated fields the output has d arrays too many, in the wrong places.  Probe 64x2x5 (512 bytes per array)
with three fields sharing one array."""
from d8_common import *
d = scratch_dir()
try:
    shape = (64, 2, 5)
    S, O, src, out = reblock_case(d, shape, dup=True)
    bad = footer_problems(S, O)
    n = header_mismatches(src, out)
    if n:
        bad.append(f'{n} trace headers differ or cannot be generated')
    for m in bad:
        print(m)
    print('D8d:', 'REPRODUCED' if bad else 'not reproduced')
    sys.exit(1 if bad else 0)
finally:
    shutil.rmtree(d)
