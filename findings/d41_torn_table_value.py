"""D41 (C18, known finding, very narrow): header_detection='thorough' patches the 1068-byte header-word table in place.
If that write is cut INSIDE the four value bytes of a row (a torn write), the row reads (position, low bytes of the value,
position): the reader takes it for the constant `low bytes`.  The count assertion in get_header_dict catches this unless
every later row is variant; when ALL header words are constant (no footer array has to be read) gen_trace_header
returns the fabricated constant.  Witness: 2D line, every trace header word constant, SourceMeasurementUnit = 4000,
table patch cut 1061 bytes in: gen_trace_header(0)[231] == 160.  Exit 1 = reproduces."""
import sys, os, io, struct
sys.path.insert(0, os.path.join(os.path.dirname(os.path.abspath(__file__)), '..', 'tools'))
from hz import *
d = scratch_dir()
try:
    c = rnd_cube(random.Random(2), (21, 30))
    s = os.path.join(d, 'c.sgy')
    mk_segy_2d(s, c, hdr=lambda t: {segyio.TraceField.CDP: 7, segyio.TraceField.TRACE_SEQUENCE_FILE: 3,
                                     segyio.TraceField.SourceMeasurementUnit: 4000})
    p = os.path.join(d, 'c.sgz')
    write_segy_sgz(s, p, bpv=4, header_detection='thorough')
    final = open(p, 'rb').read()
    want = SgzReader(p).gen_trace_header(0)[231]
    # state: count patched, table patch stopped 1061 bytes in (88 rows + position + 1 byte of the value of row 88)
    rows_old = b''.join(struct.pack('<iii', k, 0, k) for k, _, _ in
                        [struct.unpack('<iii', final[980 + 12 * i: 992 + 12 * i]) for i in range(89)])
    torn = bytearray(final)
    torn[980:2048] = final[980:980 + 1061] + rows_old[1061:]
    torn[960:980] = bytes(20)
    f = io.BytesIO(bytes(torn)); f.name = 'torn.sgz'
    try:
        got = SgzReader(f).gen_trace_header(0)[231]
    except Exception as e:
        sys.exit(0)
    if got != want:
        print(f'torn table patch: gen_trace_header(0)[231] = {got} (complete file: {want}), no error')
        sys.exit(1)
    sys.exit(0)
finally:
    shutil.rmtree(d)
