"""D28: attributes(field) / get_tracefield_1d / get_tracefield_values raise KeyError for a trace-header field that has the
same value in every trace of the source (such fields live in the header template, not in a footer array); segyio
returns an array of that value.  Exit 1 when any field fails, 0 when all fields of a segyio trace header agree with segyio."""
import sys, os, random
sys.path.insert(0, os.path.join(os.path.dirname(os.path.abspath(__file__)), '..', 'tools'))
from hz import *
import seismic_zfp
d = scratch_dir()
bad = []
try:
    rng = random.Random(28)
    a = rnd_cube(rng, (3, 4, 8))
    sgy, sgz = os.path.join(d, 'a.sgy'), os.path.join(d, 'a.sgz')
    mk_segy(sgy, a, [1, 2, 3], [10, 12, 14, 16])
    write_segy_sgz(sgy, sgz, bpv=16)
    with segyio.open(sgy) as s, seismic_zfp.open(sgz) as z:
        fields = list(dict(s.header[0]).keys())
        for fld in fields:
            want = s.attributes(int(fld))[:]
            try:
                got = z.attributes(int(fld))[:]
                ok = np.array_equal(want, got)
                grid = z.get_tracefield_values(int(fld))
                ok = ok and grid.shape == (3, 4) and np.array_equal(grid.ravel(), want)
            except Exception as e:
                got, ok = repr(e), False
            if not ok:
                bad.append((int(fld), str(fld), got if isinstance(got, str) else 'values differ'))
    print(f'{len(bad)} of {len(fields)} fields fail:', bad[:6])
finally:
    shutil.rmtree(d)
sys.exit(1 if bad else 0)
