"""D44 (C02): the xarray entry point hands xarray the bare BackendArray instead of wrapping it in LazilyIndexedArray (the
documented protocol): selections by a list / array of ordinals or line numbers (isel(il=[...]), sel(xl=[...])) raise
AttributeError ('SeismicZfpBackendArray' object has no attribute 'oindex') instead of returning those lines of the volume."""
import sys, os
if len(sys.argv) > 1:
    os.environ['VERIF_REPO'] = sys.argv[1]
sys.path.insert(0, os.path.join(os.path.dirname(os.path.abspath(__file__)), '..', 'tools'))
from hz import *
import xarray as xr
from seismic_zfp.sgz_xarray import SeismicZfpBackendEntrypoint
d = scratch_dir()
rng = random.Random(2)
src = rnd_cube(rng, (9, 11, 30))
p = os.path.join(d, 'a.sgz')
write_numpy_sgz(p, src, bpv=8, blockshape=(4, 4, -1), ilines=np.arange(10, 19), xlines=np.arange(100, 111), samples=np.arange(30) * 4.0)
with SgzReader(p) as r:
    V = r.read_volume()
bad = 0
for label, f, want in [('isel(il=[1,3,4])', lambda a: a.isel(il=[1, 3, 4]), V[[1, 3, 4]]),
                       ('sel(xl=[110,101])', lambda a: a.sel(xl=[110, 101]), V[:, [10, 1]]),
                       ('isel(il=[6,2], z=[0,29,5])', lambda a: a.isel(il=[6, 2], z=[0, 29, 5]), V[[6, 2]][:, :, [0, 29, 5]])]:
    ds = xr.open_dataset(p, engine=SeismicZfpBackendEntrypoint)
    try:
        got = np.asarray(f(ds.data).values)
        if got.shape != want.shape or not np.array_equal(got, want):
            print(f'data.{label}: differs from the same selection of read_volume()')
            bad += 1
    except Exception as e:
        print(f'data.{label}: {type(e).__name__}: {str(e)[:100]}')
        bad += 1
    ds.close()
shutil.rmtree(d, ignore_errors=True)
sys.exit(1 if bad else 0)
