"""D10: a failing / short range read inside the thread-pool read paths is swallowed and zeros or garbage are returned."""
import sys, os, random
sys.path.insert(0, os.path.join(os.path.dirname(os.path.abspath(__file__)), '..', 'tools'))
from hz import *
d = scratch_dir()
try:
    rng = random.Random(3)
    a = rnd_cube(rng, (9, 10, 20))
    p = os.path.join(d, 'a.sgz')
    write_numpy_sgz(p, a, bpv=8)
    truth = SgzReader(p)
    bad = 0
    for name, call in (('crossline', lambda r: r.read_crossline(3)), ('zslice', lambda r: r.read_zslice(5)),
                       ('volume', lambda r: r.read_volume()), ('inline', lambda r: r.read_inline(2)),
                       ('header', lambda r: r.gen_trace_header(7)[189]), ('tracefield', lambda r: r.get_tracefield_values(189))):
        want = call(truth)
        for kind in ('exc', 'short', 'empty'):
            f = CountingFile(p)
            r = SgzReader(f)
            f.faults = {f.n: kind}      # the first range read of the call
            try:
                got = call(r)
            except Exception as e:
                continue
            same = np.array_equal(np.asarray(got), np.asarray(want))
            if not same:
                bad += 1
                print(f'{name}: fault {kind} on first range read -> returned WRONG data without raising')
    # truncated file
    f = CountingFile(p, limit=8192 + 4096 * 3 + 100)
    r = SgzReader(f)
    try:
        got = r.read_volume()
        if not np.array_equal(got, truth.read_volume()):
            bad += 1
            print('truncated file: read_volume returned different numbers, no error')
    except Exception:
        pass
    sys.exit(1 if bad else 0)
finally:
    shutil.rmtree(d)
