"""D4 (C08, C05): irregular (unstructured) 3D SEG-Y: the inferred inline increment is written to the crossline
increment field and vice versa, so ilines/xlines of the SGZ are wrong when the two increments differ."""
import sys, os, random
sys.path.insert(0, os.path.join(os.path.dirname(os.path.abspath(__file__)), '..', 'tools'))
from hz import *
d = scratch_dir()
try:
    rng = random.Random(1)
    a = rnd_cube(rng, (5, 6, 20))
    il = [10 + 3 * i for i in range(5)]; xl = [100 + 2 * x for x in range(6)]
    present = np.ones((5, 6), bool); present[0, 0] = False; present[2, 3] = False; present[4, 5] = False
    sgy = os.path.join(d, 'a.sgy'); p = os.path.join(d, 'a.sgz')
    mk_segy(sgy, a, il, xl, present=present)
    write_segy_sgz(sgy, p, bpv=8)
    with SgzReader(p) as r:
        gi, gx = list(r.ilines), list(r.xlines)
    print('ilines', gi, 'expected', il); print('xlines', gx, 'expected', xl)
    sys.exit(0 if (gi == il and gx == xl) else 1)
finally:
    shutil.rmtree(d)
