"""D35 (C06, known finding): regenerate_trace_header sets DelayRecordingTime = int(zslices[0]).  zslices[0] is segyio's
first sample time of the source, which is the delay MULTIPLIED by |ScalarTraceHeader| (bytes 215-216; negative means
divide) and then truncated to whole milliseconds by the writer.  For a source with a constant delay d and a scalar
other than 0, 1, -1 (d != 0) the exported delay is not d, and the sample axis of the exported file is scaled again.
Exit 1 when delay -200 with scalar -100 does not come back as -200."""
import sys, os, random
sys.path.insert(0, os.path.join(os.path.dirname(os.path.abspath(__file__)), '..', 'tools'))
from hz import *
d = scratch_dir()
try:
    rng = random.Random(31)
    a = rnd_cube(rng, (3, 4, 6))
    sgy, sgz, out = (os.path.join(d, n) for n in ('a.sgy', 'a.sgz', 'o.sgy'))
    TF = segyio.TraceField
    mk_segy(sgy, a, [1, 2, 3], [1, 2, 3, 4], t0=-200, hdr=lambda t, i, x: {TF.ScalarTraceHeader: -100})
    write_segy_sgz(sgy, sgz, bpv=16)
    with SgzConverter(sgz) as c:
        quiet(c.convert_to_segy, out)
    with segyio.open(out) as f, segyio.open(sgy) as g:
        df, dg = f.header[0][TF.DelayRecordingTime], g.header[0][TF.DelayRecordingTime]
        print('delay: source', dg, 'exported', df, '| first sample: source', g.samples[0], 'exported', f.samples[0])
        ok = df == dg and f.samples[0] == g.samples[0]
    sys.exit(0 if ok else 1)
finally:
    shutil.rmtree(d)
