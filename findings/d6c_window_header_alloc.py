"""D6c (C11): get_blank_header_info sizes every header array from the SOURCE trace count, also when a window is
converted: each stored array is written with source-count entries while the header announces window-count entries, so the
file is longer than its header says and, whenever the two lengths pad to different multiples of 512 bytes, every array
after the first is read from the wrong offset."""
import sys, os, random
sys.path.insert(0, os.path.join(os.path.dirname(os.path.abspath(__file__)), '..', 'tools'))
from hz import *
d = scratch_dir()
try:
    rng = random.Random(1)
    a = rnd_cube(rng, (12, 17, 6))           # 204 traces: 816 bytes per array -> 1024; window 8x16 = 128 traces: 512 bytes
    sgy = os.path.join(d, 'a.sgy'); p = os.path.join(d, 'w.sgz')
    mk_segy(sgy, a, range(10, 22), range(100, 117))
    write_segy_sgz(sgy, p, bpv=8, window=(1, 9, 1, 17))
    sp = SpecFile(p)
    print('header: %d arrays of %d bytes (stride %d) -> file length %d; actual file length %d'
          % (sp.nha, sp.hel, sp.stride, sp.expected_length(), os.path.getsize(p)))
    sys.exit(1 if os.path.getsize(p) != sp.expected_length() else 0)
finally:
    shutil.rmtree(d)
