"""D7d (C10): empty and inverted index ranges are not refused.  (8, 4) reaches struct.pack with a negative length
(struct.error instead of IndexError); (4, 4) writes a file with zero inlines."""
import sys, os, random
sys.path.insert(0, os.path.join(os.path.dirname(os.path.abspath(__file__)), '..', 'tools'))
from hz import *
d = scratch_dir()


def crop(src, out, *ranges, coords=False):
    if os.path.exists(out):
        os.remove(out)
    with SgzCropper(src) as c:
        quiet(c.write_cropped_file_by_coords if coords else c.write_cropped_file_by_indexes, out, *ranges)


try:
    rng = random.Random(1)
    src, out = os.path.join(d, 'src.sgz'), os.path.join(d, 'out.sgz')
    write_numpy_sgz(src, rnd_cube(rng, (12, 8, 40)), bpv=8)
    bad = False
    for rg in ((8, 4), (4, 4), (12, 12), (0, 0)):
        for axis in range(3):
            ranges = [None, None, None]
            ranges[axis] = rg if axis < 2 else ((rg[0] * 3, rg[1] * 3))
            try:
                crop(src, out, *ranges)
                res = 'no exception'
            except Exception as e:
                res = type(e).__name__
            left = os.path.exists(out)
            print('ranges', ranges, '->', res, '| file left behind:', left)
            bad |= res != 'IndexError' or left
    sys.exit(1 if bad else 0)
finally:
    shutil.rmtree(d)
