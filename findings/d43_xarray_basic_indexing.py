"""D43 (C02): the xarray backend (seismic_zfp/sgz_xarray.py) receives numpy basic-indexing keys from xarray (an int or a slice
per axis, possibly stepped, negative, reversed, empty or reaching past the end) but reads slice.start / slice.stop only:
a stepped selection returns the whole bounding box (wrong shape and samples under the selection's coordinates), an int
key keeps its axis (xarray then raises ValueError), negative bounds / empty / over-long slices raise IndexError.
Exit 1 if any basic selection differs from the same selection of read_volume()."""
import sys, os
if len(sys.argv) > 1:
    os.environ['VERIF_REPO'] = sys.argv[1]
sys.path.insert(0, os.path.join(os.path.dirname(os.path.abspath(__file__)), '..', 'tools'))
from hz import *
import xarray as xr
from seismic_zfp.sgz_xarray import SeismicZfpBackendEntrypoint
d = scratch_dir()
rng = random.Random(1)
src = rnd_cube(rng, (9, 11, 30))
p = os.path.join(d, 'a.sgz')
write_numpy_sgz(p, src, bpv=8, blockshape=(4, 4, -1), ilines=np.arange(10, 19), xlines=np.arange(100, 111), samples=np.arange(30) * 4.0)
with SgzReader(p) as r:
    V = r.read_volume()
bad = 0
S = np.s_
for label, key in [('[2:7]', S[2:7]), ('[2:7:2]', S[2:7:2]), ('[::-1]', S[::-1]), ('[3]', S[3]), ('[3,4]', S[3, 4]), ('[:,:,5]', S[:, :, 5]),
                   ('[-1]', S[-1]), ('[-3:]', S[-3:]), ('[1:5,2:9:3,::4]', S[1:5, 2:9:3, ::4]), ('[2:2]', S[2:2]), ('[5:100]', S[5:100]),
                   ('[7:2:-2]', S[7:2:-2])]:
    ds = xr.open_dataset(p, engine=SeismicZfpBackendEntrypoint)      # fresh: no cached values
    want = V[key]
    try:
        got = np.asarray(ds.data[key].values)
        if got.shape != want.shape or not np.array_equal(got, want):
            print(f'data{label}: shape {got.shape}, read_volume(){label} has shape {want.shape}' if got.shape != want.shape else f'data{label}: samples differ')
            bad += 1
    except Exception as e:
        print(f'data{label}: {type(e).__name__}: {str(e)[:100]}')
        bad += 1
    ds.close()
shutil.rmtree(d, ignore_errors=True)
sys.exit(1 if bad else 0)
