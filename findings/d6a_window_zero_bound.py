"""D6a (C11): SeismicFileConverter.__init__ accepts the (min_il, max_il, min_xl, max_xl) window only when all four bounds
are truthy (`all([min_il, max_il, min_xl, max_xl])`), so a window that starts at ordinal 0 on either axis is silently
ignored and the whole cube is converted."""
import sys, os, random
sys.path.insert(0, os.path.join(os.path.dirname(os.path.abspath(__file__)), '..', 'tools'))
from hz import *
d = scratch_dir()
try:
    rng = random.Random(1)
    a = rnd_cube(rng, (5, 6, 10))
    sgy = os.path.join(d, 'a.sgy')
    mk_segy(sgy, a, range(10, 25, 3), range(100, 112, 2))
    bad = 0
    for w in [(0, 3, 0, 4), (0, 3, 1, 4), (1, 3, 0, 4)]:
        p = os.path.join(d, 'w.sgz')
        write_segy_sgz(sgy, p, bpv=16, window=w)
        sp = SpecFile(p)
        with SgzReader(p) as r:
            v = r.read_volume()
        sub = a[w[0]:w[1], w[2]:w[3]]
        ok = (sp.n_il, sp.n_xl) == sub.shape[:2] and v.shape == sub.shape and np.allclose(v, sub, rtol=1e-2, atol=1e-2 * float(np.abs(a).max()))
        print('window', w, '-> file holds', (sp.n_il, sp.n_xl), 'lines, expected', sub.shape[:2], 'OK' if ok else 'WRONG')
        bad += not ok
    sys.exit(1 if bad else 0)
finally:
    shutil.rmtree(d)
