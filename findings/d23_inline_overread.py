"""D23: read_inline on a default-layout file fetches four inline sets (and runs past the data section)."""
import sys, os, random
sys.path.insert(0, os.path.join(os.path.dirname(os.path.abspath(__file__)), '..', 'tools'))
from hz import *
d = scratch_dir()
try:
    rng = random.Random(1)
    a = rnd_cube(rng, (9, 10, 300))
    p = os.path.join(d, 'a.sgz')
    write_numpy_sgz(p, a, bpv=8)
    sp = SpecFile(p)
    f = CountingFile(p)
    r = SgzReader(f)
    f.log.clear()
    il = r.read_inline(0)
    data_start = 4096 * sp.nhb
    data_end = data_start + 4096 * sp.ndb
    needed_blocks = (sp.shape_pad[1] // 4) * (sp.shape_pad[2] // sp.bs[2])
    touched = set()
    beyond = False
    for off, ln in f.log:
        for b in range(off // 4096, (off + ln + 4095) // 4096):
            touched.add(b)
        if off + ln > data_end:
            beyond = True
    print('reads', f.log, 'blocks touched', len(touched), 'needed', needed_blocks, 'beyond data section', beyond)
    ok = bits_equal(il, sp.volume()[0, :10, :300])
    print('value ok', ok)
    sys.exit(0 if (len(touched) == needed_blocks and not beyond and ok) else 1)
finally:
    shutil.rmtree(d)
