"""D16: iline[...] / xline[...] slices and iteration on an axis whose line numbers descend (and reversed slices on an
ascending axis) lose lines or come in another order than segyio's on the source SEG-Y.
Exit 1 when any of the slices differs from segyio (unpatched code), 0 when all agree."""
import sys, os, random
sys.path.insert(0, os.path.join(os.path.dirname(os.path.abspath(__file__)), '..', 'tools'))
from hz import *
import seismic_zfp
d = scratch_dir()
bad = 0
try:
    rng = random.Random(16)
    for il, xl in [([9, 7, 5, 3, 1], [10, 12, 14, 16]), ([2, 5, 8, 11], [40, 30, 20, 10])]:
        a = rnd_cube(rng, (len(il), len(xl), 8))
        sgy, sgz = os.path.join(d, 'a.sgy'), os.path.join(d, 'a.sgz')
        mk_segy(sgy, a, il, xl)
        write_segy_sgz(sgy, sgz, bpv=16)
        with segyio.open(sgy) as s, seismic_zfp.open(sgz) as z:
            vol = SgzReader(sgz).read_volume()
            for name, keys, ax in (('iline', il, 0), ('xline', xl, 1)):
                inc = keys[1] - keys[0]
                slices = [slice(None), slice(None, None, inc), slice(None, None, 2 * inc), slice(keys[1], None, inc),
                          slice(None, keys[-1], inc), slice(keys[1], keys[-1], inc), slice(None, None, -inc),
                          slice(min(keys) + abs(inc), None)]
                for sl in slices:
                    # segyio's line numbers for this slice, recovered from the trace headers of the lines it yields
                    fld = 189 if ax == 0 else 193
                    hs = getattr(s.header, name)[sl]
                    seg_keys = [int(next(iter(h))[fld]) for h in hs]
                    seg = [x.copy() for x in getattr(s, name)[sl]]
                    try:
                        emu = list(getattr(z, name)[sl])
                    except Exception as e:
                        emu = e
                    ok = (not isinstance(emu, Exception) and len(emu) == len(seg_keys) and
                          all(np.array_equal(e, np.take(vol, keys.index(k), axis=ax)) for e, k in zip(emu, seg_keys)))
                    print(f'{name}{keys}[{sl.start}:{sl.stop}:{sl.step}] segyio lines {seg_keys}  emulator '
                          f'{"raises " + repr(emu) if isinstance(emu, Exception) else str(len(emu)) + " lines"}  {"ok" if ok else "DIFFERS"}')
                    bad += (not ok)
            n = len(list(z.iline)), len(list(z.xline))
            print('iteration yields', n, 'lines; axes have', (len(il), len(xl)))
            bad += (n != (len(il), len(xl)))
finally:
    shutil.rmtree(d)
print('differences:', bad)
sys.exit(1 if bad else 0)
