"""D2 (C03, C04): when 4*n_traces is a multiple of 512 the writers pad every header array by a whole extra 512 bytes
(512 - len % 512 == 512) while the reader (and the specification) use stride = len rounded up to 512: every stored
array after the first is read at the wrong offset and the file is 512 bytes per array longer than its header says."""
import sys, os, random
sys.path.insert(0, os.path.join(os.path.dirname(os.path.abspath(__file__)), '..', 'tools'))
from hz import *
d = scratch_dir()
try:
    rng = random.Random(1)
    a = rnd_cube(rng, (8, 16, 12))           # 128 traces: 512 bytes per array
    sgy = os.path.join(d, 'a.sgy'); p = os.path.join(d, 'a.sgz')
    mk_segy(sgy, a, range(10, 18), range(100, 116))
    write_segy_sgz(sgy, p, bpv=8)
    bad = 0
    with segyio.open(sgy) as s, SgzReader(p) as r:
        for t in range(128):
            hs, hz_ = s.header[t], r.gen_trace_header(t)
            bad += sum(1 for k in hs if hs[k] != hz_[k])
        sp = SpecFile(p)
        print('header mismatches:', bad, ' file length', os.path.getsize(p), 'expected', sp.expected_length())
        bad += os.path.getsize(p) != sp.expected_length()
    sys.exit(1 if bad else 0)
finally:
    shutil.rmtree(d)
