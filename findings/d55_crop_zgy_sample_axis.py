"""D55 (C10, C05 "also after cropping"): cropping the sample range of an SGZ file that was converted from ZGY keeps the
source's first sample time.  A ZGY-sourced file stores its sample axis as doubles at header bytes 84-99 and the reader
prefers them; SgzCropper.regenerate_header moves only the integer start (bytes 16-20).  Witness: 300 samples from -100 ms,
2.5 ms apart; the crop of samples 256..299 reports -100, -97.5, ... instead of 540, 542.5, ...
Repair: when the double interval is present, move the double start as well.
Exit 1 when the cropped file's sample axis is not the cropped range of the source's, 0 otherwise."""
import sys, os
sys.path.insert(0, os.path.join(os.path.dirname(os.path.abspath(__file__)), '..', 'tools'))
from hz import *
from seismic_zfp.conversion import ZgyConverter
from pyzgy.write import SeismicWriter
d = scratch_dir()
bad = 0
try:
    rng = random.Random(55)
    for (ns, z0, dz, bpv, crop) in ((300, -100.0, 2.5, 8, (256, 300)), (130, 0.0, 4.0, 16, (128, 130)), (300, 7.5, 0.5, 8, (0, 256)),
                                    (520, 1000.0, 2.0, 4, (512, 520))):
        z, out, c = (os.path.join(d, n) for n in ('s.zgy', 'z.sgz', 'c.sgz'))
        src = rnd_cube(rng, (5, 6, ns))
        with SeismicWriter(z, size=(5, 6, ns), zstart=z0, zinc=dz, annotstart=(10, 100), annotinc=(2, 3),
                           corners=[(0, 0), (100, 0), (0, 100), (100, 100)]) as w:
            w.write_volume(src)

        def conv():
            with ZgyConverter(z) as cv:
                cv.run(out, bits_per_voxel=bpv)
        quiet(conv)
        with SgzReader(out) as r:
            want = np.array(r.zslices[crop[0]:crop[1]], dtype=np.float64)
            vol = r.read_volume()
        with SgzCropper(out) as cr:
            quiet(cr.write_cropped_file_by_indexes, c, zslices_index_range=crop)
        with SgzReader(c) as r:
            got = np.array(r.zslices, dtype=np.float64)
            if got.shape != want.shape or not np.allclose(got, want, rtol=0, atol=1e-9):
                print(f'{ns} samples from {z0} ms every {dz} ms, crop {crop}: cropped axis starts {got[:3]}, source range starts {want[:3]}')
                bad += 1
            if not bits_equal(r.read_volume(), vol[:, :, crop[0]:crop[1]]):
                print('cropped volume differs'); bad += 1
        for p in (z, out, c):
            os.remove(p)
    print('differences:', bad)
    sys.exit(1 if bad else 0)
finally:
    shutil.rmtree(d, ignore_errors=True)
