"""D7e (C10): the cropper addresses compression units as in the default (4, 4, n) layout whatever the blockshape of the
source.  For any other layout that is only right when whole inline blocks with the full crossline and sample extent
are kept; otherwise a wrong sub-cube is written without any complaint.  After the repair such boxes are refused and
the one supported case still works."""
import sys, os, random
sys.path.insert(0, os.path.join(os.path.dirname(os.path.abspath(__file__)), '..', 'tools'))
from hz import *
d = scratch_dir()


def crop(src, out, *ranges, coords=False):
    if os.path.exists(out):
        os.remove(out)
    with SgzCropper(src) as c:
        quiet(c.write_cropped_file_by_coords if coords else c.write_cropped_file_by_indexes, out, *ranges)


try:
    rng = random.Random(1)
    src, out = os.path.join(d, 'src.sgz'), os.path.join(d, 'out.sgz')
    a = rnd_cube(rng, (24, 16, 40))
    write_numpy_sgz(src, a, bpv=8, blockshape=(8, 8, 64))
    with SgzReader(src) as r:
        vol = r.read_volume()
    bad = False
    try:
        crop(src, out, (8, 16), (8, 16), None)
        with SgzReader(out) as r:
            ok = bits_equal(r.read_volume(), vol[8:16, 8:16, :])
        print('crop (8,16)x(8,16) of a blockshape (8,8,64) file written; equals the source box:', ok)
        bad |= not ok
    except IndexError as e:
        print('crop (8,16)x(8,16) refused:', e, '| file left behind:', os.path.exists(out))
        bad |= os.path.exists(out)
    crop(src, out, (8, 24), None, None)
    with SgzReader(out) as r:
        ok = bits_equal(r.read_volume(), vol[8:24, :, :]) and os.path.getsize(out) == SpecFile(out).expected_length()
    print('crop of inlines (8,24) with all crosslines and samples equals the source box:', ok)
    bad |= not ok
    sys.exit(1 if bad else 0)
finally:
    shutil.rmtree(d)
