(* driver.ml -- line protocol around the extracted model (ocaml/gen/model.ml).
   One request per line on stdin, one answer per line on stdout.  Integers are decimal text.

   request :  <cmd> H <n> <n header fields in record order> A <args...> [M <mask length> <mask bits...>]
   answer  :  ERR <exn>
            | OK S <rank> <dims...> R <nreads> <off len>... C <ncells> <tokens...>     (arrays; token = off:c | Z | B)
            | OK V <int>...                                                            (integers)
*)
open Model

let rec pos_of_int n = if n = 1 then XH else if n land 1 = 0 then XO (pos_of_int (n lsr 1)) else XI (pos_of_int (n lsr 1))
let z_of_int n = if n = 0 then Z0 else if n > 0 then Zpos (pos_of_int n) else Zneg (pos_of_int (-n))
let rec int_of_pos = function XH -> 1 | XO p -> 2 * int_of_pos p | XI p -> 2 * int_of_pos p + 1
let int_of_z = function Z0 -> 0 | Zpos p -> int_of_pos p | Zneg p -> - (int_of_pos p)

let exn_name = function
  | IndexErr -> "IndexErr" | WrongDim -> "WrongDim" | AssertErr -> "AssertErr" | ValueErr -> "ValueErr"
  | TypeErr -> "TypeErr" | ZeroDivErr -> "ZeroDivErr" | RuntimeErr -> "RuntimeErr" | IOErr -> "IOErr"
  | OtherErr -> "OtherErr"

let buf = Buffer.create 65536

let rec iter_idx shape f prefix =
  match shape with
  | [] -> f (List.rev prefix)
  | d :: rest -> for i = 0 to d - 1 do iter_idx rest f (i :: prefix) done

let print_arr (a : arrv) max_cells =
  let shape = List.map int_of_z a.av_shape in
  Buffer.add_string buf "OK S ";
  Buffer.add_string buf (string_of_int (List.length shape));
  List.iter (fun d -> Buffer.add_char buf ' '; Buffer.add_string buf (string_of_int d)) shape;
  let reads = a.av_reads in
  Buffer.add_string buf " R "; Buffer.add_string buf (string_of_int (List.length reads));
  List.iter (fun (o, l) -> Buffer.add_char buf ' '; Buffer.add_string buf (string_of_int (int_of_z o));
                           Buffer.add_char buf ' '; Buffer.add_string buf (string_of_int (int_of_z l))) reads;
  let n = List.fold_left (fun acc d -> acc * (max d 0)) 1 shape in
  if n > max_cells then begin
    Buffer.add_string buf " C -1"
  end else begin
    Buffer.add_string buf " C "; Buffer.add_string buf (string_of_int n);
    if n > 0 then
    iter_idx shape (fun idx ->
      Buffer.add_char buf ' ';
      match a.av_cell (List.map z_of_int idx) with
      | PUnit (o, c) -> Buffer.add_string buf (string_of_int (int_of_z o)); Buffer.add_char buf ':';
                        Buffer.add_string buf (string_of_int (int_of_z c))
      | PZero -> Buffer.add_char buf 'Z'
      | PBad -> Buffer.add_char buf 'B') []
  end

let answer_arr (r : arrv outcome) max_cells =
  match r with
  | Raise e -> Buffer.add_string buf ("ERR " ^ exn_name e)
  | Return a -> print_arr a max_cells

let answer_ints l =
  Buffer.add_string buf "OK V";
  List.iter (fun v -> Buffer.add_char buf ' '; Buffer.add_string buf (string_of_int (int_of_z v))) l

let opt_of tok = if tok = "N" then None else Some (z_of_int (int_of_string tok))
let bool_of tok = (tok = "1")

let () =
  let max_cells = ref 200000 in
  (try
    while true do
      let line = input_line stdin in
      Buffer.clear buf;
      (try
        let toks = Array.of_list (String.split_on_char ' ' (String.trim line)) in
        let cmd = toks.(0) in
        let p = ref 1 in
        let next () = let t = toks.(!p) in incr p; t in
        let nexti () = int_of_string (next ()) in
        let nextz () = z_of_int (nexti ()) in
        let h = ref (hdr_of_list []) in
        if !p < Array.length toks && toks.(!p) = "H" then begin
          incr p;
          let n = nexti () in
          let l = List.init n (fun _ -> nextz ()) in
          h := hdr_of_list l
        end;
        let args = ref [] in
        if !p < Array.length toks && toks.(!p) = "A" then begin
          incr p;
          while !p < Array.length toks && toks.(!p) <> "M" do args := next () :: !args done;
          args := List.rev !args
        end;
        let mask = ref [||] in
        if !p < Array.length toks && toks.(!p) = "M" then begin
          incr p;
          let n = nexti () in
          mask := Array.init n (fun _ -> nexti ())
        end;
        (* mask_nth i : grid position of the i-th populated cell (Python: arange(n)[mask != 0][i]; negative i wraps) *)
        let populated = lazy (let l = ref [] in Array.iteri (fun i b -> if b <> 0 then l := i :: !l) !mask;
                              Array.of_list (List.rev !l)) in
        let mask_nth (i : z) : z outcome =
          let a = Lazy.force populated in
          let n = Array.length a in
          let i = int_of_z i in
          let i = if i < 0 then i + n else i in
          if i < 0 || i >= n then Raise IndexErr else Return (z_of_int a.(i)) in
        let a = Array.of_list !args in
        let zi k = z_of_int (int_of_string a.(k)) in
        let h = !h in
        (match cmd with
         | "maxcells" -> max_cells := int_of_string a.(0); Buffer.add_string buf "OK V"
         | "init" -> (match rd_init h with Raise e -> Buffer.add_string buf ("ERR " ^ exn_name e)
                                         | Return _ -> answer_ints [rd_n_ilines h; rd_n_xlines h; rd_n_samples h; rd_tracecount h;
                                                                    rd_shape_pad0 h; rd_shape_pad1 h; rd_shape_pad2 h;
                                                                    rd_unit_bytes h; rd_block_bytes h; rd_chunk_bytes h;
                                                                    rd_padded_header_entry_length_bytes h; rd_data_start_bytes h;
                                                                    rd_blockshape0 h; rd_blockshape1 h; rd_blockshape2 h])
         | "read_inline" -> answer_arr (rd_read_inline h (zi 0)) !max_cells
         | "read_crossline" -> answer_arr (rd_read_crossline h (zi 0)) !max_cells
         | "read_zslice" -> answer_arr (rd_read_zslice h (zi 0)) !max_cells
         | "read_volume" -> answer_arr (rd_read_volume h) !max_cells
         | "read_subvolume" -> answer_arr (rd_read_subvolume h (zi 0) (zi 1) (zi 2) (zi 3) (zi 4) (zi 5) (bool_of a.(6)) (bool_of a.(7))) !max_cells
         | "read_subplane" -> answer_arr (rd_read_subplane h (zi 0) (zi 1) (zi 2) (zi 3) (bool_of a.(4))) !max_cells
         | "get_trace" -> answer_arr (rd_get_trace mask_nth h (zi 0) (opt_of a.(1)) (opt_of a.(2)) (bool_of a.(3))) !max_cells
         | "read_correlated_diagonal" ->
             answer_arr (rd_read_correlated_diagonal mask_nth h (zi 0) (opt_of a.(1)) (opt_of a.(2)) (opt_of a.(3)) (opt_of a.(4))) !max_cells
         | "read_anticorrelated_diagonal" ->
             answer_arr (rd_read_anticorrelated_diagonal mask_nth h (zi 0) (opt_of a.(1)) (opt_of a.(2)) (opt_of a.(3)) (opt_of a.(4))) !max_cells
         | "chunk_range" ->
             (match ld_read_chunk_range h (zi 0) (zi 1) (zi 2) (zi 3) (zi 4) (zi 5) with
              | Raise e -> Buffer.add_string buf ("ERR " ^ exn_name e)
              | Return reads -> Buffer.add_string buf "OK V";
                  List.iter (fun ((o, l), pz) -> List.iter (fun v -> Buffer.add_char buf ' ';
                     Buffer.add_string buf (string_of_int (int_of_z v))) [o; l; pz]) reads)
         | "pad" -> answer_ints [pad (zi 0) (zi 1)]
         | "cd_len" -> answer_ints [get_correlated_diagonal_length (zi 0) (zi 1) (zi 2)]
         | "ad_len" -> answer_ints [get_anticorrelated_diagonal_length (zi 0) (zi 1) (zi 2)]
         | "cache_size" -> (match get_chunk_cache_size (zi 0) (zi 1) with Some v -> answer_ints [v] | None -> Buffer.add_string buf "ERR OutOfFuel")
         | "ver_reencode" -> answer_ints [version_reencode (zi 0)]
         | "ver_enc" -> answer_ints [version_to_encoding (zi 0) (zi 1) (zi 2) (bool_of a.(3))]
         | "ver_dec" -> let v = dec (zi 0) in answer_ints [v.vmaj; v.vmin; v.vpat; (if v.vdev then z_of_int 1 else z_of_int 0)]
         | "ver_parse" ->
             let s = if Array.length a > 0 then a.(0) else "" in
             let asc c = let n = Char.code c in let b k = (n lsr k) land 1 = 1 in
                         Ascii (b 0, b 1, b 2, b 3, b 4, b 5, b 6, b 7) in
             let rec mk i = if i >= String.length s then EmptyString else String (asc s.[i], mk (i + 1)) in
             (match parse_version (mk 0) with
              | Raise e -> Buffer.add_string buf ("ERR " ^ exn_name e)
              | Return v -> answer_ints [v.vmaj; v.vmin; v.vpat; (if v.vdev then z_of_int 1 else z_of_int 0)])
         | _ -> Buffer.add_string buf ("ERR UnknownCommand " ^ cmd))
      with
      | Stack_overflow -> Buffer.clear buf; Buffer.add_string buf "ERR DriverStackOverflow"
      | e -> Buffer.clear buf; Buffer.add_string buf ("ERR DriverException " ^ Printexc.to_string e));
      print_string (Buffer.contents buf); print_newline ()
    done
  with End_of_file -> ())
