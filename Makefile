# /verif/Makefile -- builds the whole development from /repo's current working tree.
SHELL := /bin/bash
export OCAMLRUNPARAM := s=4M
REPO ?= /repo

.PHONY: setup gen coq coqproject extract driver clean all
all: setup
# setup never fails because of a Coq file that does not compile: each check re-compiles its own Props file and reports a
# broken obligation itself (a failing proof under a changed /repo is a finding of that check, not a broken setup)
setup: gen
	-$(MAKE) coq
	-$(MAKE) driver
	@echo setup done

gen:
	python3 tools/gen.py --repo $(REPO) || true

# _CoqProject lists every .v under Lib Gen Spec Model Proofs (Props/*.v are compiled by run.py, one per property)
coqproject:
	cd coq && (echo '-Q . SZ'; find Lib Gen Spec Model Proofs -name '*.v' | LC_ALL=C sort) > _CoqProject.new && \
	  (cmp -s _CoqProject.new _CoqProject && rm _CoqProject.new || (mv _CoqProject.new _CoqProject; coq_makefile -f _CoqProject -o Makefile.coq > /dev/null)); \
	  test -f Makefile.coq || coq_makefile -f _CoqProject -o Makefile.coq > /dev/null

coq: coqproject
	cd coq && timeout 3000 $(MAKE) -f Makefile.coq -k -j16 2>&1 | grep -v "^COQDEP\|^make\[" ; exit $${PIPESTATUS[0]}

extract:
	mkdir -p ocaml/gen && cd ocaml/gen && rm -f model.ml model.mli && timeout 600 coqc -Q ../../coq SZ ../../coq/Extract/Model.v > extract.log 2>&1 ; rm -f ../../coq/Extract/Model.vo ../../coq/Extract/Model.glob ../../coq/Extract/.Model.aux; test -f model.ml

driver: extract
	cd ocaml && mkdir -p _build && cp gen/model.ml gen/model.mli driver.ml _build/ && cd _build && \
	  ocamlfind ocamlopt -w -a -O3 model.mli model.ml driver.ml -o driver 2>/dev/null || ocamlfind ocamlopt -w -a model.mli model.ml driver.ml -o driver

clean:
	rm -rf ocaml/_build ocaml/gen; cd coq && (test -f Makefile.coq && $(MAKE) -f Makefile.coq clean >/dev/null 2>&1; true); rm -f coq/Makefile.coq coq/Makefile.coq.conf; find coq -name '*.vo*' -o -name '*.glob' -o -name '.*.aux' | xargs rm -f
