#!/usr/bin/env python3
"""Run the repository's pinned baseline (guard OFF) and compare with /root/.vp/BASELINE.json stable_pass."""
import json, subprocess, sys, os, tempfile, xml.etree.ElementTree as ET
base = json.load(open('/root/.vp/BASELINE.json'))
repo = sys.argv[1] if len(sys.argv) > 1 else '/repo'
out = tempfile.mktemp(suffix='.xml', dir='/var/tmp')
env = dict(os.environ)
env.pop('SEISMIC_ZFP_VERIF', None)
subprocess.run(['/venv/bin/python', '-m', 'pytest', '-ra', '-q', '-p', 'no:cacheprovider', '--timeout=900',
                '--continue-on-collection-errors', f'--junitxml={out}'], cwd=repo, env=env,
               stdout=subprocess.DEVNULL, stderr=subprocess.DEVNULL)
passed = set()
for tc in ET.parse(out).getroot().iter('testcase'):
    if not any(ch.tag in ('failure', 'error', 'skipped') for ch in tc):
        passed.add(f"{tc.get('classname')}::{tc.get('name')}")
os.remove(out)
missing = [t for t in base['stable_pass'] if t not in passed]
print(f"baseline: {len(base['stable_pass']) - len(missing)}/{len(base['stable_pass'])} stable tests pass; extra passing: {len(passed - set(base['stable_pass']))}")
for m in missing:
    print('  MISSING', m)
sys.exit(1 if missing else 0)
