#!/usr/bin/env python3
"""mkmanifest.py -- (maintainer) regenerate /verif/MANIFEST.json from the table below + tools/props.py.
A property is claimed iff it is in CLAIMS; every other id of properties.jsonl goes to not_applicable with REASONS[id]."""
import json, os, sys
VERIF = os.path.dirname(os.path.dirname(os.path.abspath(__file__)))
sys.path.insert(0, os.path.join(VERIF, 'tools'))
from props import PROPS

CLAIMS = {
 'C01': dict(text="Coq theorems, for every well-formed header: the units the GENERATED producers (NumPy route, segyio route, reduced-I/O reader) hand to the compressor are, in queue order, exactly the units the specification places at positions 0,1,2,.. of the data section; every cell of the padded cube is the edge-replicated source sample; hence the unit consulted for a real voxel is the ZFP code of the source unit containing it, independent of blockshape/route. VDS / ZGY / SGZ-as-input routes (Props/C01a.v): the extension dispatch of SeismicFile.open and the converter classes as GENERATED, a generated census that the data path (producers, compressor, writer, make_header) never looks at the file type, and cell fidelity for every handle that satisfies the contract iline[ilines[i]] = source inline i, which the pyzgy/pyvds accessor model meets on every axis with non-negative inline numbers (known finding D53 otherwise); both routes are executed (VDS fixture, ZGY fixtures and generated ZGY cubes). Partial: the codec is abstract (structural assumption validated against zfpy), 2D is C09.",
             note="ZFP structural assumption; np.pad/numpy slicing hand-modelled; queue FIFO order from C16; oracle = bitwise comparison with an independent encoder on every run; the scheduler harness of C16 (pipeline.py: buffer hand-over under explored schedules, queue capacities) also runs under this property",
             technique="Coq proof (mixed-radix enumeration) over a producer model regenerated from source + differential correspondence + independent-encoder oracle"),
 'C02': dict(text="Machine-checked theorems (Coq), for every well-formed header and all in-range arguments, that the read methods as GENERATED from read.py/loader.py return exactly the specification decoder's cells: inline, crossline, z-slice (default layout: Props/C02.v), read_subvolume and read_volume in the default layout (C02a) and in every layout with any padding (C02b), get_trace and trace windows in both layouts, both diagonal readers with all 16 shapes of their cropping arguments, completeness/distinctness of the diagonal enumeration (C02c); by-number / by-coordinate entry points = the ordinal reads at the first-occurrence ordinal, on every axis incl. descending, non-unit and zero increments (C02d); the xarray backend returns numpy's selection of the decoded volume for every basic key (ints, slices with any start/stop/step) and tools.cube = read_volume (C02e). Samples are provenance (unit, cell), the codec is abstract.",
             note="codec abstract (provenance); translator + Lib/Py.v semantics trusted; correspondence model=implementation on every run; specification-only decoder as oracle",
             technique="Coq proof over a model regenerated from source + differential correspondence + specification-decoder oracle"),
 'C03': dict(text="Coq theorems: (version) the encoding GENERATED from version.py is a bijection on all majors and strictly monotone for the release order, gates mean what the specification says; (container, converters) for every valid setting and cube the header fields GENERATED from make_header state the true dimensions/rate/blockshape/trace count, the header is well-formed (one block = 4096 bytes), the stated disk blocks are exactly padded voxels x bits / 8 = unit bytes x the number of units the producers write (C01), and the footer stride both write_headers use equals the stride the GENERATED reader derives for post-0.2.1 files, so array k sits where the reader looks. ZGY route (Props/C03b.v): the header it writes is well-formed and states the true dimensions, the table names exactly the four stored arrays 181/185/189/193 in footer order, the constants 115/117/71, the source and detection codes, and every field of every trace reads back through the reader model. Cropper / re-blocker conformance: C10 / C12. Known finding D19 (version strings without a patch component).",
             note="string constructor is a hand model pinned to the source text; compositions of writers covered by the container harness (spec-only decoder) and by C10/C12 preserving well-formedness; the scheduler harness of C16 (pipeline.py) also runs under this property: the footer follows every data block under every explored schedule",
             technique="Coq proof (arithmetic) over generated header fields + correspondence + specification-only decoder oracle on every writer and composition"),
 'C07': dict(text="Coq theorems on the GENERATED read plans, for every well-formed header: exactly which ranges are issued by inline / crossline / z-slice reads (default layout), sub-volumes, traces and trace windows (every layout: C07a, C07b) and that no range repeats within a call; opening touches only header blocks; with preload the data section is requested exactly once in the whole session whatever follows; the range-read choke point issues one request or none; file and blob backends issue the same (offset, length); regenerating a trace header of a regular file requests exactly word t of each stored array once (after the D42 repair; refuted-witness theorem for the unrepaired loop); within one diagonal call no chunk is fetched twice for any LRU capacity >= 1 (C07c); an xarray selection reads exactly what read_subvolume reads on its tight bounding box, nothing for an empty selection (C07d). Observed (offset, length) sequences of a counting file are compared with the model and an independent block oracle on every run.",
             note="I/O traces compared after coalescing adjacent ranges; requests are those seen above read_range; lru_cache semantics hand-modelled; blob backend executed against an in-memory stand-in only",
             technique="Coq proof over generated read plans and file-access census + I/O trace correspondence + block-set oracle"),
 'C14': dict(text="Coq theorems, for EVERY header and argument tuple: an argument outside the real extent makes the generated read method raise IndexError / WrongDim; a line number or sample coordinate that is not ON the axis (between two lines, before the first, after the last) is refused by every by-number / by-coordinate entry point before any loader call, for every axis (C14b, over coord_to_index and the entry points as GENERATED); in-range half is C02",
             note="guards are generated from read.py on every run; the cropper harness of C10 also runs under this property (a cropped file never declares padding lines or samples as real)",
             technique="Coq proof over generated guards + differential correspondence"),
 'C20': dict(text="Coq theorems, for every shape and blockshape: the concatenation of the byte strings the GENERATED producers pass to hash_object.update equals the serialisation of the source samples in trace order (NumPy, SEG-Y both readers, 2D), so the digest is independent of settings; one differing sample gives a different stream (collision of the abstract H otherwise); the digest is written/read at the generated offsets and the re-blocker's patches do not touch it.",
             note="SHA-1 abstract; hashlib streaming validated per case",
             technique="Coq proof (telescoping induction) over generated update slices + oracle sha1(source)"),
}
CLAIMS.update({
 'C08': dict(text="Coq theorems over a model of the irregular route (arithmetic GENERATED from InferredGeometry3d.get_range, unstructured_io_thread_func, make_header, the mask expressions): inferred axes are the true grid when every line carries a trace; every buffer cell holds the trace with those line numbers or zero; the i-th populated grid position (population mask from the stored inline array) is source trace i, so trace i / header i are the i-th source trace / header; tracefield grids have zeros at holes. Partial: D20 (inline number 0) and D27 (segyio takes some irregular surveys as regular) are known findings with boolean guards and refuted-witness theorems; bitwise equality of volume reads with the codec image is oracle + C01/C02.",
             note="segyio geometry inference is a hand model compared with segyio on every sample; codec abstract",
             technique="Coq proof (list induction, strictly increasing ordinal maps) over generated index arithmetic + oracle against segyio source"),
 'C09': dict(text="Coq theorems for every well-formed 2D header: read_subplane and get_trace (fast and general path) as GENERATED return exactly the specification decoder's cells and issue exactly the intersected blocks; the GENERATED 2D producer writes, at unit_index2 (xu,zu), the code of that unit of the section extended by replicating the last trace/sample; the 2D header is well-formed and states the truth; volume-style reads raise the dimensionality error.",
             note="2-D ZFP unit-locality validated per case; rates below 1 refused (D13 fix)",
             technique="Coq proof over generated reader and producer + correspondence + 2-D zfpy image oracle"),
 'C13': dict(text="Coq theorems relative to a hand model of segyio's Line/Sequence slicing (validated against segyio thousands of times per run): for every axis (either direction, any increment) and every slice of the documented grammar the emulator's key list, as GENERATED from accessors.py, equals segyio's (same lines, same order); ordinal slices, negative ordinals, len, iteration and rejection agree; subvolume[a:b:c] selects exactly range(a,b,c) in axis order on axes of either direction, bad bounds are rejected for both signs. Known findings D25, D24-table.",
             note="segyio represented by a validated hand model; values behind keys are C02/C04",
             technique="Coq proof (slice.indices / range arithmetic) over generated accessor code + program-grammar differential testing against segyio"),
})
CLAIMS.update({
 'C06': dict(text="Coq theorems over the export as GENERATED from convert_to_segy (spec fields, operation order, index expressions, format-code bytes, header overrides): trace i of the SEG-Y is get_trace(i) for regular, irregular and 2D files (order preserved); header i is the regenerated header with DelayRecordingTime from the first sample; the 3600 header bytes are the stored ones whatever segyio wrote before (overwrite-last lemma); spec axes are the SGZ axes; format code choice; the export neither depends on nor changes the converter object's state (C06a: header arrays reloaded after a padding-mode switch, header bytes restored). Partial: segyio's numerics (IEEE exact / IBM 2^-20) are a validated assumption; known findings D34 (extended textual headers), D35 (delay scaled by trace scalar).",
             note="segyio is a validated hand model; numeric clause checked on every sample, not proved; the scheduler harness of C16 (pipeline.py) also runs under this property (an exported file presupposes a complete converted file)",
             technique="Coq proof over generated export plan + byte-level correspondence + segyio round-trip oracle"),
 'C10': dict(text="Coq theorems for every well-formed source header and every box, over the cropper as GENERATED from cropping.py: exactly the out-of-range / empty / inverted / unsupported requests raise IndexError before the output is opened; a served crop is the request widened to block boundaries and clipped; every padded output voxel has the provenance of the corresponding source voxel (unit bytes copied from the specification position); the regenerated header states the box, is well-formed and describes the bytes that follow; footer entry (i,x) is source entry (i+i0,x+x0) with the stride the reader derives; for a ZGY-sourced file (double interval at 92:100 non-zero) the double start at 84:92 becomes exactly the source's sample coordinate at the crop start and the interval is kept, so the GENERATED reader's sample axis of the cropped file starts there (element k equal to the source's element z0+k over the rationals; bit equality is refuted with a binary64 witness). Known finding D7h (integer start time stored as whole ms).",
             note="decoded floats abstract; numpy reshape/slice indexing and struct.pack ranges hand-modelled",
             technique="Coq proof over generated cropper + correspondence of output bytes + restriction oracle"),
 'C15': dict(text="Coq theorems by induction over ANY history (any number of readers, emulators, opens/closes, any chunk-cache capacity >= 1, preload on/off): every cached value equals the pure function of its key (invariant), so the results of a history equal those of a memory-less machine; LRU tables never exceed capacity nor hold duplicate keys; seek-then-read makes the shared handle position irrelevant. Cache tables, keys (all start with self), clear lists and the attribute analysis of cached bodies are GENERATED from loader.py/read.py. C15a: over a static census, GENERATED from the source, of every attribute, class attribute, module global and shared default that each method of the 23 classes can write (transitively through the call graph), every public method writes only cache state covered by the soundness invariant or a listed exception with its evidence; hence for any finite sequence of public calls the non-cache state is what the constructor left (induction), and a result can depend on the history only through the caches; refuted-witness theorems for D45-D47.",
             note="method bodies abstract programs; their purity guarded by generator analysis, oracle and pins; no concurrency",
             technique="Coq proof (invariant by induction over operations) over generated cache tables + history differential testing against fresh readers"),
 'C16': dict(text="Coq theorems for EVERY n >= 1, every pair of queue capacities >= 1 and every schedule of the GENERATED thread programs (operation order extracted from compressor, writer, run_conversion_loop) under a small-step semantics of bounded FIFO queues with task_done/join: no deadlock, every execution has at most 8n+6 steps, at return the file is header, blocks 0..n-1 in order, flush, the file is always a prefix of it, and no thread has an enabled step after return.",
             note="queue.Queue/threading semantics is a hand model validated by replaying model schedules on the real code under a cooperative scheduler",
             technique="Coq proof (invariant + variant over an interleaving semantics) over generated thread programs + schedule replay on the real code"),
 'C19': dict(text="Coq theorems over define_blockshape* as GENERATED (exact rationals, explicit ZeroDivisionError), for ALL integer/float/string inputs: an accepted request is well-formed (rate in the 8 values, dims powers of two >= 4, first 1 in 2D, product x rate = 32768 bits) and keeps every fixed parameter; a request with a well-formed supported completion is accepted and returns the unique one; a refused request has none; the header written for an accepted configuration satisfies wf3/wf2 (the hypotheses of C01-C03). Known finding D13 (valid 2D settings below 1 bit are refused). C19c: a CLI invocation is the API call: for every assignment of the sgy2sgz options each value reaches its own keyword of SegyConverter(...) / run(...) unchanged (wiring GENERATED from cli.py), defaults are the API defaults, a malformed option calls nothing, and the setting is accepted / rejected / resolved by the same resolve as the API setting; all eight rates are reachable through the integer convention (-2, -4).",
             note="Q vs binary64 agreement checked on every correspondence case; run() ordering is an AST check + file oracle",
             technique="Coq proof over generated resolver + exhaustive-grid correspondence + conformance/fidelity oracle"),
})
CLAIMS.update({
 'C05': dict(text="Coq theorems: integer axes - for every start, non-zero step (either sign) and count whose values fit int32, the axis the GENERATED reader regenerates from the fields the GENERATED writer stores equals the source axis (two's-complement wrap explicit; unbounded, by arithmetic); counts, trace count, structured flag. Sample axis - binary64 modelled with Coq primitive floats: for EVERY interval 1..65535 us, EVERY start -32768..32767 ms and every length 2 <= n < 2^32 the interval and start are stored exactly and the regenerated samples are bit-equal to segyio's (Props/C05b.v: rounding-error analysis with Flocq over the standard library's axiomatisation of the primitive floats and the reals, all named in the evidence); the same on finite domains by axiom-free vm_compute sweeps (Props/C05.v). ZGY / VDS / SGZ-sourced files (Props/C05a.v): stored inline / crossline header grids for all axes, and which sample-axis branch the GENERATED reader takes and what it yields, for all binary64 values.",
             note="PrimFloat/Uint63 kernel primitives model binary64; C05b depends on Coq.Floats.FloatAxioms, Uint63 specs, the classical reals, classic and functional_extensionality_dep (standard-library axioms, listed by Print Assumptions); struct/numpy/segyio formula hand semantics",
             technique="Coq proof (modular arithmetic, unbounded; Flocq rounding-error analysis for the float fields) + finite-domain float sweeps by vm_compute + correspondence on float.hex literals"),
 'C11': dict(text="Coq theorems over the windowed converter as GENERATED (window acceptance, Geometry3d ranges, header allocation, make_header fields, io_thread_func / read_line index arithmetic): for every source size, every window 0 <= min < max <= n on both axes (ordinal 0 included), both SEG-Y readers and all detection modes, converting with the window yields the same container model (dims, origins, increments, trace count, header arrays entry by entry, every plane-set buffer cell, hashed rows) as converting the restricted source alone; guard tables_agree for heuristic detection (known finding D6-heuristic-detection-from-source-corners). C11c: the window the CLI hands to the converter is its four options (a bound of 0 is a bound; a partial window is no window), so the CLI route inherits the API theorem.",
             note="traces abstract; compression is C01; reduced-I/O self-test outcome is an input",
             technique="Coq proof (index arithmetic, induction over plane sets) over generated window code + file-identity oracle against the sub-cube conversion"),
 'C17': dict(text="Coq theorems for every read plan, fault assignment (exception / short / empty, any positions, any number) and completion order: if any range read is not delivered in full the call raises, otherwise the assembled buffer is the true one, independent of the order in which parallel reads complete (permutation lemma over disjoint in-bounds splices whose slots are the GENERATED expressions of the four fan-outs); both backends pass through the GENERATED length check; every future is collected; the slot conditions of the (N,N,4) fan-out follow from well-formedness of the header for the GENERATED byte counts (Props/C17a.v).",
             note="thread timing = arbitrary permutation of atomic slice assignments",
             technique="Coq proof over generated guard, wiring and slot expressions + exhaustive fault-position injection on the real code"),
 'C18': dict(text="Coq theorems for every crash point (any prefix of the GENERATED write order of both converters, with a partial last write) and every robust reader program: a range not wholly inside the partial file raises; bytes no pending write touches are final; so a read raises or returns what the complete file returns; the patched header bytes (count, table, hash) are used only by the three parsers named; thorough-mode table patches torn at row boundaries are refused or final. Known findings D40 (hash before its patch), D41 (table row torn inside a value).",
             note="crash point = prefix of program-order writes; OS write-back not modelled; the fault-injection harness of C17 (faults.py: short / empty / failing answers of the file and blob back ends, bounded and unbounded range requests) also runs under this property",
             technique="Coq proof over generated write order and header-slice users + truncation sweep of real files against the complete file"),
})
CLAIMS.update({
 'C12': dict(text="Coq theorems for every well-formed 2-bit default-layout source of any size, over the re-blocker as GENERATED from convert_to_adv_sgz (asserts, loop bounds, unit counts, seeks, slices, header patches, footer writes): every read lies inside the source data section (no short read, the staging buffer never shrinks); the bytes at unit_index3 of the 64x64x4 output are the source unit at unit_index3 of the 4x4x1024 input for every unit holding a real voxel, zero otherwise, so every real voxel has the same provenance in both files; only header bytes 44..59 change, the output header is well-formed and states the data section actually written; the footer is the source's arrays at the reader's stride, in header-word-table order whatever the same converter object was asked before (C12a: any sequence of earlier tracefield queries, an earlier export, either padding mode of the header memo; refuted-witness theorems for the unrepaired forms D45-D47); unsupported inputs raise before anything is written.",
             note="bytearray splice semantics and file reads hand-modelled; footer array contents abstract",
             technique="Coq proof (mixed-radix index arithmetic over splices) over generated re-blocker + byte-for-byte unit correspondence + read-method oracle"),
})
CLAIMS.update({
 'C04': dict(text="Coq theorems for every trace count, every header content and every ascending field list of 89 codes, over the header machinery as GENERATED from headers.py / conversion.py / conversion_utils.py / read.py: with exhaustive and thorough detection gen_trace_header(t)[f] equals the source for regular 3D, 2D and irregular files; with heuristic detection the same under exactly the property's hypothesis (boolean predicates), and a witness that the hypothesis is needed; strip reads zero; the 89x3 table codec round-trips; writer padding = reader stride and word t of array k lies in slot k; every trace's header is captured at its own index; bytes 4096..7695 are the first 3600 SEG-Y bytes; NumPy-route arrays read back as int32 of the value.",
             note="segyio's header parsing outside; dict/footer/capture loops hand-modelled over generated arithmetic",
             technique="Coq proof (association-list and loop invariants) over template-generated header logic + oracle against segyio on generated SEG-Y files"),
})
REASONS = {}
DEFAULT_REASON = "not yet covered by a theorem in this development (work in progress; will be claimed when its Props file exists)"


def main():
    ids = [json.loads(l)['id'] for l in open(os.path.join(VERIF, 'properties.jsonl'))]
    checks = []
    for pid in ids:
        if pid not in CLAIMS or pid not in PROPS:
            continue
        c = CLAIMS[pid]
        checks.append({
            'property_id': pid,
            'quick_cmd': f'python3 tools/run.py {pid} --tier quick',
            'thorough_cmd': f'python3 tools/run.py {pid} --tier thorough',
            'evidence_file': f'evidence/{pid}.json',
            'replay_cmd_template': f'python3 tools/run.py {pid} --replay {{path}}',
            'engine': 'coq-proof',
            'level_claimed': {'category': 'proof', 'text': c['text'], 'design_ref': f'DESIGN.md 7 {pid}'},
            'level_note': c['note'],
            'technique': c['technique'],
        })
    claimed = [c['property_id'] for c in checks]
    m = {
        'version': 1,
        'setup_cmd': 'make -C /verif setup',
        'hooks': {
            'guard': 'SEISMIC_ZFP_VERIF',
            'enable': 'no source hooks are needed: the harness observes the implementation through file objects, module globals and a pkg_resources wrapper in its own process; the guard variable is reserved and unused',
            'baseline_off_cmd': 'python3 /verif/tools/baseline.py /repo',
            'source_commits': [],
            'add_only': True,
        },
        'engines': [{
            'name': 'coq-proof', 'path': 'coq/', 'serves_properties': claimed,
            'kind_free_text': 'Coq 8.16.1 development: Gen/ regenerated from /repo by tools/gen.py (+ tools/genx_*.py plug-ins) on every run, Lib/Spec/Model/Proofs/Props hand-written; model executed for the correspondence checks by extraction (ocaml/) or vm_compute (tools/coqeval.py)',
        }],
        'checks': checks,
        'not_applicable': [{'property_id': pid, 'reason': REASONS.get(pid, DEFAULT_REASON)} for pid in ids if pid not in claimed],
        'notes': 'see DESIGN.md',
    }
    json.dump(m, open(os.path.join(VERIF, 'MANIFEST.json'), 'w'), indent=1)
    try:
        import jsonschema
        jsonschema.validate(m, json.load(open('/root/.vp/MANIFEST.schema.json')))
        print('manifest valid;', len(checks), 'checks')
    except ImportError:
        print('manifest written (jsonschema not available to validate);', len(checks), 'checks')


if __name__ == '__main__':
    main()
