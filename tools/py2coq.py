#!/usr/bin/env python3
"""py2coq -- fail-closed symbolic translator from a subset of Python (the arithmetic / dispatch skeleton of
seismic_zfp) to Gallina text written against coq/Lib/Py.v.

It is NOT a Python compiler.  It symbolically executes selected functions / methods over an abstract value
domain (integers and rationals as Coq Z terms, booleans, tuples, bytearrays assembled from range reads,
numpy arrays as `arrv` provenance arrays) and emits one Coq Definition per target.  Anything it does not
understand that could influence a result raises Fail (never a silent default).

Kinds of numbers.  Python decides int vs float dynamically and the difference is observable (a float used as a
slice bound raises TypeError).  A Num carries n/d (Coq Z terms, d = '1' for ints) and `fl`: False (int), True
(float) or a Coq bool term (float iff the term is true -- used for `rate`, which is an int when the header
field is >= 0 and a float otherwise).
"""
import ast, sys, os, re, textwrap, hashlib


class Fail(Exception):
    pass


# ------------------------------------------------------------------ values
class Num:
    def __init__(self, n, d='1', fl=False):
        self.n, self.d, self.fl = n, d, fl

    def is_int_term(self):
        return self.d == '1'


class Bool:
    def __init__(self, t):
        self.t = t


class Tup:
    def __init__(self, items):
        self.items = list(items)


class NoneV:
    pass


class Str:
    def __init__(self, s):
        self.s = s


class Arr:          # Coq term of type arrv
    def __init__(self, t):
        self.t = t


class Bytes:        # result of one range read of the data section: (offset, length)
    def __init__(self, off, ln):
        self.off, self.ln = off, ln


class Buf:          # bytearray(n) + slice assignments of range reads; reads = Coq term : list rd
    def __init__(self, ln, reads='[]'):
        self.ln, self.reads = ln, reads


class BufSlice:
    def __init__(self, buf, lo, hi):
        self.buf, self.lo, self.hi = buf, lo, hi


class ZerosFill:    # np.zeros(shape) + slice assignments of arrays; fills = Coq term : list (list sub * arrv)
    def __init__(self, shape, fills='[]'):
        self.shape, self.fills = shape, fills


class ArrView:      # target of cube[subs] passed to _decompress_into_array
    def __init__(self, var, subs):
        self.var, self.subs = var, subs


class Obj:
    def __init__(self, cls, attrs=None):
        self.cls, self.attrs = cls, (attrs if attrs is not None else {})


class Meth:
    def __init__(self, obj, name):
        self.obj, self.name = obj, name


class Future:
    def __init__(self, fid):
        self.fid = fid


class PyList:
    def __init__(self, items=None):
        self.items = items if items is not None else []


class Version:      # SeismicZfpVersion object, represented by its encoding
    def __init__(self, enc):
        self.enc = enc


class Opaque:       # a value we refuse to look into; using it fails
    def __init__(self, why):
        self.why = why


def paren(t):
    t = str(t)
    if re.fullmatch(r'[A-Za-z0-9_.\']+', t):
        return t
    if t.startswith('(') and t.endswith(')'):
        # check the outer parens match each other
        depth = 0
        for i, ch in enumerate(t):
            if ch == '(':
                depth += 1
            elif ch == ')':
                depth -= 1
                if depth == 0 and i != len(t) - 1:
                    break
        else:
            return t
    return '(' + t + ')'


def app(a, b):
    return b if a == '[]' else f'({a} ++ {b})'


def zlit(k):
    return str(k) if k >= 0 else f'({k})'


def mul(a, b):
    if a == '1':
        return b
    if b == '1':
        return a
    return f'({paren(a)} * {paren(b)})'


def is_lit(t):
    return re.fullmatch(r'\(?-?\d+\)?', t) is not None


def lit_val(t):
    return int(t.strip('()'))


def or_fl(a, b):
    if a is True or b is True:
        return True
    if a is False:
        return b
    if b is False:
        return a
    if a == b:
        return a
    return f'({a} || {b})'


# ------------------------------------------------------------------ translator
class Ctx:
    """Per-function translation context."""
    def __init__(self, tr, fname):
        self.tr, self.fname = tr, fname
        self.fresh = 0
        self.futures = {}       # fid -> checked?
        self.loopvars = []

    def newvar(self, base='v'):
        self.fresh += 1
        return f'{base}{self.fresh}'


class Translator:
    def __init__(self, srcdir):
        self.srcdir = srcdir
        self.mods = {}
        self.funcs = {}      # (module, qualname) -> FunctionDef
        self.classes = {}    # (module, cls) -> ClassDef
        self.hdr_fields = {}  # name -> (kind, offset)
        self.out = []
        self.hooks = {}      # (func qualname, source text of stmt/expr) -> handler
        self.consts = {}
        self.emitted = {}    # python qualname -> coq name (callable generated defs)
        self.sigs = {}       # coq name -> (list of param kinds, returns outcome?, ret kind)
        self.static_flags = {}

    # ---------- loading
    def load(self, modname):
        path = os.path.join(self.srcdir, modname + '.py')
        src = open(path).read()
        tree = ast.parse(src)
        self.mods[modname] = (src, tree)
        for node in tree.body:
            if isinstance(node, ast.FunctionDef):
                self.funcs[(modname, node.name)] = node
            elif isinstance(node, ast.ClassDef):
                self.classes[(modname, node.name)] = node
                for f in node.body:
                    if isinstance(f, ast.FunctionDef):
                        self.funcs[(modname, node.name + '.' + f.name)] = f
            elif isinstance(node, ast.Assign) and len(node.targets) == 1 and isinstance(node.targets[0], ast.Name) \
                    and isinstance(node.value, ast.Constant) and isinstance(node.value.value, int):
                self.consts[node.targets[0].id] = node.value.value
        return tree

    def src_of(self, modname, node):
        return ast.get_source_segment(self.mods[modname][0], node)

    def find_method(self, clsnames, name):
        for (m, q), f in self.funcs.items():
            if '.' in q:
                c, n = q.split('.')
                if n == name and c in clsnames:
                    return m, q, f
        raise Fail(f'method {name} not found in {clsnames}')

    # ---------- pins: hand-modelled functions whose source must not change
    def pin(self, modname, qualname):
        f = self.funcs.get((modname, qualname))
        if f is None:
            raise Fail(f'pin: {modname}.{qualname} not found')
        return hashlib.sha256(ast.dump(f, include_attributes=False).encode()).hexdigest()[:16]

    # ---------- numbers
    def num_const(self, k):
        if isinstance(k, bool):
            return Bool('true' if k else 'false')
        if isinstance(k, int):
            return Num(zlit(k))
        if isinstance(k, float):
            if k == int(k):
                return Num(zlit(int(k)), '1', True)
            # decimal literal -> exact rational of its decimal text is NOT its binary64 value; refuse
            raise Fail(f'non-integral float literal {k}')
        raise Fail(f'const {k!r}')

    def add(self, a, b, sign='+'):
        fl = or_fl(a.fl, b.fl)
        if a.d == b.d:
            return Num(f'({paren(a.n)} {sign} {paren(b.n)})', a.d, fl)
        return Num(f'({mul(a.n, b.d)} {sign} {mul(b.n, a.d)})', mul(a.d, b.d), fl)

    def mulv(self, a, b):
        return Num(mul(a.n, b.n), mul(a.d, b.d), or_fl(a.fl, b.fl))

    def floordiv(self, a, b):
        # floor((an/ad) / (bn/bd)) = floor(an*bd / (ad*bn)); result is integral; float iff an operand is float
        return Num(f'({paren(mul(a.n, b.d))} / {paren(mul(a.d, b.n))})', '1', or_fl(a.fl, b.fl))

    def truediv(self, a, b):
        return Num(mul(a.n, b.d), mul(a.d, b.n), True)

    def mod(self, a, b):
        if a.d != '1' or b.d != '1':
            raise Fail('mod on non-integers')
        return Num(f'({paren(a.n)} mod {paren(b.n)})', '1', or_fl(a.fl, b.fl))

    def neg(self, a):
        if is_lit(a.n):
            return Num(zlit(-lit_val(a.n)), a.d, a.fl)
        return Num(f'(- {paren(a.n)})', a.d, a.fl)

    def to_int(self, a):
        # int(x): truncation toward zero
        if a.d == '1':
            return Num(a.n, '1', False)
        return Num(f'(Z.quot {paren(a.n)} {paren(a.d)})', '1', False)

    def cmp(self, op, a, b):
        # assumes positive denominators (recorded in the trusted base)
        l, r = (a.n, b.n) if a.d == b.d else (mul(a.n, b.d), mul(b.n, a.d))
        sym = {'Lt': '<?', 'LtE': '<=?', 'Gt': '>?', 'GtE': '>=?', 'Eq': '=?'}
        if op == 'NotEq':
            return Bool(f'(negb ({paren(l)} =? {paren(r)}))')
        return Bool(f'({paren(l)} {sym[op]} {paren(r)})')

    def as_index(self, v, what='index'):
        """An integer usable as index / slice bound / range argument.  Returns (term, typeerr_guard or None)."""
        if not isinstance(v, Num):
            raise Fail(f'{what}: not a number ({type(v).__name__})')
        if v.d != '1':
            raise Fail(f'{what}: non-integral rational')
        if v.fl is True:
            raise Fail(f'{what}: float-kinded value used as index (always TypeError)')
        g = None if v.fl is False else v.fl
        if g is not None and getattr(self, 'cur_cx', None) is not None and \
                getattr(self.cur_cx, 'assume', {}).get(g) is False:
            g = None
        return v.n, g

    # ---------- expression evaluation
    def ev(self, e, env, cx):
        m = getattr(self, 'ev_' + type(e).__name__, None)
        if m is None:
            raise Fail(f'{cx.fname}: expression {type(e).__name__} unsupported: {ast.dump(e)[:120]}')
        return m(e, env, cx)

    def ev_Constant(self, e, env, cx):
        if e.value is None:
            return NoneV()
        if isinstance(e.value, str):
            return Str(e.value)
        return self.num_const(e.value)

    def ev_Name(self, e, env, cx):
        if e.id in env:
            return env[e.id]
        if e.id in self.consts:
            return Num(zlit(self.consts[e.id]))
        raise Fail(f'{cx.fname}: unbound name {e.id}')

    def ev_Tuple(self, e, env, cx):
        return Tup([self.ev(x, env, cx) for x in e.elts])

    def ev_List(self, e, env, cx):
        return PyList([self.ev(x, env, cx) for x in e.elts])

    def ev_Attribute(self, e, env, cx):
        base = self.ev(e.value, env, cx)
        if isinstance(base, Obj):
            if e.attr in base.attrs:
                return base.attrs[e.attr]
            return Meth(base, e.attr)
        if isinstance(base, Version) and e.attr == 'encoding':
            return Num(base.enc)
        raise Fail(f'{cx.fname}: attribute {e.attr} of {type(base).__name__}')

    def ev_UnaryOp(self, e, env, cx):
        v = self.ev(e.operand, env, cx)
        if isinstance(e.op, ast.USub):
            return self.neg(self.need_num(v, cx))
        if isinstance(e.op, ast.Not):
            t = self.truth(v, cx)
            if t in ('true', 'false'):
                return Bool('false' if t == 'true' else 'true')
            return Bool(f'(negb {paren(t)})')
        raise Fail('unary op')

    def need_num(self, v, cx):
        if isinstance(v, Num):
            return v
        raise Fail(f'{cx.fname}: number expected, got {type(v).__name__}' + (f' ({v.why})' if isinstance(v, Opaque) else ''))

    def truth(self, v, cx):
        t = self.truth0(v, cx)
        asm = getattr(cx, 'assume', {})
        if t in asm:
            return 'true' if asm[t] else 'false'
        m = re.fullmatch(r'\(negb (.*)\)', t, re.S)
        if m:
            inner = m.group(1)
            for cand in (inner, inner[1:-1] if inner.startswith('(') else inner, '(' + inner + ')'):
                if cand in asm:
                    return 'false' if asm[cand] else 'true'
        return t

    def truth0(self, v, cx):
        if isinstance(v, Bool):
            return v.t
        if isinstance(v, Num):
            return f'(negb ({paren(v.n)} =? 0))'
        if isinstance(v, NoneV):
            return 'false'
        raise Fail(f'{cx.fname}: truth value of {type(v).__name__}')

    def ev_BoolOp(self, e, env, cx):
        vals = [self.truth(self.ev(x, env, cx), cx) for x in e.values]
        isand = isinstance(e.op, ast.And)
        absorbing, neutral = ('false', 'true') if isand else ('true', 'false')
        # Python short-circuits left to right; all operands here are effect-free, so folding is exact
        out = []
        for v in vals:
            if v == absorbing:
                out.append(v)
                break
            if v != neutral:
                out.append(v)
        if not out:
            return Bool(neutral)
        if out[-1] == absorbing and len(out) == 1:
            return Bool(absorbing)
        if len(out) == 1:
            return Bool(out[0])
        op = ' && ' if isand else ' || '
        return Bool('(' + op.join(paren(v) for v in out) + ')')

    def ev_BinOp(self, e, env, cx):
        a, b = self.ev(e.left, env, cx), self.ev(e.right, env, cx)
        if isinstance(a, Tup) and isinstance(b, Tup) and isinstance(e.op, ast.Add):
            return Tup(a.items + b.items)
        a, b = self.need_num(a, cx), self.need_num(b, cx)
        if isinstance(e.op, ast.Add):
            return self.add(a, b, '+')
        if isinstance(e.op, ast.Sub):
            return self.add(a, b, '-')
        if isinstance(e.op, ast.Mult):
            return self.mulv(a, b)
        if isinstance(e.op, ast.FloorDiv):
            return self.floordiv(a, b)
        if isinstance(e.op, ast.Div):
            return self.truediv(a, b)
        if isinstance(e.op, ast.Mod):
            return self.mod(a, b)
        raise Fail(f'binop {type(e.op).__name__}')

    def ev_Compare(self, e, env, cx):
        left = self.ev(e.left, env, cx)
        parts = []
        for op, right in zip(e.ops, e.comparators):
            r = self.ev(right, env, cx)
            opn = type(op).__name__
            if opn in ('Is', 'IsNot'):
                if not isinstance(r, NoneV):
                    raise Fail('is: only None')
                isnone = isinstance(left, NoneV)
                parts.append('true' if (isnone == (opn == 'Is')) else 'false')
            elif isinstance(left, Version) and isinstance(r, Version):
                parts.append(self.cmp(opn, Num(left.enc), Num(r.enc)).t)
            elif isinstance(left, Tup) and isinstance(r, Tup) and opn in ('Eq', 'NotEq'):
                if len(left.items) != len(r.items):
                    parts.append('false' if opn == 'Eq' else 'true')
                else:
                    eqs = ' && '.join(paren(self.cmp('Eq', self.need_num(x, cx), self.need_num(y, cx)).t)
                                      for x, y in zip(left.items, r.items))
                    parts.append(f'({eqs})' if opn == 'Eq' else f'(negb ({eqs}))')
            elif isinstance(left, Bool) and isinstance(r, Bool) and opn == 'Eq':
                parts.append(f'(Bool.eqb {paren(left.t)} {paren(r.t)})')
            else:
                parts.append(self.cmp(opn, self.need_num(left, cx), self.need_num(r, cx)).t)
            left = r
        if len(parts) == 1:
            return Bool(parts[0])
        return Bool('(' + ' && '.join(paren(p) for p in parts) + ')')

    def ev_IfExp(self, e, env, cx):
        c = self.ev(e.test, env, cx)
        # static resolution on None tests
        ct = self.truth(c, cx)
        if ct == 'true':
            return self.ev(e.body, env, cx)
        if ct == 'false':
            return self.ev(e.orelse, env, cx)
        a, b = self.ev(e.body, env, cx), self.ev(e.orelse, env, cx)
        return self.merge(ct, a, b, cx)

    def merge(self, c, a, b, cx):
        """value of `a if c else b`"""
        if type(a) != type(b):
            raise Fail(f'{cx.fname}: cannot merge {type(a).__name__} with {type(b).__name__}')
        if isinstance(a, Num):
            if a.n == b.n and a.d == b.d and a.fl == b.fl:
                return a
            n = a.n if a.n == b.n else f'(if {c} then {a.n} else {b.n})'
            d = a.d if a.d == b.d else f'(if {c} then {a.d} else {b.d})'
            if a.fl == b.fl:
                fl = a.fl
            else:
                fa = {True: 'true', False: 'false'}.get(a.fl, a.fl)
                fb = {True: 'true', False: 'false'}.get(b.fl, b.fl)
                fl = f'(if {c} then {fa} else {fb})'
            return Num(n, d, fl)
        if isinstance(a, Bool):
            return a if a.t == b.t else Bool(f'(if {c} then {a.t} else {b.t})')
        if isinstance(a, Tup):
            if len(a.items) != len(b.items):
                raise Fail('merge tuples of different length')
            return Tup([self.merge(c, x, y, cx) for x, y in zip(a.items, b.items)])
        if isinstance(a, Arr):
            return a if a.t == b.t else Arr(f'(if {c} then {a.t} else {b.t})')
        if isinstance(a, NoneV):
            return a
        if isinstance(a, Obj):
            keys = list(a.attrs) + [k_ for k_ in b.attrs if k_ not in a.attrs]
            out = {}
            for k in keys:
                if k in a.attrs and k in b.attrs:
                    try:
                        out[k] = self.merge(c, a.attrs[k], b.attrs[k], cx)
                    except Fail as ex:
                        out[k] = Opaque(str(ex))
                else:
                    out[k] = Opaque('defined on one branch only')
            cls = a.cls if a.cls == b.cls else tuple(sorted(set(
                (a.cls if isinstance(a.cls, tuple) else (a.cls,)) + (b.cls if isinstance(b.cls, tuple) else (b.cls,)))))
            return Obj(cls, out)
        if isinstance(a, Version):
            return a if a.enc == b.enc else Version(f'(if {c} then {a.enc} else {b.enc})')
        if isinstance(a, Opaque):
            return a
        raise Fail(f'{cx.fname}: merge of {type(a).__name__}')

    def sub_of(self, s, env, cx, guards):
        """numpy / bytes subscript element -> Coq `sub` term"""
        if isinstance(s, ast.Slice):
            if s.step is not None:
                raise Fail('slice step')
            if s.lower is None and s.upper is None:
                return 'SFull'
            lo = self.ev(s.lower, env, cx) if s.lower is not None else Num('0')
            if s.upper is None:
                raise Fail('open upper slice bound')
            hi = self.ev(s.upper, env, cx)
            lt, g1 = self.as_index(lo, 'slice bound')
            ht, g2 = self.as_index(hi, 'slice bound')
            for g in (g1, g2):
                if g is not None:
                    guards.append(g)
            return f'SRng {paren(lt)} {paren(ht)}'
        v = self.ev(s, env, cx)
        t, g = self.as_index(v)
        if g is not None:
            guards.append(g)
        return f'SIdx {paren(t)}'

    def ev_Subscript(self, e, env, cx):
        base = self.ev(e.value, env, cx)
        if isinstance(base, (Tup, PyList)):
            if isinstance(e.slice, ast.Constant) and isinstance(e.slice.value, int):
                return base.items[e.slice.value]
            if isinstance(e.slice, ast.UnaryOp) and isinstance(e.slice.op, ast.USub) and \
                    isinstance(e.slice.operand, ast.Constant):
                return base.items[-e.slice.operand.value]
            raise Fail(f'{cx.fname}: non-constant tuple index')
        if isinstance(base, Arr):
            elts = e.slice.elts if isinstance(e.slice, ast.Tuple) else [e.slice]
            guards = []
            subs = [self.sub_of(s, env, cx, guards) for s in elts]
            v = cx.newvar('a')
            cx.pending.append(('bind', v, f'a_slice {paren(base.t)} [{"; ".join(subs)}]', guards))
            return Arr(v)
        if isinstance(base, Bytes):
            if not isinstance(e.slice, ast.Slice) or e.slice.step is not None:
                raise Fail('bytes index')
            lo = self.ev(e.slice.lower, env, cx)
            hi = self.ev(e.slice.upper, env, cx)
            lot, g1 = self.as_index(lo, 'bytes slice bound')
            hit, g2 = self.as_index(hi, 'bytes slice bound')
            for g in (g1, g2):
                if g is not None:
                    cx.pending.append(('guard', g))
            # a sub-range of one range read: recorded as a read of exactly those bytes (I/O traces are compared
            # after coalescing adjacent ranges, see DESIGN.md)
            return Bytes(f'({base.off} + {paren(lot)})', f'({paren(hit)} - {paren(lot)})')
        if isinstance(base, Buf):
            if not isinstance(e.slice, ast.Slice):
                raise Fail('buffer index')
            lo = self.ev(e.slice.lower, env, cx)
            hi = self.ev(e.slice.upper, env, cx)
            return BufSlice(base, lo, hi)
        if isinstance(base, ZerosFill):
            # a view used as output target: handled by the caller (must be a Name)
            raise Fail('view of zeros-array outside _decompress_into_array')
        raise Fail(f'{cx.fname}: subscript of {type(base).__name__}')

    def ev_Call(self, e, env, cx):
        f = e.func
        # --- builtins and known library calls, by syntactic name
        if isinstance(f, ast.Name):
            name = f.id
            if name in ('min', 'max') and len(e.args) == 2:
                a, b = [self.need_num(self.ev(x, env, cx), cx) for x in e.args]
                if a.d != '1' or b.d != '1':
                    raise Fail('min/max of rationals')
                return Num(f'(Z.{name} {paren(a.n)} {paren(b.n)})', '1', or_fl(a.fl, b.fl))
            if name == 'abs':
                a = self.need_num(self.ev(e.args[0], env, cx), cx)
                if a.d != '1':
                    raise Fail('abs of rational')
                return Num(f'(Z.abs {paren(a.n)})', '1', a.fl)
            if name == 'int':
                return self.to_int(self.need_num(self.ev(e.args[0], env, cx), cx))
            if name == 'len':
                v = self.ev(e.args[0], env, cx)
                if isinstance(v, (Tup, PyList)):
                    return Num(str(len(v.items)))
                if isinstance(v, Buf):
                    return v.ln
                raise Fail(f'len of {type(v).__name__}')
            if name == 'tuple':
                return self.ev_tuple_call(e, env, cx)
            if name == 'bytearray' and len(e.args) == 1:
                n = self.need_num(self.ev(e.args[0], env, cx), cx)
                t, g = self.as_index(n, 'bytearray size')
                if g is not None:
                    cx.pending.append(('guard', g))
                return Buf(Num(t))
            if name == 'bytes' and len(e.args) == 1:
                return self.ev(e.args[0], env, cx)
            if name == 'pad':
                return self.call_generated('utils', 'pad', [self.ev(a, env, cx) for a in e.args], cx)
            if name in ('get_correlated_diagonal_length', 'get_anticorrelated_diagonal_length',
                        'get_chunk_cache_size'):
                return self.call_generated('utils', name, [self.ev(a, env, cx) for a in e.args], cx)
            if name in ('bytes_to_int', 'bytes_to_signed_int', 'bytes_to_double'):
                return self.header_field(name, e.args[0], env, cx)
            if name == 'SeismicZfpVersion':
                return self.version_ctor(e.args[0], env, cx)
            if name == 'isinstance':
                raise Fail('isinstance')
            if name in env and isinstance(env[name], Meth):
                return self.call_method(env[name], e, env, cx)
            h = self.hooks.get(('call', name))
            if h:
                return h(self, e, env, cx)
            raise Fail(f'{cx.fname}: call to {name}')
        if isinstance(f, ast.Attribute):
            # np.squeeze / np.zeros
            if isinstance(f.value, ast.Name) and f.value.id == 'np':
                if f.attr == 'squeeze':
                    a = self.ev(e.args[0], env, cx)
                    if not isinstance(a, Arr):
                        raise Fail('squeeze of non-array')
                    return Arr(f'(a_squeeze {paren(a.t)})')
                if f.attr == 'zeros':
                    shp = self.ev(e.args[0], env, cx)
                    if not isinstance(shp, Tup):
                        raise Fail('np.zeros shape')
                    dims = []
                    for d in shp.items:
                        t, g = self.as_index(d, 'np.zeros dimension')
                        if g is not None:
                            cx.pending.append(('guard', g))
                        dims.append(t)
                    return ZerosFill(dims)
                raise Fail(f'np.{f.attr}')
            if isinstance(f.value, ast.Name) and f.value.id in ('cf', 'psutil'):
                return Opaque(f'{f.value.id}.{f.attr}')
            base = self.ev(f.value, env, cx)
            if isinstance(base, Meth):
                raise Fail('call on method object')
            if isinstance(base, Obj):
                return self.call_method(Meth(base, f.attr), e, env, cx)
            if isinstance(base, Opaque) or isinstance(base, Future) or isinstance(base, PyList):
                return self.call_special(base, f.attr, e, env, cx)
            if isinstance(base, Arr) and f.attr == 'astype':
                return base
            raise Fail(f'{cx.fname}: call .{f.attr} on {type(base).__name__}')
        raise Fail(f'{cx.fname}: call form')

    def ev_tuple_call(self, e, env, cx):
        a = e.args[0]
        # tuple(map(floordiv, X, Y))
        if isinstance(a, ast.Call) and isinstance(a.func, ast.Name) and a.func.id == 'map' and \
                isinstance(a.args[0], ast.Name) and a.args[0].id == 'floordiv':
            x, y = self.ev(a.args[1], env, cx), self.ev(a.args[2], env, cx)
            return Tup([self.floordiv(p, q) for p, q in zip(x.items, y.items)])
        # tuple(expr for a, b in zip(X, Y))
        if isinstance(a, ast.GeneratorExp) and len(a.generators) == 1:
            g = a.generators[0]
            if isinstance(g.iter, ast.Call) and isinstance(g.iter.func, ast.Name) and g.iter.func.id == 'zip' \
                    and not g.ifs and isinstance(g.target, ast.Tuple):
                seqs = [self.ev(s, env, cx) for s in g.iter.args]
                n = min(len(s.items) for s in seqs)
                out = []
                for i in range(n):
                    env2 = dict(env)
                    for t, s in zip(g.target.elts, seqs):
                        env2[t.id] = s.items[i]
                    out.append(self.ev(a.elt, env2, cx))
                return Tup(out)
        raise Fail('tuple(...) form')

    def header_field(self, fn, arg, env, cx):
        # bytes_to_int(self.headerbytes[a:b]) -> record field of hdr
        if not (isinstance(arg, ast.Subscript) and isinstance(arg.value, ast.Attribute)
                and arg.value.attr == 'headerbytes' and isinstance(arg.slice, ast.Slice)):
            raise Fail(f'{cx.fname}: {fn} of something that is not self.headerbytes[a:b]')
        lo = self.ev(arg.slice.lower, env, cx)
        hi = self.ev(arg.slice.upper, env, cx)
        if not (is_lit(lo.n) and is_lit(hi.n)):
            raise Fail('header field bounds not constant')
        lo, hi = lit_val(lo.n), lit_val(hi.n)
        kind = {'bytes_to_int': 'u', 'bytes_to_signed_int': 'i', 'bytes_to_double': 'd'}[fn]
        width = hi - lo
        if (kind == 'd' and width != 8) or (kind in 'ui' and width not in (2, 4)):
            raise Fail('header field width')
        name = f'h_{kind}{width * 8}_{lo}'
        self.hdr_fields[name] = (kind, lo, width)
        if kind == 'd':
            return Opaque('double header field')
        return Num(f'({name} H)')

    def version_ctor(self, arg, env, cx):
        if isinstance(arg, ast.Constant) and isinstance(arg.value, str):
            parts = arg.value.replace('rc', '.rc').split('.')
            mj, mn, pt = int(parts[0]), int(parts[1]), int(parts[2])
            dev = 'true' if len(parts) > 3 else 'false'
            return Version(f'(version_to_encoding {mj} {mn} {pt} {dev})')
        v = self.ev(arg, env, cx)
        if isinstance(v, Num):
            # int constructor followed by to_encoding: proved to be the identity in Proofs/Version.v for valid encodings;
            # the generated reader keeps the explicit composition
            return Version(f'(version_reencode {paren(v.n)})')
        raise Fail('SeismicZfpVersion argument')

    # ---------- calls to generated definitions / methods
    def call_generated(self, mod, name, args, cx):
        coq = self.emitted.get((mod, name))
        if coq is None:
            raise Fail(f'{cx.fname}: call to {mod}.{name} which has not been translated yet')
        params, is_outcome, ret = self.sigs[coq]
        ts = []
        for a in args:
            if not isinstance(a, Num) or a.d != '1':
                raise Fail(f'{cx.fname}: non-integer argument to {name}')
            ts.append(paren(a.n))
        fl = False
        for a in args:
            fl = or_fl(fl, a.fl)
        return Num(f'({coq} {" ".join(ts)})', '1', fl)

    def arg_terms(self, vals, cx):
        ts = []
        for a in vals:
            if isinstance(a, Num):
                t, g = self.as_index(a, 'argument')
                if g is not None:
                    cx.pending.append(('guard', g))
                ts.append(paren(t))
            elif isinstance(a, Bool):
                ts.append(paren(a.t))
            elif isinstance(a, Tup):
                ts.extend(self.arg_terms(a.items, cx))
            elif isinstance(a, NoneV):
                ts.append('None')
            else:
                raise Fail(f'{cx.fname}: argument kind {type(a).__name__}')
        return ts

    def call_method(self, m, e, env, cx):
        obj, name = m.obj, m.name
        h = self.hooks.get(('method', name))
        if h and getattr(h, 'lazy', False):
            return h(self, obj, None, None, e, env, cx)
        args = [self.ev(a, env, cx) for a in e.args]
        kw = {k.arg: self.ev(k.value, env, cx) for k in e.keywords}
        if h:
            return h(self, obj, args, kw, e, env, cx)
        key = ('method', name)
        if key in self.emitted:
            coq = self.emitted[key]
            params, is_outcome, ret = self.sigs[coq]
            # order keyword args by the python signature
            pyparams, defaults = self.method_params[name]
            full = list(args)
            for p in pyparams[len(args):]:
                if p in kw:
                    full.append(kw[p])
                elif p in defaults:
                    full.append(defaults[p])
                else:
                    raise Fail(f'{cx.fname}: missing argument {p} in call to {name}')
            ts = self.opt_arg_terms(full, params, cx)
            call = f'{coq} H {" ".join(ts)}'.strip()
            if is_outcome:
                v = cx.newvar('r')
                cx.pending.append(('bind', v, call, []))
                return self.wrap_ret(ret, v)
            return self.wrap_ret(ret, f'({call})')
        raise Fail(f'{cx.fname}: call to method {name} which has not been translated')

    def opt_arg_terms(self, vals, kinds, cx):
        ts = []
        for a, k in zip(vals, kinds):
            if k == 'optZ':
                if isinstance(a, NoneV):
                    ts.append('None')
                elif isinstance(a, OptNum):
                    ts.append(paren(a.t))
                else:
                    t, g = self.as_index(a, 'argument')
                    if g is not None:
                        cx.pending.append(('guard', g))
                    ts.append(f'(Some {paren(t)})')
            else:
                ts.extend(self.arg_terms([a], cx))
        return ts

    def wrap_ret(self, ret, t):
        if ret == 'arr':
            return Arr(t)
        if ret == 'Z':
            return Num(t)
        if ret == 'bool':
            return Bool(t)
        if ret == 'unit':
            return NoneV()
        raise Fail(f'return kind {ret}')

    def call_special(self, base, attr, e, env, cx):
        if isinstance(base, PyList) and attr == 'append':
            base.items.append(self.ev(e.args[0], env, cx))
            return NoneV()
        if isinstance(base, Future) and attr == 'result':
            cx.futures[base.fid] = True
            return NoneV()
        if isinstance(base, Opaque) and attr == 'submit':
            # executor.submit(fn, *args): the call happens (inline); its exception is stored in the future
            fn = self.ev(e.args[0], env, cx)
            if not isinstance(fn, Meth):
                raise Fail('submit of non-method')
            fake = ast.Call(func=None, args=e.args[1:], keywords=[])
            self.call_method(fn, fake, env, cx)
            fid = len(cx.futures)
            cx.futures[fid] = False
            return Future(fid)
        raise Fail(f'{cx.fname}: .{attr} on {type(base).__name__}')

    # ---------- statements (continuation style; returns a Coq term of type `outcome T`)
    def ex(self, stmts, env, cx, k):
        if not stmts:
            return k(env)
        st, rest = stmts[0], stmts[1:]
        cx.pending = []
        self.cur_cx = cx
        m = getattr(self, 'st_' + type(st).__name__, None)
        if m is None:
            raise Fail(f'{cx.fname}: statement {type(st).__name__} unsupported')
        return m(st, rest, env, cx, k)

    def flush(self, cx, term_thunk):
        """wrap the continuation's term with the binds / guards the current statement's expressions requested"""
        pend = cx.pending
        cx.pending = []
        t = term_thunk()
        for p in reversed(pend):
            if p[0] == 'bind':
                _, v, call, guards = p
                t = f'bind ({call}) (fun {v} =>\n{t})'
                for g in guards:
                    t = f'if {g} then Raise TypeErr else\n{t}'
            elif p[0] == 'guard':
                t = f'if {p[1]} then Raise TypeErr else\n{t}'
        return t

    def st_Expr(self, st, rest, env, cx, k):
        if isinstance(st.value, ast.Constant):
            return self.ex(rest, env, cx, k)          # docstring
        if isinstance(st.value, ast.Call):
            fn = st.value.func
            if isinstance(fn, ast.Name) and fn.id == 'print':
                return self.ex(rest, env, cx, k)
            if isinstance(fn, ast.Attribute) and isinstance(fn.value, ast.Attribute) and fn.value.attr == 'file' \
                    and fn.attr == 'seek':
                return self.ex(rest, env, cx, k)      # file.seek(0) at open
            self.ev(st.value, env, cx)
            return self.flush(cx, lambda: self.ex(rest, env, cx, k))
        raise Fail(f'{cx.fname}: expression statement')

    def st_Pass(self, st, rest, env, cx, k):
        return self.ex(rest, env, cx, k)

    def st_Assert(self, st, rest, env, cx, k):
        c = self.truth(self.ev(st.test, env, cx), cx)
        return self.flush(cx, lambda: f'if negb {paren(c)} then Raise AssertErr else\n{self.ex(rest, env, cx, k)}')

    def st_Raise(self, st, rest, env, cx, k):
        exc = st.exc
        name = exc.func.id if isinstance(exc, ast.Call) else exc.id
        m = {'IndexError': 'IndexErr', 'WrongDimensionalityError': 'WrongDim', 'ValueError': 'ValueErr',
             'RuntimeError': 'RuntimeErr', 'TypeError': 'TypeErr', 'NotImplementedError': 'OtherErr',
             'ImportError': 'OtherErr', 'FileNotFoundError': 'IOErr'}
        if name not in m:
            raise Fail(f'raise {name}')
        return f'Raise {m[name]}'

    def st_Return(self, st, rest, env, cx, k):
        if st.value is None:
            v = NoneV()
        else:
            v = self.ev(st.value, env, cx)
        return self.flush(cx, lambda: cx.ret(v))

    def st_With(self, st, rest, env, cx, k):
        for item in st.items:
            if item.optional_vars is not None:
                env = dict(env)
                env[item.optional_vars.id] = Opaque('context manager')
        return self.ex(list(st.body) + list(rest), env, cx, k)

    @staticmethod
    def has_exit(stmts):
        for st in stmts:
            for n in ast.walk(st):
                if isinstance(n, (ast.Return, ast.Raise, ast.Assert)):
                    return True
        return False

    @staticmethod
    def terminates(stmts):
        if not stmts:
            return False
        last = stmts[-1]
        if isinstance(last, (ast.Return, ast.Raise)):
            return True
        if isinstance(last, ast.If):
            return Translator.terminates(last.body) and Translator.terminates(last.orelse)
        return False

    def st_If(self, st, rest, env, cx, k):
        h = self.hooks.get(('if', cx.fname, ast.unparse(st.test)))
        if h:
            return h(self, st, rest, env, cx, k)
        c = self.truth(self.ev(st.test, env, cx), cx)
        pend = cx.pending
        cx.pending = []
        if c == 'true':
            body = lambda: self.ex(list(st.body) + list(rest), env, cx, k)
        elif c == 'false':
            body = lambda: self.ex(list(st.orelse) + list(rest), env, cx, k)
        elif not self.has_exit(st.body) and not self.has_exit(st.orelse):
            # merge style: run both branches on copies, merge every variable / attribute that differs
            def body():
                ea, eb = self.copy_env(env), self.copy_env(env)
                hole = lambda e_: '@HOLE@'
                ta = self.with_assume(cx, c, True, lambda: self.ex(list(st.body), ea, cx, hole))
                tb = self.with_assume(cx, c, False, lambda: self.ex(list(st.orelse), eb, cx, hole))
                if ta != '@HOLE@' or tb != '@HOLE@':
                    # branches need binds/guards: fall back to duplicating the continuation
                    a = self.with_assume(cx, c, True, lambda: self.ex(list(st.body) + list(rest), self.copy_env(env), cx, k))
                    b = self.with_assume(cx, c, False, lambda: self.ex(list(st.orelse) + list(rest), self.copy_env(env), cx, k))
                    return a if a == b else f'if {c} then\n{a}\nelse\n{b}'
                merged = {}
                for name in list(ea) + [n_ for n_ in eb if n_ not in ea]:
                    if name in ea and name in eb:
                        try:
                            merged[name] = self.merge(c, ea[name], eb[name], cx)
                        except Fail as ex_:
                            merged[name] = Opaque(str(ex_))
                    else:
                        merged[name] = Opaque('assigned on one branch only')
                env.clear()
                env.update(merged)
                return self.ex(rest, env, cx, k)
        else:
            def body():
                a = self.with_assume(cx, c, True, lambda: self.ex(list(st.body) + list(rest), self.copy_env(env), cx, k))
                b = self.with_assume(cx, c, False, lambda: self.ex(list(st.orelse) + list(rest), self.copy_env(env), cx, k))
                if a == b:
                    return a
                return f'if {c} then\n{a}\nelse\n{b}'
        cx.pending = pend
        return self.flush(cx, body)

    def with_assume(self, cx, c, val, thunk):
        if not hasattr(cx, 'assume'):
            cx.assume = {}
        had = c in cx.assume
        old = cx.assume.get(c)
        cx.assume[c] = val
        try:
            return thunk()
        finally:
            if had:
                cx.assume[c] = old
            else:
                del cx.assume[c]

    def copy_env(self, env):
        out = {}
        for k, v in env.items():
            if isinstance(v, Obj):
                v = Obj(v.cls, dict(v.attrs))
            elif isinstance(v, PyList):
                v = PyList(list(v.items))
            out[k] = v
        return out

    def assign(self, target, v, env, cx):
        if isinstance(target, ast.Name):
            env[target.id] = v
            return
        if isinstance(target, ast.Tuple):
            if not isinstance(v, Tup) or len(v.items) != len(target.elts):
                raise Fail(f'{cx.fname}: tuple unpacking')
            for t, x in zip(target.elts, v.items):
                self.assign(t, x, env, cx)
            return
        if isinstance(target, ast.Attribute):
            base = self.ev(target.value, env, cx)
            if isinstance(base, Obj):
                base.attrs[target.attr] = v
                return
        if isinstance(target, ast.Subscript) and isinstance(target.value, ast.Name):
            name = target.value.id
            base = env.get(name)
            if isinstance(base, Buf):
                # buffer[a:b] = <bytes of one range read>  |  buffer[a:b] = other_buffer[c:d]
                lo = self.ev(target.slice.lower, env, cx)
                hi = self.ev(target.slice.upper, env, cx)
                lot, g = self.as_index(lo, 'buffer slice bound')
                if g is not None:
                    cx.pending.append(('guard', g))
                hit, g = self.as_index(hi, 'buffer slice bound')
                if g is not None:
                    cx.pending.append(('guard', g))
                if isinstance(v, Bytes):
                    # the slice length hi-lo and the read length agree when the read is complete;
                    # a short read is rejected by the length check (fix D10) -- the model keeps the requested length
                    env[name] = Buf(base.ln, app(base.reads, f'[({v.off}, {v.ln}, {lot})]'))
                    cx.slice_lens.append((f'({hit} - {lot})', v.ln))
                    return
                if isinstance(v, BufSlice):
                    slo, _ = self.as_index(v.lo, 'buffer slice bound')
                    shi, _ = self.as_index(v.hi, 'buffer slice bound')
                    env[name] = Buf(base.ln, f'({base.reads} ++ reslice {v.buf.reads} {paren(slo)} {paren(shi)} {paren(lot)})')
                    return
                raise Fail(f'{cx.fname}: buffer slice assignment of {type(v).__name__}')
            if isinstance(base, ZerosFill):
                elts = target.slice.elts if isinstance(target.slice, ast.Tuple) else [target.slice]
                guards = []
                subs = [self.sub_of(s, env, cx, guards) for s in elts]
                for g in guards:
                    cx.pending.append(('guard', g))
                if not isinstance(v, Arr):
                    raise Fail(f'{cx.fname}: array slice assignment of {type(v).__name__}')
                env[name] = ZerosFill(base.shape, app(base.fills, f'[([{"; ".join(subs)}], {v.t})]'))
                return
        raise Fail(f'{cx.fname}: assignment target {ast.dump(target)[:80]}')

    def st_Assign(self, st, rest, env, cx, k):
        if len(st.targets) != 1:
            raise Fail('multiple assignment targets')
        h = self.hooks.get(('assign', cx.fname, ast.unparse(st.targets[0])))
        if h:
            return h(self, st, rest, env, cx, k)
        v = self.ev(st.value, env, cx)
        self.assign(st.targets[0], v, env, cx)
        return self.flush(cx, lambda: self.ex(rest, env, cx, k))

    def st_AugAssign(self, st, rest, env, cx, k):
        cur = self.ev(st.target, env, cx)
        v = self.ev(st.value, env, cx)
        fake = ast.BinOp(left=st.target, op=st.op, right=st.value)
        nv = self.ev_BinOp(fake, env, cx)
        self.assign(st.target, nv, env, cx)
        return self.flush(cx, lambda: self.ex(rest, env, cx, k))

    def st_For(self, st, rest, env, cx, k):
        if st.orelse:
            raise Fail('for-else')
        it = st.iter
        # for future in futures: future.result()
        if isinstance(it, ast.Name) and isinstance(env.get(it.id), PyList):
            lst = env[it.id]
            if all(isinstance(x, Future) for x in lst.items) and len(st.body) == 1 and \
                    ast.unparse(st.body[0]) == f'{st.target.id}.result()':
                for x in lst.items:
                    cx.futures[x.fid] = True
                return self.ex(rest, env, cx, k)
            raise Fail('for over list')
        enum = False
        if isinstance(it, ast.Call) and isinstance(it.func, ast.Name) and it.func.id == 'enumerate':
            enum = True
            it = it.args[0]
        if not (isinstance(it, ast.Call) and isinstance(it.func, ast.Name) and it.func.id == 'range'):
            raise Fail(f'{cx.fname}: for over {ast.unparse(it)[:60]}')
        args = [self.ev(a, env, cx) for a in it.args]
        guards = []
        ts = []
        for a in args:
            t, g = self.as_index(a, 'range argument')
            if g is not None:
                guards.append(g)
            ts.append(t)
        if len(ts) == 1:
            lo, hi = '0', ts[0]
        elif len(ts) == 2:
            lo, hi = ts
        else:
            raise Fail('range with step')
        if enum:
            cnt, var = st.target.elts[0].id, st.target.elts[1].id
        else:
            cnt, var = None, st.target.id
        # loop-carried accumulators: Buf / ZerosFill variables (append-only), futures list
        env2 = self.copy_env(env)
        lv = var + "'" * sum(1 for x in cx.loopvars if x.rstrip("'") == var)
        cx.loopvars.append(lv)
        env2[var] = Num(lv)
        if cnt:
            env2[cnt] = Num(f'({lv} - {paren(lo)})')
        acc_names = [n for n, v in env.items() if isinstance(v, (Buf, ZerosFill))]
        marks = {}
        for n in acc_names:
            v = env[n]
            if isinstance(v, Buf):
                env2[n] = Buf(v.ln, f'@ACC_{n}@')
            else:
                env2[n] = ZerosFill(v.shape, f'@ACC_{n}@')
        saved_pending = cx.pending
        pre_guards = guards
        nfut_before = len(cx.futures)
        # body: continuation returns the deltas
        result = {}

        def kbody(envb):
            for n_, v_ in envb.items():
                if isinstance(v_, PyList) and isinstance(env.get(n_), PyList):
                    result[('list', n_)] = list(v_.items)
            for n in acc_names:
                vb = envb[n]
                t = vb.reads if isinstance(vb, Buf) else vb.fills
                result[n] = t
            return '@BODY_END@'
        body_term = self.ex(list(st.body), env2, cx, kbody)
        cx.loopvars.pop()
        cx.pending = saved_pending
        for key_, items_ in list(result.items()):
            if isinstance(key_, tuple) and key_[0] == 'list':
                # one symbolic element stands for the elements appended in every iteration
                env[key_[1]] = PyList(items_)
                del result[key_]
        # futures created in the loop body: one symbolic future stands for all iterations
        # which accumulators changed?
        changed = [n for n in acc_names if result.get(n) != f'@ACC_{n}@']
        for n in acc_names:
            if n not in result:
                raise Fail(f'{cx.fname}: loop body has a path that does not reach its end (return/raise in loop)')

        def unmark(t):
            for m_ in acc_names:
                if m_ not in changed:
                    v_ = env[m_]
                    t = t.replace(f'@ACC_{m_}@', v_.reads if isinstance(v_, Buf) else v_.fills)
            return t
        cx.part_srcs = [unmark(x) for x in getattr(cx, 'part_srcs', [])]
        if not changed:
            if body_term != '@BODY_END@':
                raise Fail(f'{cx.fname}: loop body with effects but no accumulator')
            return self.flush(cx, lambda: self.ex(rest, env, cx, k))
        if len(changed) > 1 and body_term != '@BODY_END@':
            raise Fail(f'{cx.fname}: several accumulators changed in a loop with binds/guards: {changed}')
        env = dict(env)
        wrap = None
        for n in changed:
            delta = result[n]
            mark = f'@ACC_{n}@'
            # delta must be of the form (((ACC ++ d1) ++ d2) ...) with ACC occurring only at the head
            parts = []
            t = delta
            while t != mark:
                if not (t.startswith('(') and t.endswith(')')):
                    raise Fail(f'{cx.fname}: accumulator update is not an append: {t[:100]}')
                inner = t[1:-1]
                depth = 0
                idx = None
                for i in range(len(inner) - 3):
                    ch = inner[i]
                    if ch in '([':
                        depth += 1
                    elif ch in ')]':
                        depth -= 1
                    elif depth == 0 and inner[i:i + 4] == ' ++ ':
                        idx = i
                if idx is None:
                    raise Fail(f'{cx.fname}: accumulator update is not an append: {t[:100]}')
                parts.append(inner[idx + 4:])
                t = inner[:idx]
            parts.reverse()
            if any(any(f'@ACC_{c_}@' in p for c_ in changed) for p in parts):
                raise Fail('accumulator used inside an update')
            d = unmark(parts[0] if len(parts) == 1 else '(' + ' ++ '.join(parts) + ')')
            old = env[n]
            oldt = old.reads if isinstance(old, Buf) else old.fills
            if body_term == '@BODY_END@':
                fm = f'flat_map (fun {lv} => {d}) (zrange {paren(lo)} {paren(hi)})'
                newt = fm if oldt == '[]' else f'({oldt} ++ {fm})'
            else:
                inner = unmark(body_term).replace('@BODY_END@', f'Return {paren(d)}')
                fv = cx.newvar('fs')
                newt = fv if oldt == '[]' else f'({oldt} ++ {fv})'
                wrap = (fv, f'flat_mapM (fun {lv} =>\n{inner}) (zrange {paren(lo)} {paren(hi)})')
            env[n] = Buf(old.ln, newt) if isinstance(old, Buf) else ZerosFill(old.shape, newt)
        for nm in list(env2.keys()):
            if nm not in env:
                env[nm] = Opaque('loop-local variable')

        def cont():
            t = self.ex(rest, env, cx, k)
            if wrap:
                if t == f'Return {wrap[0]}':
                    t = wrap[1]
                else:
                    t = f'bind ({wrap[1]}) (fun {wrap[0]} =>\n{t})'
            for g in pre_guards:
                t = f'if {g} then Raise TypeErr else\n{t}'
            return t
        return self.flush(cx, cont)


class OptNum:       # Python value that is either None or an int: Coq term of type option Z
    def __init__(self, t):
        self.t = t


# ------------------------------------------------------------------ function-level driver
def _flush_with_wrap(self, cx, term_thunk):
    pend = cx.pending
    cx.pending = []
    if not hasattr(cx, 'assume'):
        cx.assume = {}
    # guards requested by this statement: each is emitted once and assumed false afterwards
    newly = []
    norm = []
    for p in pend:
        gs = [p[1]] if p[0] == 'guard' else (p[3] if p[0] == 'bind' else [])
        keep = []
        for g in gs:
            if cx.assume.get(g) is False:
                continue
            cx.assume[g] = False
            newly.append(g)
            keep.append(g)
        if p[0] == 'guard':
            if keep:
                norm.append(p)
        elif p[0] == 'bind':
            norm.append(('bind', p[1], p[2], keep))
        else:
            norm.append(p)
    try:
        t = term_thunk()
    finally:
        for g in newly:
            del cx.assume[g]
    for p in reversed(norm):
        if p[0] == 'bind':
            _, v, call, guards = p
            if t == f'Return {v}':
                t = call
            else:
                t = f'bind ({call}) (fun {v} =>\n{t})'
            for g in guards:
                t = f'if {g} then Raise TypeErr else\n{t}'
        elif p[0] == 'guard':
            t = f'if {p[1]} then Raise TypeErr else\n{t}'
        elif p[0] == 'wrap':
            if p[1].count('@HOLE@') != 1:
                raise Fail('inline wrapper must have exactly one hole')
            t = p[1].replace('@HOLE@', t)
    return t


Translator.flush = _flush_with_wrap


def inline_call(self, modname, qualname, argvals, arg_asts, env, cx, self_obj=None):
    """Symbolically execute a callee inside the caller (callee must have a single fall-through path).
    Buf / ZerosFill arguments are passed by reference."""
    f = self.funcs[(modname, qualname)]
    params = [a.arg for a in f.args.args]
    cenv = {}
    if self_obj is not None:
        cenv[params[0]] = self_obj
        params = params[1:]
    if len(argvals) > len(params):
        raise Fail(f'inline {qualname}: too many args')
    defaults = f.args.defaults
    ndef = len(defaults)
    for i, p in enumerate(params):
        if i < len(argvals):
            cenv[p] = argvals[i]
        else:
            j = i - (len(params) - ndef)
            if j < 0:
                raise Fail(f'inline {qualname}: missing arg {p}')
            cenv[p] = self.ev(defaults[j], {}, cx)
    saved = cx.pending
    saved_fname = cx.fname
    captured = {}

    def kend(e_):
        if 'env' in captured:
            raise Fail(f'inline {qualname}: more than one fall-through path')
        captured['env'] = e_
        captured['ret'] = NoneV()
        return '@HOLE@'
    saved_ret = cx.ret

    def ret(v):
        if 'env' in captured:
            raise Fail(f'inline {qualname}: more than one return path')
        captured['env'] = cenv
        captured['ret'] = v
        return '@HOLE@'
    cx.ret = ret
    cx.fname = saved_fname + '>' + qualname
    try:
        t = self.ex(list(f.body), cenv, cx, kend)
    finally:
        cx.ret = saved_ret
        cx.fname = saved_fname
    cx.pending = saved
    if 'env' not in captured:
        raise Fail(f'inline {qualname}: no fall-through path')
    if t != '@HOLE@':
        cx.pending.append(('wrap', t))
    # by-reference propagation
    fenv = captured['env']
    for p, a in zip(params, arg_asts):
        if isinstance(a, ast.Name) and isinstance(env.get(a.id), (Buf, ZerosFill)) and p in fenv:
            env[a.id] = fenv[p]
    return captured['ret']


Translator.inline_call = inline_call


def ret_term(self, v, cx, kind):
    """Coq term for a returned value of the declared kind (inside `Return (...)` when the function is an outcome)."""
    if kind == 'Z':
        if not isinstance(v, Num) or v.d != '1':
            raise Fail(f'{cx.fname}: integer return expected, got {type(v).__name__}')
        return v.n
    if kind == 'bool':
        return self.truth(v, cx)
    if kind == 'unit':
        return 'tt'
    if kind.startswith('tup'):
        n = int(kind[3:])
        if not isinstance(v, Tup) or len(v.items) != n:
            raise Fail(f'{cx.fname}: {n}-tuple return expected')
        return '(' + ', '.join(self.ret_term(x, cx, 'Z') for x in v.items) + ')'
    if kind == 'arr':
        if isinstance(v, Arr):
            return v.t
        raise Fail(f'{cx.fname}: array return expected, got {type(v).__name__}')
    raise Fail(f'return kind {kind}')


Translator.ret_term = ret_term


def translate_function(self, modname, qualname, coqname, params, ret='Z', outcome=False, self_obj=None,
                       with_H=False, register=None, extra_env=None, post=None):
    """params: list of (python name, kind) with kind in Z | bool | optZ | tup3.  Emits a Definition."""
    f = self.funcs[(modname, qualname)]
    pyparams = [a.arg for a in f.args.args]
    if self_obj is not None:
        pyparams = pyparams[1:]
    declared = [p for p, _ in params]
    if declared != pyparams[:len(declared)] or len(declared) != len(pyparams):
        raise Fail(f'{qualname}: parameter list changed: {pyparams} vs declared {declared}')
    defaults = {}
    nd = len(f.args.defaults)
    for a, dflt in zip(f.args.args[len(f.args.args) - nd:], f.args.defaults):
        defaults[a.arg] = self.ev(dflt, {}, Ctx(self, qualname))
    optnames = [p for p, kd in params if kd == 'optZ']

    def one(combo):
        cx = Ctx(self, qualname)
        cx.pending = []
        cx.slice_lens = []
        cx.part_srcs = []
        env = {}
        if self_obj is not None:
            env[f.args.args[0].arg] = self_obj
        for p, kd in params:
            if kd == 'Z':
                env[p] = Num(p)
            elif kd == 'bool':
                env[p] = Bool(p)
            elif kd == 'tup3':
                env[p] = Tup([Num(f'{p}_0'), Num(f'{p}_1'), Num(f'{p}_2')])
            elif kd == 'optZ':
                env[p] = Num(p) if combo[p] else NoneV()
            else:
                raise Fail(f'param kind {kd}')
        if extra_env:
            env.update(extra_env)

        def retk(v):
            if isinstance(v, ZerosFill):
                if not outcome:
                    raise Fail('zeros-fill return from a pure function')
                a = cx.newvar('z')
                shape = '[' + '; '.join(v.shape) + ']'
                inner = a
                if cx.part_srcs:
                    srcs = ' ++ '.join(f'reads_of {paren(s)}' for s in cx.part_srcs)
                    inner = f'(a_with_reads {a} ({srcs}))'
                return f"bind (a_zeros_fill {shape} {paren(v.fills)}) (fun {a} => Return {inner})"
            if isinstance(v, Buf) and ret == 'buf':
                t = v.reads
            else:
                t = self.ret_term(v, cx, ret)
            if post:
                t = post(t, cx)
            return f'Return {paren(t)}' if outcome else t
        cx.ret = retk

        def kend(e_):
            if ret == 'unit':
                return 'Return tt' if outcome else 'tt'
            raise Fail(f'{qualname}: falls off the end without a return')
        body = self.ex(list(f.body), env, cx, kend)
        unchecked = [i for i, c in cx.futures.items() if not c]
        return body, cx, bool(cx.futures), not unchecked

    combos = [{}]
    for p in optnames:
        combos = [dict(c, **{p: b}) for c in combos for b in (False, True)]
    bodies = []
    flags = []
    for c in combos:
        b, cx, hasfut, checked = one(c)
        bodies.append((c, b))
        flags.append((hasfut, checked))
    # signature
    sig = []
    if with_H:
        sig.append('(H : hdr)')
    for p, kd in params:
        if kd == 'Z':
            sig.append(f'({p} : Z)')
        elif kd == 'bool':
            sig.append(f'({p} : bool)')
        elif kd == 'tup3':
            sig.append(f'({p}_0 {p}_1 {p}_2 : Z)')
        elif kd == 'optZ':
            sig.append(f'({p} : option Z)')
    rty = {'Z': 'Z', 'bool': 'bool', 'unit': 'unit', 'arr': 'arrv', 'buf': '(list rd)'}.get(ret)
    if rty is None and ret.startswith('tup'):
        rty = '(' + ' * '.join(['Z'] * int(ret[3:])) + ')'
    if outcome:
        rty = f'outcome {rty}'
    if optnames:
        scrut = ', '.join(optnames)
        arms = []
        for c, b in bodies:
            pat = ', '.join((f'Some {p}' if c[p] else 'None') for p in optnames)
            arms.append(f'| {pat} =>\n{b}')
        body = f'match {scrut} with\n' + '\n'.join(arms) + '\nend'
    else:
        body = bodies[0][1]
    self.out.append(f'Definition {coqname} {" ".join(sig)} : {rty} :=\n{body}.\n')
    if any(h for h, _ in flags):
        self.static_flags[coqname + '_futures_checked'] = all(c for h, c in flags if h)
    kinds = [kd for _, kd in params]
    self.sigs[coqname] = (kinds, outcome, ret)
    if register:
        self.emitted[register] = coqname
        if register[0] == 'method':
            if not hasattr(self, 'method_params'):
                self.method_params = {}
            self.method_params[register[1]] = (pyparams, defaults)
    return coqname


Translator.translate_function = translate_function
