"""Registry: per property, which generated targets / pinned sources / proofs / harness decide it."""
COMMON_TRUSTED = [
    'Coq 8.16.1 kernel (coqc); vm_compute used for finite computations; no native_compute',
    'translator tools/py2coq.py + tools/gen.py (Python ast -> Gallina; fail closed; validated by the correspondence check)',
    'hand-written semantics of Python/numpy/zfpy constructs in coq/Lib/Py.v (exceptions, range, slice assignment, basic indexing, squeeze, zeros+fill)',
    'ZFP structural assumption: a fixed-rate stream decodes unit-wise, units in C order, each a function of its own bytes (validated against zfpy on every run, not proved)',
    'extraction: ExtrOcamlBasic only (bool, option, unit, list, prod, sumbool, sumor, andb, orb); Z/positive kept as extracted inductives; ocaml/driver.ml text protocol',
    'harness: tools/hz.py (version injection via pkg_resources wrapper, counting file), tools/corr_reads.py',
]
import os as _os
# kernel primitives of Coq's binary64 / 63-bit integers (listed by Print Assumptions; not axioms)
FLOAT_PRIMS = ['PrimFloat.abs', 'PrimFloat.add', 'PrimFloat.classify', 'PrimFloat.div', 'PrimFloat.eqb', 'PrimFloat.float',
                'PrimFloat.frshiftexp', 'PrimFloat.mul', 'PrimFloat.normfr_mantissa', 'PrimFloat.of_uint63', 'PrimFloat.opp', 'PrimFloat.sub',
                'PrimFloat.ldshiftexp', 'PrimFloat.ltb',
                'PrimInt63.eqb', 'PrimInt63.int', 'PrimInt63.land', 'PrimInt63.lor', 'PrimInt63.lsl', 'PrimInt63.lsr', 'PrimInt63.sub',
                'PrimInt63.add', 'PrimInt63.leb', 'PrimInt63.ltb',
                'abs', 'add', 'classify', 'div', 'eqb', 'float', 'frshiftexp', 'mul', 'normfr_mantissa', 'of_uint63', 'opp', 'sub', 'int', 'land', 'lor', 'lsl', 'lsr',
                'ldshiftexp', 'ltb', 'leb']
# axioms DECLARED BY THE STANDARD LIBRARY that Props/C05b.v (Flocq error analysis of the sample-axis fields) depends on
STDLIB_FLOAT_REAL_AXIOMS = ['FloatAxioms.Prim2SF_SF2Prim', 'FloatAxioms.Prim2SF_valid', 'FloatAxioms.SF2Prim_Prim2SF', 'FloatAxioms.abs_spec', 'FloatAxioms.add_spec',
                    'FloatAxioms.classify_spec', 'FloatAxioms.div_spec', 'FloatAxioms.eqb_spec', 'FloatAxioms.frshiftexp_spec', 'FloatAxioms.mul_spec',
                    'FloatAxioms.normfr_mantissa_spec', 'FloatAxioms.of_uint63_spec', 'FloatAxioms.opp_spec', 'FloatAxioms.sub_spec',
                    'Uint63.add_spec', 'Uint63.eqb_correct', 'Uint63.eqb_refl', 'Uint63.leb_spec', 'Uint63.lor_spec', 'Uint63.lsl_spec', 'Uint63.lsr_spec',
                    'Uint63.ltb_spec', 'Uint63.of_to_Z', 'Uint63.sub_spec',
                    'ClassicalDedekindReals.sig_forall_dec', 'ClassicalDedekindReals.sig_not_dec', 'Classical_Prop.classic',
                    'FunctionalExtensionality.functional_extensionality_dep']
def pins_of(pid):
    """pins listed in tools/pinlist.txt under the comment section starting with '# <pid>' (a comment '# Cxx...' at the end
    of a pin line also starts a section, including that line)"""
    import re
    out, cur = [], None
    for line in open(_os.path.join(_os.path.dirname(_os.path.abspath(__file__)), 'pinlist.txt')):
        body, _, comment = line.partition('#')
        toks = comment.split()
        if toks and re.match(r'^C\d\d', toks[0]):
            cur = toks[0][:3]
        elif toks and not body.strip():
            cur = None
        body = body.strip()
        if body and cur == pid:
            m, q = body.split()
            if f'{m}.{q}' not in out:
                out.append(f'{m}.{q}')
    return out

READER_TARGETS = ['Reader', 'read.SgzReader', 'loader.SgzLoader', 'Utils', 'Version']
READER_PINS = ['loader.SgzLoader._get_compressed_bytes', 'loader.SgzLoader._decompress',
               'loader.SgzLoader._decompress_into_array', 'loader.SgzLoader.load_compressed_volume',
               'read.SgzReader.__init__.fileopen', 'read.SgzReader.__init__.coords']

WRITER_PINS = ['conversion_utils.compressor', 'conversion_utils.numpy_producer', 'conversion_utils.seismic_file_producer',
               'conversion_utils.io_thread_func', 'conversion_utils.MinimalInlineReader.__init__',
               'conversion_utils.MinimalInlineReader.get_format_code', 'conversion_utils.MinimalInlineReader.self_test',
               'conversion_utils.MinimalInlineReader.read_line']

COORD_PINS = ['utils.coord_to_index', 'read.SgzReader.get_inline_index', 'read.SgzReader.read_inline_number',
              'read.SgzReader.get_crossline_index', 'read.SgzReader.read_crossline_number', 'read.SgzReader.get_zslice_index',
              'read.SgzReader.read_zslice_coord', 'read.SgzReader.get_trace_by_coord']

ROUTES_TRUSTED = ['tools/genx_routes.py (fail-closed extraction of the Filetype values, the extension dispatch of SeismicFile.open, the converter classes, the ZGY header doubles / source and detection codes, the ZGY header-word table and stored-array order, the index formulas of get_zgy_header_arrays, the reader\'s sample-axis branch, and a census that the data path never looks at the file type); it applies np.meshgrid\'s xy convention and np.linspace(0,n-1,n)[k]=k itself; np.linspace(first,last,num,dtype=intc) on an arithmetic integer axis is assumed exact (lin_exact) and np.round is half-to-even followed by an exact int32 cast: validated against numpy by routes.py on every run',
                  'pyzgy / pyvds handles (outside /repo) are modelled by a contract (iline[ilines[i]] is source inline i) and by a model of their SliceAccessor; both validated on the fixtures and on generated ZGY files by routes.py; the contract fails for negative inline numbers (known finding D53)',
                  'route independence of the data path rests on the generator\'s fail-closed census of `filetype` mentions plus the producer theorems of C01, not on a separate theorem',
                  'VDS exists only as one 5x5x50 fixture; ZGY annotations are float32 (generated sources keep line numbers below 2^24)']
ROUTES_PINS = ['seismicfile.SeismicFile.open', 'headers.HeaderwordInfo.get_zgy_header_arrays', 'headers.HeaderwordInfo.__init__',
               'conversion_utils.make_header_seismic_file', 'conversion.SeismicFileConverter.write_headers',
               'conversion.SeismicFileConverter.get_blank_header_info', 'conversion.SeismicFileConverter.run', 'read.SgzReader._parse_coordinates']

PROPS = {    'C01': dict(gen_targets=['Producer', 'Utils', 'Reader', 'Routes', 'Pipeline'], pins=WRITER_PINS + ROUTES_PINS, harness=['writer.py', 'routes.py', 'pipeline.py'],
                trusted=ROUTES_TRUSTED + ['tools/genx_producer.py + tools/miniast.py (structural, fail-closed extraction of the producers\' arithmetic)',
                         'hand model (coq/Model/Writer.v): numpy slicing clips, np.pad edge = clamp, buffer row a of plane set p = padded row p*bs0+a, zfpy.compress_numpy emits unit codes in C order (validated: harness O3 + byte-exact comparison of every array handed to the compressor)'],
                assumptions=['FIFO order of the two queues (C16)', 'MinimalInlineReader.read_line(L) returns line L of the SEG-Y (pinned; validated by the reduced-I/O route cases)',
                             'VDS/ZGY routes (Props/C01a.v, routes.py): the producers are the same generated functions for every file type; executed on the VDS fixture, the four ZGY fixtures and generated ZGY cubes; inline numbers >= 0 (D53)']),
    'C02': dict(gen_targets=READER_TARGETS + ['Coords', 'Xarray'], pins=READER_PINS + COORD_PINS, harness=['reads.py', 'coords.py', 'coordsx.py', 'xarrayx.py'],
                trusted=['positive denominators of the rate fraction assumed when comparing rationals',
                         'tools/genx_xarray.py (fail-closed whole-body templates of the xarray backend array, its entry point and tools.cube)',
                         'xarray (outside /repo): indexing.explicit_indexing_adapter(key, shape, IndexingSupport.BASIC, raw) and LazilyIndexedArray hand the raw method one int or slice per axis, apply only numpy indexing of their own to its result and never touch the file; validated by xarrayx.py against a trivially correct control backend on every run',
                         'tools/genx_coords.py (fail-closed whole-body templates of coord_to_index, gen_coord_list, the get_*_index / read_*_number / read_zslice_coord / get_trace_by_coord methods and the axes block of SgzReader.__init__)'],
                assumptions=['codec values are abstract: results are provenance grids; bitwise equality follows for any unit-local codec',
                             'Props/C02d.v: coordinates are an abstract type with decidable equality (Z for line numbers); float64 rounding of the sample axis is outside the model and covered by the oracle in coords.py / coordsx.py'],
                notes=[]),
    'C14': dict(gen_targets=READER_TARGETS + ['Coords', 'Cropping'], pins=READER_PINS + COORD_PINS, harness=['reads.py', 'coords.py', 'coordsx.py', 'cropping.py'],
                trusted=['tools/genx_coords.py (fail-closed whole-body templates of the by-number / by-coordinate entry points)'],
                assumptions=['Props/C14b.v: an off-axis line number or coordinate is refused before any loader call, for every axis (abstract coordinates with decidable equality); float64 sample axes by the oracles coords.py / coordsx.py']),
    'C07': dict(gen_targets=READER_TARGETS + ['OpenIO', 'Headers', 'Caches', 'Xarray'], pins=READER_PINS + pins_of('C07'),
                harness=['reads.py', 'iocost.py', 'xarrayx.py'],
                trusted=['tools/genx_openio.py (fail-closed extraction of the file accesses of opening, preload, the range-read choke point, gen_trace_header, the chunk key of get_trace and the diagonal loops, plus a census that no other statement of read.py / loader.py touches the file)',
                         'functools.lru_cache semantics (hit: no call; miss: call, insert, evict least recently used) as modelled in coq/Model/Caches.v'],
                assumptions=['I/O traces of model and implementation are compared after coalescing adjacent ranges',
                             'Props/C07c.v: requests are those seen above read_range; the blob backend is covered as "one request per range read with the same (offset, length)" and executed against an in-memory blob stand-in only',
                             'whole-array header paths (load_all_headers=True, irregular files) are outside the 4-bytes-per-array statement, as in the property text (regular file)']),
    'C03': dict(gen_targets=['Version', 'Header', 'Producer', 'Reader', 'Utils', 'Cropping', 'Reblock', 'Routes', 'Headers', 'Geometry', 'Pipeline'], allowed_axioms=FLOAT_PRIMS,
                pins=['conversion_utils.make_header_numpy', 'conversion_utils.make_header_seismic_file'] + pins_of('C10') + pins_of('C12'),
                harness=['version.py', 'container.py', 'routes.py', 'pipeline.py'],
                trusted=['tools/genx_header.py (fail-closed extraction of the size/format fields of make_header and of the footer padding of both write_headers); the bit rate as a fraction rn/rd: exact rational floor agrees with binary64 on these magnitudes (checked by correspondence on every written file)'],
                assumptions=['string constructor is a hand model of the pinned source text (int() restricted to digit strings)',
                             'compositions of writers: Props/C03a.v proves that conformance of the header is established by the converters and preserved by the cropper and the re-blocker, hence by every finite composition (induction); the container harness additionally runs compositions of length 2 and 3 through a specification-only decoder',
                             'VDS/ZGY converters share make_header; Props/C03b.v proves conformance of the ZGY header, table and footer; routes.py runs both routes through the specification decoder']),
    'C20': dict(gen_targets=['Hash', 'Utils'],
                pins=['conversion_utils.MinimalInlineReader.read_line', 'utils.Geometry3d.__init__', 'utils.Geometry2d.__init__'],
                harness='hash.py',
                trusted=['tools/genx_hash.py (fail-closed extraction of the slices passed to hash_object.update, write/read offsets of the digest)',
                         'hashlib streaming: update(a); update(b) == update(a+b) (checked per case by the harness)'],
                assumptions=['SHA-1 abstract (Section variable H): sensitivity holds up to a collision of H',
                             'samples compared as float32 bit patterns',
                             'irregular sources with holes: the stored hash is that of the zero-filled grid (recorded as a note; outside the property quantifier "cubes and 2D sections")']),
    'C09': dict(gen_targets=['Producer2d', 'Reader', 'Utils', 'Version'],
                pins=READER_PINS + ['conversion_utils.compressor', 'conversion_utils.writer', 'conversion_utils.run_conversion_loop',
                                    'conversion_utils.make_header_seismic_file', 'utils.Geometry2d.__init__',
                                    'accessors.TraceAccessor.__init__', 'accessors.HeaderAccessor.__init__', 'read.SgzReader.gen_trace_header'],
                harness='twod.py',
                trusted=['tools/genx_producer2d.py (fail-closed extraction of seismic_file_producer_2d, io_thread_func_2d, the 2D branch of make_header, detect_geometry)',
                         'hand model coq/Model/Producer2d.v: slice assignment of one buffer row, negative indexing, unit-wise C-order 2-D compression (validated per case)'],
                assumptions=['queue order (C16)', 'sample axis and header contents are C05/C04; here only the store index t -> t is proved',
                             'rates below 1 bit are refused for 2D (D13 fix); checked in a child process',
                             'get_trace(i, lo, hi) ignores the sample window on 2D files (noted, outside the C09 statement)']),
    'C13': dict(gen_targets=['Accessors', 'Reader'],
                pins=['utils.coord_to_index', 'read.SgzReader.get_inline_index', 'read.SgzReader.read_inline_number',
                      'read.SgzReader.get_crossline_index', 'read.SgzReader.read_crossline_number', 'read.SgzReader.get_file_text_header',
                      'read.SgzReader.get_file_binary_header', 'tools.dt', 'tools.cube', 'open.open'],
                harness='emulation.py',
                trusted=['tools/genx_accessors.py (fail-closed translation of accessors.py and the emulator wiring)',
                         'hand model of segyio (sanitize_slice, Line.ranges, wrapindex, Sequence slices) in coq/Model/Accessors.v: validated against segyio on every run (thousands of slices), not proved'],
                assumptions=['values behind a key are C02/C04; here structure, key lists, order, rejection', 'axes with negative line numbers excluded (segyio itself is Python-style there)']),
    'C08': dict(gen_targets=['Irregular', 'Reader', 'Utils', 'Version'], pins=pins_of('C08'), harness='irregular.py',
                trusted=['tools/genx_irregular.py (fail-closed extraction of InferredGeometry3d.get_range, unstructured_io_thread_func indices, make_header unstructured fields, the mask expressions)',
                         'hand model of segyio geometry inference (segyio_geometry) compared with real segyio on every sample'],
                assumptions=['bitwise equality of volume-style reads with the codec image of the zero-filled grid rests on the oracle plus C01/C02 (theorems stop at what each buffer cell holds)',
                             'heuristic detection: fields equal in first and last trace are stored as constants (documented limitation, C04)']),
    'C10': dict(gen_targets=['Cropping', 'Reader', 'loader.SgzLoader', 'Utils', 'Version'], pins=pins_of('C10'), harness='cropping.py',
                trusted=['tools/genx_cropping.py (fail-closed extraction of every test, bound correction, header patch, unit count, read_chunk_range argument, footer window of cropping.py)',
                         'hand model coq/Model/Cropper.v: struct.pack ranges, buffer length of read_chunk_range, numpy reshape/slice/flatten indexing, coord_to_index on an arithmetic axis'],
                assumptions=['decoded floats abstract (unit-locality)', 'axes arithmetic int32 without overflow; len(axis) = stated count']),
    'C15': dict(gen_targets=['Caches', 'StateFoot'],
                pins=pins_of('C15') + ['conversion.SgzConverter.convert_to_segy', 'conversion.NumpyConverter.run', 'conversion.SeismicFileConverter.run',
                                       'conversion.SeismicFileConverter.infer_geometry', 'conversion.SeismicFileConverter.detect_geometry',
                                       'conversion_utils.run_conversion_loop', 'conversion_utils.numpy_producer', 'headers.HeaderwordInfo.__init__',
                                       'sgz_xarray.SeismicZfpBackendArray._raw_indexing_method'],
                harness=['history.py', 'historyx.py'],
                trusted=['tools/genx_statefoot.py (fail-closed static census of every attribute / class attribute / module global / shared default a method of the 23 classes can write, transitively through the call graph; external callees assumed non-mutating except a listed set, checked by vars() snapshots in historyx.py)',
                         'tools/genx_caches.py (fail-closed extraction of the lru_cache tables, cache keys, clear_cache lists, attribute analysis of cached bodies, lazy-cache users)',
                         'hand semantics of functools.lru_cache (LRU order, keyed on all arguments incl. self) validated by hit/miss counting against the real caches'],
                assumptions=['cached loader bodies are functions of (file, arguments): guarded by the generator attribute analysis, the oracle and pins, not proved',
                             'blob readers / concurrency not covered; caller-side mutation of returned views outside the statement',
                             'Props/C15a.v: the frame hypothesis (a call changes only its generated footprint) is validated dynamically on the exercised methods, not proved; listed exceptions: headerbytes (restored), the xarray lock, NumpyConverter scratch geom / guarded alias trace_headers, geom as memo of the input file']),
    'C16': dict(gen_targets=['Pipeline'], pins=[], harness='pipeline.py',
                trusted=['tools/genx_pipeline.py (fail-closed extraction of the operation order of compressor, writer, run_conversion_loop and the callers)',
                         'hand semantics of CPython queue.Queue / threading (bounded FIFO, unfinished_tasks, task_done, join) in coq/Model/Pipeline.v, validated by replaying model schedules on the real code under a cooperative scheduler'],
                assumptions=['granularity: one step = one queue/file operation of one thread; OS-level timing inside such an operation is not modelled',
                             'footer arrays and hash patch after the joins: checked structurally by the generator and behaviourally by the oracle']),
    'C19': dict(gen_targets=['Config', 'Cli'], pins=['conversion_utils.make_header'], harness=['config.py', 'clix.py'],
                trusted=['tools/genx_cli.py (fail-closed whole-module matching of cli.py; call wiring extracted, not prescribed)', 'coq/Model/Cli.v hand model of click 8.x (decorator stacking, name mangling, option value or default, INT on -?[0-9]+ / BOOL table / Tuple / Path conversion, eager --version, keyword call), validated on every run by clix.py against the installed click Command objects, converters and the recorded calls of about 260 command lines; the tokeniser of click is not modelled',
                         'tools/genx_config.py (fail-closed translation of define_blockshape*, order check of the run() methods)',
                         'coq/Lib/PyConfig.v: Python numbers as exact rationals with explicit ZeroDivisionError; agreement of exact Q with CPython binary64 checked on every correspondence case'],
                assumptions=['"raises before creating the output" is the generator AST order check plus the file oracle, not a theorem about conversion.py']),
    'C06': dict(gen_targets=['Export', 'Reblock', 'Cli', 'Pipeline'] + READER_TARGETS, pins=pins_of('C06'), harness=['export.py', 'clix.py', 'pipeline.py'],
                trusted=['tools/genx_export.py (fail-closed extraction of convert_to_segy / write_segy / regenerate_trace_header: spec fields, operation order, index expressions, format-code bytes, header overrides)',
                         'hand model of segyio (create, capacity, bulk put, file layout, trace-0 offset on reopen) in coq/Model/Export.v, checked by correspondence'],
                assumptions=['segyio numerics: IEEE exact, IBM within relative 2^-20: a property of segyio C code, validated on every sample, not proved',
                             'header preservation (C04) and get_trace / gen_trace_header are abstract parameters here']),
    'C11': dict(gen_targets=['Window', 'Cli'], pins=pins_of('C11'), harness=['window.py', 'clix.py'],
                trusted=['tools/genx_cli.py (fail-closed whole-module matching of cli.py; call wiring extracted, not prescribed)', 'coq/Model/Cli.v hand model of click 8.x (decorator stacking, name mangling, option value or default, INT on -?[0-9]+ / BOOL table / Tuple / Path conversion, eager --version, keyword call), validated on every run by clix.py against the installed click Command objects, converters and the recorded calls of about 260 command lines; the tokeniser of click is not modelled',
                         'tools/genx_window.py (fail-closed extraction of window acceptance, Geometry3d ranges, header allocation, make_header fields, io_thread_func / read_line index arithmetic)',
                         'hand model coq/Model/Window.v of the converter control flow around the generated arithmetic'],
                assumptions=['traces abstract; compression and layout are C01', 'self-test outcome of the reduced-I/O reader is an input boolean',
                             'one-line windows: closed-form theorem + semantic oracle (the sub-cube alone would be detected as 2D)']),
    'C17': dict(gen_targets=['Faults', 'Reader'], pins=pins_of('C17'), harness='faults.py',
                trusted=['tools/genx_faults.py (fail-closed extraction of the length-check guard, the wiring of both backends through it, every read_range call site, per fan-out: futures collected, buffer length, task count, slots)',
                         'hand model coq/Model/Faults.v: backend delivers Full/Short/Fail, slice assignment as splice, each submitted task runs once and its exception is re-raised by result()'],
                assumptions=['real timing of the 20 worker threads is represented by an arbitrary permutation of atomic slice assignments (GIL)',
                             'two arithmetic equations on the opaque int(.. * rate) terms of the NxNx4 fan-out are checked per file by vm_compute, not proved from well-formedness']),
    'C18': dict(gen_targets=['Faults', 'Reader'], pins=pins_of('C17'), harness=['partial.py', 'faults.py'],
                trusted=['tools/genx_faults.py (write order of both converters with patch offsets; every headerbytes slice of read.py with its user)',
                         'hand model coq/Model/Faults.v: write history, crash = prefix with partial last write, header-word table decode'],
                assumptions=['a crash point is a prefix of the program-order write sequence; OS write-back below Python is not modelled']),
    'C05': dict(gen_targets=['Geometry', 'Reader', 'Version', 'Utils', 'Routes', 'Headers'], pins=pins_of('C05') + ['utils.Geometry3d.__init__'] + ROUTES_PINS, harness=['geometry.py', 'routes.py'],
                allowed_axioms=FLOAT_PRIMS + STDLIB_FLOAT_REAL_AXIOMS,
                coqchk_allowed_prefixes=['Coq.Reals.ClassicalDedekindReals.sig_not_dec', 'Coq.Reals.ClassicalDedekindReals.sig_forall_dec', 'Coq.Logic.FunctionalExtensionality.functional_extensionality_dep', 'Coq.Logic.Classical_Prop.classic'],
                coqchk_skip=['Props/C05.v', 'Props/C05a.v', 'Props/C05b.v'],      # 36 min (the vm_compute sweeps, re-evaluated by the checker's own reduction) and 44 min (Flocq, Reals): logs of the manual runs in findings/coqchk_c05.log, coqchk_c05b.log
                trusted=ROUTES_TRUSTED + ['tools/genx_geometry.py (fail-closed extraction of the geometry fields of make_header, gen_coord_list, _parse_coordinates, the structured / 2D flags)',
                         'Coq primitive floats (PrimFloat) and 63-bit integers (Uint63) as the model of binary64: kernel primitives listed by Print Assumptions; Props/C05.v and C05a.v use them by vm_compute only (no axiom); Props/C05b.v additionally depends on axioms DECLARED BY THE STANDARD LIBRARY: Coq.Floats.FloatAxioms (the IEEE specification of each primitive operation: *_spec, Prim2SF/SF2Prim), Coq.Numbers.Cyclic.Int63.Uint63 (*_spec of the primitive integers), the classical real numbers (ClassicalDedekindReals.sig_forall_dec, sig_not_dec), Classical_Prop.classic and FunctionalExtensionality.functional_extensionality_dep (through Flocq / Reals); none is declared by this development',
                         'Flocq 4 (IEEE754.PrimFloat: Prim2B and the *_equiv lemmas; Core: rounding error bounds) as installed',
                         'hand semantics of struct pack/unpack, numpy intc wrap, segyio sample formula arange(n)*(dt/1000.0)+t0'],
                assumptions=['sample axis: Props/C05b.v proves the stored interval and start, and the bit-equality of the regenerated axis, for EVERY interval 1..65535 us, start -32768..32767 ms and length 2 <= n < 2^32 (Flocq error analysis; depends on the standard library\'s float / real-number axioms listed under print_assumptions); Props/C05.v keeps the axiom-free vm_compute sweeps on the finite domain zs_dom',
                             'Props/C05a.v: ZGY / VDS / SGZ-sourced files: stored inline / crossline header grids, which sample-axis branch the reader takes and what it yields, for all binary64 values',
                             'D26 (NumPy route: Python list axes raise AttributeError before anything is written; fractional start time truncated) recorded as a note']),
    'C12': dict(gen_targets=['Reblock', 'Export', 'Reader', 'Utils', 'Version'], pins=pins_of('C12'), harness='reblock.py',
                trusted=['tools/genx_reblock.py (fail-closed extraction of the asserts, header patches, loop bounds, i_count/x_count, seek offsets, slices, footer writes of convert_to_adv_sgz)',
                         'hand model coq/Model/Reblock.v: bytearray slice assignment as a length-changing splice, file reads short at end of file, struct.pack ranges'],
                assumptions=['decoded floats abstract (unit-locality)', 'a fresh converter object (no earlier header reads on it: C15)', 'numpy frombuffer/tobytes byte round trip of footer arrays checked by the harness only']),
    'C04': dict(gen_targets=['Headers'], pins=pins_of('C04'), harness='headers.py',
                trusted=['tools/genx_headers.py (template-matching, fail-closed extraction of the classification rules, table codec, detection modes, thorough patches, footer padding, NumPy header handling, header capture arithmetic, reader stride / offsets / mask conditions)',
                         'hand model coq/Model/Headers.v: dicts as association lists, footer as a list of write() segments, capture loops (last write wins)'],
                assumptions=['segyio own header parsing and the little-endian byte encoding of 32-bit words are observed by the oracle only',
                             'heuristic detection with true / false duplicates: model and correspondence, no theorem; the equal-at-both-ends limitation is the documented one (C04_heuristic_refuted)',
                             'data section length from C03; windowed conversion is C11']),
}
