"""Registry: per property, which generated targets / pinned sources / proofs / harness decide it."""
COMMON_TRUSTED = [
    'Coq 8.16.1 kernel (coqc); vm_compute used for finite computations; no native_compute',
    'translator tools/py2coq.py + tools/gen.py (Python ast -> Gallina; fail closed; validated by the correspondence check)',
    'hand-written semantics of Python/numpy/zfpy constructs in coq/Lib/Py.v (exceptions, range, slice assignment, basic indexing, squeeze, zeros+fill)',
    'ZFP structural assumption: a fixed-rate stream decodes unit-wise, units in C order, each a function of its own bytes (validated against zfpy on every run, not proved)',
    'extraction: ExtrOcamlBasic only (bool, option, unit, list, prod, sumbool, sumor, andb, orb); Z/positive kept as extracted inductives; ocaml/driver.ml text protocol',
    'harness: tools/hz.py (version injection via pkg_resources wrapper, counting file), tools/corr_reads.py',
]
import os as _os
def pins_of(pid):
    """pins listed in tools/pinlist.txt under the comment section starting with '# <pid> '"""
    out, cur = [], None
    for line in open(_os.path.join(_os.path.dirname(_os.path.abspath(__file__)), 'pinlist.txt')):
        line = line.strip()
        if line.startswith('#'):
            cur = line[1:].split()[0] if len(line) > 1 and line[1:].split() else None
            continue
        if line and cur == pid:
            m, q = line.split()
            if f'{m}.{q}' not in out:
                out.append(f'{m}.{q}')
    return out

READER_TARGETS = ['Reader', 'read.SgzReader', 'loader.SgzLoader', 'Utils', 'Version']
READER_PINS = ['loader.SgzLoader._get_compressed_bytes', 'loader.SgzLoader._decompress',
               'loader.SgzLoader._decompress_into_array', 'loader.SgzLoader.load_compressed_volume',
               'read.SgzReader.__init__.fileopen', 'read.SgzReader.__init__.coords']

WRITER_PINS = ['conversion_utils.compressor', 'conversion_utils.numpy_producer', 'conversion_utils.seismic_file_producer',
               'conversion_utils.io_thread_func', 'conversion_utils.MinimalInlineReader.__init__',
               'conversion_utils.MinimalInlineReader.get_format_code', 'conversion_utils.MinimalInlineReader.self_test',
               'conversion_utils.MinimalInlineReader.read_line']

PROPS = {
    'C01': dict(gen_targets=['Producer', 'Utils', 'Reader'], pins=WRITER_PINS, harness='writer.py',
                trusted=['tools/genx_producer.py + tools/miniast.py (structural, fail-closed extraction of the producers\' arithmetic)',
                         'hand model (coq/Model/Writer.v): numpy slicing clips, np.pad edge = clamp, buffer row a of plane set p = padded row p*bs0+a, zfpy.compress_numpy emits unit codes in C order (validated: harness O3 + byte-exact comparison of every array handed to the compressor)'],
                assumptions=['FIFO order of the two queues (C16)', 'MinimalInlineReader.read_line(L) returns line L of the SEG-Y (pinned; validated by the reduced-I/O route cases)',
                             'VDS/ZGY routes: not executed in the quick tier (ZGY cannot run in this sandbox: np.round_)']),
    'C02': dict(gen_targets=READER_TARGETS, pins=READER_PINS, harness='reads.py',
                trusted=['positive denominators of the rate fraction assumed when comparing rationals'],
                assumptions=['codec values are abstract: results are provenance grids; bitwise equality follows for any unit-local codec'],
                notes=[]),
    'C14': dict(gen_targets=READER_TARGETS, pins=READER_PINS, harness='reads.py', trusted=[], assumptions=[]),
    'C07': dict(gen_targets=READER_TARGETS, pins=READER_PINS, harness='reads.py', trusted=[],
                assumptions=['I/O traces of model and implementation are compared after coalescing adjacent ranges']),
    'C03': dict(gen_targets=['Version'], pins=[], harness='version.py', trusted=[],
                assumptions=['string constructor is a hand model of the pinned source text (int() restricted to digit strings)']),
    'C20': dict(gen_targets=['Hash', 'Utils'],
                pins=['conversion_utils.MinimalInlineReader.read_line', 'utils.Geometry3d.__init__', 'utils.Geometry2d.__init__'],
                harness='hash.py',
                trusted=['tools/genx_hash.py (fail-closed extraction of the slices passed to hash_object.update, write/read offsets of the digest)',
                         'hashlib streaming: update(a); update(b) == update(a+b) (checked per case by the harness)'],
                assumptions=['SHA-1 abstract (Section variable H): sensitivity holds up to a collision of H',
                             'samples compared as float32 bit patterns',
                             'irregular sources with holes: the stored hash is that of the zero-filled grid (recorded as a note; outside the property quantifier "cubes and 2D sections")']),
    'C09': dict(gen_targets=['Producer2d', 'Reader', 'Utils', 'Version'],
                pins=READER_PINS + ['conversion_utils.compressor', 'conversion_utils.writer', 'conversion_utils.run_conversion_loop',
                                    'conversion_utils.make_header_seismic_file', 'utils.Geometry2d.__init__',
                                    'accessors.TraceAccessor.__init__', 'accessors.HeaderAccessor.__init__', 'read.SgzReader.gen_trace_header'],
                harness='twod.py',
                trusted=['tools/genx_producer2d.py (fail-closed extraction of seismic_file_producer_2d, io_thread_func_2d, the 2D branch of make_header, detect_geometry)',
                         'hand model coq/Model/Producer2d.v: slice assignment of one buffer row, negative indexing, unit-wise C-order 2-D compression (validated per case)'],
                assumptions=['queue order (C16)', 'sample axis and header contents are C05/C04; here only the store index t -> t is proved',
                             'rates below 1 bit are refused for 2D (D13 fix); checked in a child process',
                             'get_trace(i, lo, hi) ignores the sample window on 2D files (noted, outside the C09 statement)']),
    'C13': dict(gen_targets=['Accessors', 'Reader'],
                pins=['utils.coord_to_index', 'read.SgzReader.get_inline_index', 'read.SgzReader.read_inline_number',
                      'read.SgzReader.get_crossline_index', 'read.SgzReader.read_crossline_number', 'read.SgzReader.get_file_text_header',
                      'read.SgzReader.get_file_binary_header', 'tools.dt', 'tools.cube', 'open.open'],
                harness='emulation.py',
                trusted=['tools/genx_accessors.py (fail-closed translation of accessors.py and the emulator wiring)',
                         'hand model of segyio (sanitize_slice, Line.ranges, wrapindex, Sequence slices) in coq/Model/Accessors.v: validated against segyio on every run (thousands of slices), not proved'],
                assumptions=['values behind a key are C02/C04; here structure, key lists, order, rejection', 'axes with negative line numbers excluded (segyio itself is Python-style there)']),
    'C08': dict(gen_targets=['Irregular', 'Reader', 'Utils', 'Version'], pins=pins_of('C08'), harness='irregular.py',
                trusted=['tools/genx_irregular.py (fail-closed extraction of InferredGeometry3d.get_range, unstructured_io_thread_func indices, make_header unstructured fields, the mask expressions)',
                         'hand model of segyio geometry inference (segyio_geometry) compared with real segyio on every sample'],
                assumptions=['bitwise equality of volume-style reads with the codec image of the zero-filled grid rests on the oracle plus C01/C02 (theorems stop at what each buffer cell holds)',
                             'heuristic detection: fields equal in first and last trace are stored as constants (documented limitation, C04)']),
}
