"""Registry: per property, which generated targets / pinned sources / proofs / harness decide it."""
COMMON_TRUSTED = [
    'Coq 8.16.1 kernel (coqc); vm_compute used for finite computations; no native_compute',
    'translator tools/py2coq.py + tools/gen.py (Python ast -> Gallina; fail closed; validated by the correspondence check)',
    'hand-written semantics of Python/numpy/zfpy constructs in coq/Lib/Py.v (exceptions, range, slice assignment, basic indexing, squeeze, zeros+fill)',
    'ZFP structural assumption: a fixed-rate stream decodes unit-wise, units in C order, each a function of its own bytes (validated against zfpy on every run, not proved)',
    'extraction: ExtrOcamlBasic only (bool, option, unit, list, prod, sumbool, sumor, andb, orb); Z/positive kept as extracted inductives; ocaml/driver.ml text protocol',
    'harness: tools/hz.py (version injection via pkg_resources wrapper, counting file), tools/corr_reads.py',
]
READER_TARGETS = ['Reader', 'read.SgzReader', 'loader.SgzLoader', 'Utils', 'Version']
READER_PINS = ['loader.SgzLoader._get_compressed_bytes', 'loader.SgzLoader._decompress',
               'loader.SgzLoader._decompress_into_array', 'loader.SgzLoader.load_compressed_volume',
               'read.SgzReader.__init__.fileopen', 'read.SgzReader.__init__.coords']

WRITER_PINS = ['conversion_utils.compressor', 'conversion_utils.numpy_producer', 'conversion_utils.seismic_file_producer',
               'conversion_utils.io_thread_func', 'conversion_utils.MinimalInlineReader.__init__',
               'conversion_utils.MinimalInlineReader.get_format_code', 'conversion_utils.MinimalInlineReader.self_test',
               'conversion_utils.MinimalInlineReader.read_line']

PROPS = {
    'C01': dict(gen_targets=['Producer', 'Utils', 'Reader'], pins=WRITER_PINS, harness='writer.py',
                trusted=['tools/genx_producer.py + tools/miniast.py (structural, fail-closed extraction of the producers\' arithmetic)',
                         'hand model (coq/Model/Writer.v): numpy slicing clips, np.pad edge = clamp, buffer row a of plane set p = padded row p*bs0+a, zfpy.compress_numpy emits unit codes in C order (validated: harness O3 + byte-exact comparison of every array handed to the compressor)'],
                assumptions=['FIFO order of the two queues (C16)', 'MinimalInlineReader.read_line(L) returns line L of the SEG-Y (pinned; validated by the reduced-I/O route cases)',
                             'VDS/ZGY routes: not executed in the quick tier (ZGY cannot run in this sandbox: np.round_)']),
    'C02': dict(gen_targets=READER_TARGETS, pins=READER_PINS, harness='reads.py',
                trusted=['positive denominators of the rate fraction assumed when comparing rationals'],
                assumptions=['codec values are abstract: results are provenance grids; bitwise equality follows for any unit-local codec'],
                notes=[]),
    'C14': dict(gen_targets=READER_TARGETS, pins=READER_PINS, harness='reads.py', trusted=[], assumptions=[]),
    'C07': dict(gen_targets=READER_TARGETS, pins=READER_PINS, harness='reads.py', trusted=[],
                assumptions=['I/O traces of model and implementation are compared after coalescing adjacent ranges']),
    'C03': dict(gen_targets=['Version'], pins=[], harness='version.py', trusted=[],
                assumptions=['string constructor is a hand model of the pinned source text (int() restricted to digit strings)']),
    'C20': dict(gen_targets=['Hash', 'Utils'],
                pins=['conversion_utils.MinimalInlineReader.read_line', 'utils.Geometry3d.__init__', 'utils.Geometry2d.__init__'],
                harness='hash.py',
                trusted=['tools/genx_hash.py (fail-closed extraction of the slices passed to hash_object.update, write/read offsets of the digest)',
                         'hashlib streaming: update(a); update(b) == update(a+b) (checked per case by the harness)'],
                assumptions=['SHA-1 abstract (Section variable H): sensitivity holds up to a collision of H',
                             'samples compared as float32 bit patterns',
                             'irregular sources with holes: the stored hash is that of the zero-filled grid (recorded as a note; outside the property quantifier "cubes and 2D sections")']),
}
