"""Registry: per property, which generated targets / pinned sources / proofs / harness decide it."""
COMMON_TRUSTED = [
    'Coq 8.16.1 kernel (coqc); vm_compute used for finite computations; no native_compute',
    'translator tools/py2coq.py + tools/gen.py (Python ast -> Gallina; fail closed; validated by the correspondence check)',
    'hand-written semantics of Python/numpy/zfpy constructs in coq/Lib/Py.v (exceptions, range, slice assignment, basic indexing, squeeze, zeros+fill)',
    'ZFP structural assumption: a fixed-rate stream decodes unit-wise, units in C order, each a function of its own bytes (validated against zfpy on every run, not proved)',
    'extraction: ExtrOcamlBasic only (bool, option, unit, list, prod, sumbool, sumor, andb, orb); Z/positive kept as extracted inductives; ocaml/driver.ml text protocol',
    'harness: tools/hz.py (version injection via pkg_resources wrapper, counting file), tools/corr_reads.py',
]
READER_TARGETS = ['Reader', 'read.SgzReader', 'loader.SgzLoader', 'Utils', 'Version']
READER_PINS = ['loader.SgzLoader._get_compressed_bytes', 'loader.SgzLoader._decompress',
               'loader.SgzLoader._decompress_into_array', 'loader.SgzLoader.load_compressed_volume',
               'read.SgzReader.__init__.fileopen', 'read.SgzReader.__init__.coords']

PROPS = {
    'C02': dict(gen_targets=READER_TARGETS, pins=READER_PINS, harness='reads.py',
                trusted=['positive denominators of the rate fraction assumed when comparing rationals'],
                assumptions=['codec values are abstract: results are provenance grids; bitwise equality follows for any unit-local codec'],
                notes=[]),
    'C14': dict(gen_targets=READER_TARGETS, pins=READER_PINS, harness='reads.py', trusted=[], assumptions=[]),
    'C07': dict(gen_targets=READER_TARGETS, pins=READER_PINS, harness='reads.py', trusted=[],
                assumptions=['I/O traces of model and implementation are compared after coalescing adjacent ranges']),
    'C03': dict(gen_targets=['Version'], pins=[], harness='version.py', trusted=[],
                assumptions=['string constructor is a hand model of the pinned source text (int() restricted to digit strings)']),
}
