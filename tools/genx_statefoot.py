#!/usr/bin/env python3
"""genx_statefoot.py -- plug-in generator for property C15a (state footprint): emits coq/Gen/StateFoot.v.

A fail-closed static census, with Python `ast`, of WHICH OBJECT STATE every method of the public classes can write:

  census classes : read.SgzReader; loader.SgzLoader / SgzLoader2d / SgzLoader3d; conversion.SeismicFileConverter /
                   SegyConverter / ZgyConverter / VdsConverter / SgzConverter / NumpyConverter; cropping.SgzCropper;
                   accessors.*; segyio_emulator.SegyioEmulator / DimensionalityError; sgz_xarray.*; function open.open
  helper modules : headers, utils, conversion_utils, seismicfile, version (their functions and classes are analysed the
                   same way, so that a call into them contributes what it does to the caller's objects)

Write events recognised: `x.a = v`, `x.a += v`, `del x.a`, `x.a[i] = v` / `x[i] = v` (content), `setattr/delattr` with a
literal name, calls of a known mutator name on an object path (containers, numpy in-place, file handles: position /
closed, locks, cache_clear), `with <object path>:` (a lock), `out=` keywords and a few external in-place functions,
class-level attributes (`Class.a = `, `type(self).a = `, `self.__class__.a = `), module globals (`global`, or mutation of a
module-level object), mutable default arguments that are mutated or escape, lru_cache tables (a call of an lru-wrapped
method / attribute writes that table).  `x` is resolved through local aliases (`r = self`, `a = self.loader.f`,
`for k, v in self.d.items()`), through the fields of locally constructed package objects that capture an argument by
reference (`HeaderwordInfo(variant_header_dict=self.trace_headers)`), and interprocedurally: self.<method>() through
the MRO of the concrete class (virtual dispatch, super()), methods of attribute objects whose class is known from the
constructor (`self.loader = SgzLoader3d(...)`), attributes bound to functions or bound methods in a constructor
(`self.file.read_range = utils.read_range_file`, `self.values_function = self.read_inline_number`), package functions
and constructors, `executor.submit(f, ...)` / `Thread(target=f, args=...)`.
External callees (numpy, segyio, builtins ...) are ASSUMED not to mutate their arguments, except the listed in-place
ones; the names of those that receive object state are emitted (external_receivers) and tools/checks/historyx.py checks
the census against `vars(obj)` snapshots on real objects.

GenFail (no output, the C15a proofs stop building): exec / eval / compile / globals / locals / vars / __import__,
getattr / setattr / delattr with a non-literal name, `__dict__`, `nonlocal`, starred assignment to attributes, a
decorator other than staticmethod / lru_cache(maxsize=N), a call of self.<name>() that resolves to nothing, metaclasses.

Token syntax (strings):  a.b         attribute a.b of the receiver is (re)bound or deleted
                         a.b[]       content of the object held in a.b is mutated
                         a.b@pos     file-handle position moved (seek / read / write ...)      a.b@closed   handle closed
                         a.b@lru     lookup in (hence possible insertion into) an lru_cache table
                         a.b@with    used as a context manager (a lock): held during the call, released on exit
                         @class:C.a  @global:mod.name  @default:C.m.p   class attribute / module global / shared default
"""
import ast, os

OUTPUTS = ['StateFoot']

CENSUS_MODULES = ['read', 'loader', 'conversion', 'cropping', 'accessors', 'segyio_emulator', 'open', 'sgz_xarray']
HELPER_MODULES = ['headers', 'utils', 'conversion_utils', 'seismicfile', 'version', 'sgzconstants']
CONTAINER_MUTATORS = {'append', 'extend', 'insert', 'remove', 'pop', 'popitem', 'clear', 'update', 'setdefault', 'sort',
                      'reverse', 'add', 'discard', 'difference_update', 'intersection_update', 'symmetric_difference_update',
                      'fill', 'resize', 'put', 'itemset', 'setflags', 'partition', 'appendleft', 'popleft', 'rotate',
                      'move_to_end', 'setfield', 'update_table'}
HANDLE_MUTATORS = {'read_range', 'seek', 'read', 'write', 'readinto', 'truncate', 'flush', 'readline', 'readlines', 'writelines', 'read1'}
LOCK_MUTATORS = {'acquire', 'release'}
EXTERNAL_INPLACE = {'shuffle', 'copyto', 'putmask', 'place', 'fill_diagonal', 'put_along_axis'}     # first argument written
FORBIDDEN_CALLS = {'exec', 'eval', 'compile', 'globals', 'locals', 'vars', '__import__'}
LIFECYCLE = ('__init__', '__new__', '__enter__', '__exit__', '__del__', 'close', 'close_sgz_file')
READONLY_PARAM_METHODS = {'items', 'keys', 'values', 'get', 'copy', '__contains__', 'index', 'count'}
PURE_BUILTINS = {'sorted', 'dict', 'list', 'tuple', 'len', 'set', 'frozenset', 'enumerate', 'zip', 'iter', 'any', 'all', 'sum',
                 'min', 'max', 'OrderedDict', 'isinstance', 'reversed', 'map', 'filter', 'str', 'repr', 'bool', 'int'}


class Fail(Exception):
    pass


def need(cond, msg):
    if not cond:
        raise Fail(msg)


def U(n):
    return ast.unparse(n)


def cs(s):
    need('"' not in s and '\\' not in s, f'cannot quote {s!r}')
    return '"' + s + '"'


def cl(xs):
    return '[' + '; '.join(cs(x) for x in xs) + ']'


# ---------------------------------------------------------------------------------------------- program database
class DB:
    def __init__(self, srcdir):
        self.mods = {}
        for m in CENSUS_MODULES + HELPER_MODULES:
            p = os.path.join(srcdir, m + '.py')
            need(os.path.exists(p), f'{m}.py missing')
            self.mods[m] = ast.parse(open(p).read())
        self.classes = {}        # name -> (module, ClassDef)        (class names are unique in the package: checked)
        self.funcs = {}          # (module, name) -> FunctionDef      module-level functions
        self.imports = {}        # module -> {local name: ('mod', m) | ('obj', m, n) | ('ext', dotted)}
        self.globals_mut = {}    # module -> set of module-level names bound to mutable objects
        self.class_attrs = {}    # class -> [names assigned in the class body]
        for m, t in self.mods.items():
            imp = {}
            gm = set()
            for n in t.body:
                if isinstance(n, ast.ClassDef):
                    need(n.name not in self.classes, f'class {n.name} defined twice in the package')
                    need(not n.keywords, f'class {n.name}: metaclass / class keywords')
                    need(not n.decorator_list, f'class {n.name}: class decorator')
                    self.classes[n.name] = (m, n)
                    attrs = []
                    for s in n.body:
                        if isinstance(s, (ast.Assign, ast.AnnAssign, ast.AugAssign)):
                            for tg in (s.targets if isinstance(s, ast.Assign) else [s.target]):
                                need(isinstance(tg, ast.Name), f'class {n.name}: class-level target {U(tg)}')
                                attrs.append(tg.id)
                        elif isinstance(s, (ast.FunctionDef,)) or (isinstance(s, ast.Expr) and isinstance(s.value, ast.Constant)) \
                                or isinstance(s, ast.Pass):
                            pass
                        else:
                            raise Fail(f'class {n.name}: class-level statement {U(s)[:60]}')
                    self.class_attrs[n.name] = attrs
                elif isinstance(n, ast.FunctionDef):
                    self.funcs[(m, n.name)] = n
                elif isinstance(n, ast.Import):
                    for al in n.names:
                        nm = al.asname or al.name.split('.')[0]
                        imp[nm] = ('pkg',) if al.name == 'seismic_zfp' else ('ext', al.name if al.asname else al.name.split('.')[0])
                elif isinstance(n, ast.ImportFrom):
                    src = n.module or ''
                    inpkg = n.level > 0 or src.split('.')[0] == 'seismic_zfp'
                    sub = src.split('.')[-1] if src else ''
                    if src == 'seismic_zfp' and n.level == 0:
                        sub = ''
                    for al in n.names:
                        nm = al.asname or al.name
                        if inpkg and sub in self.mods:
                            imp[nm] = ('obj', sub, al.name)
                        elif inpkg and sub == '' and al.name in self.mods:
                            imp[nm] = ('mod', al.name)
                        elif inpkg:
                            imp[nm] = ('ext', f'seismic_zfp.{sub}.{al.name}')
                        else:
                            imp[nm] = ('ext', f'{src}.{al.name}')
                elif isinstance(n, (ast.Assign, ast.AnnAssign)):
                    v = n.value
                    for tg in (n.targets if isinstance(n, ast.Assign) else [n.target]):
                        if isinstance(tg, ast.Name) and isinstance(v, (ast.Dict, ast.List, ast.Set, ast.ListComp, ast.DictComp, ast.Call)):
                            gm.add(tg.id)
                elif isinstance(n, ast.Try):
                    for s in ast.walk(n):
                        if isinstance(s, ast.Import):
                            for al in s.names:
                                imp[al.asname or al.name.split('.')[0]] = ('ext', al.name)
                        elif isinstance(s, ast.ImportFrom):
                            for al in s.names:
                                imp[al.asname or al.name] = ('ext', f'{s.module}.{al.name}')
                        elif isinstance(s, (ast.Assign,)):
                            for tg in s.targets:
                                if isinstance(tg, ast.Name):
                                    imp.setdefault(tg.id, ('ext', tg.id))
            self.imports[m] = imp
            self.globals_mut[m] = gm
        self._mro = {}

    def bases(self, cname):
        m, c = self.classes[cname]
        out = []
        for b in c.bases:
            nm = U(b)
            if nm in self.classes:
                out.append(nm)
            elif isinstance(b, ast.Name) and self.imports[m].get(nm, ('?',))[0] == 'obj' and self.imports[m][nm][2] in self.classes:
                out.append(self.imports[m][nm][2])
            else:
                out.append('ext:' + nm)
        return out

    def mro(self, cname):
        if cname not in self._mro:
            out = [cname]
            for b in self.bases(cname):
                if not b.startswith('ext:'):
                    for x in self.mro(b):
                        if x not in out:
                            out.append(x)
            self._mro[cname] = out
        return self._mro[cname]

    def methods(self, cname):
        m, c = self.classes[cname]
        return {n.name: n for n in c.body if isinstance(n, ast.FunctionDef)}

    def lookup(self, cname, meth, after=None):
        """(defining class, FunctionDef) along the MRO of cname (after class `after` for super())"""
        chain = self.mro(cname)
        if after is not None:
            need(after in chain, f'super({after}, ...) outside the MRO of {cname}')
            chain = chain[chain.index(after) + 1:]
        for k in chain:
            ms = self.methods(k)
            if meth in ms:
                return k, ms[meth]
        return None

    def ext_bases(self, cname):
        return sorted({b[4:] for k in self.mro(cname) for b in self.bases(k) if b.startswith('ext:')})

    def decorator_kind(self, f, where):
        kind = 'method'
        for dcr in f.decorator_list:
            if isinstance(dcr, ast.Name) and dcr.id == 'staticmethod':
                kind = 'static'
            elif isinstance(dcr, ast.Call) and isinstance(dcr.func, ast.Name) and dcr.func.id == 'lru_cache' and not dcr.args \
                    and len(dcr.keywords) == 1 and dcr.keywords[0].arg == 'maxsize':
                kind = 'lru'
            else:
                raise Fail(f'{where}: decorator {U(dcr)}')
        return kind


# ---------------------------------------------------------------------------------------------- summaries
# a root is (kind, name, path): ('self','',p) | ('param',n,p) | ('local',n,p) | ('global',mod.name,p) | ('class',C,p)
#                               | ('default', 'C.m.p', p)
# a write is (root, how) with how in '', '[]', '@pos', '@closed', '@lru', '@with', '@lock'
class Summary:
    def __init__(self):
        self.writes = set()
        self.captures = set()       # (self path, param name, param path): self.<path> := reference to the argument
        self.ret = set()            # roots the result may alias
        self.ext = set()            # external callees that received object state


class Analyzer:
    def __init__(self, db):
        self.db = db
        self.memo = {}
        self.prev = {}
        self.stack = []
        self.changed = False
        self.attr_types = {}         # class -> {attr: {class names}}
        self.attr_funcs = {}         # class -> {path tuple: {('func', mod, name)}}     attribute bound to a package function
        self.attr_meths = {}         # class -> {attr: {method names}}                  attribute bound to self.<method>
        self.attr_lru = {}           # class -> {attr: wrapped method name}
        self.ctor_param_types = {}   # class -> {param: {class names}}  from the construction sites in the package
        self.notes = set()

    # ---------- constructor facts (per concrete class): found by walking the __init__ chain
    def ctor_facts(self, cname):
        if cname in self.attr_types:
            return
        db = self.db
        types, funcs, meths, lrus = {}, {}, {}, {}
        self.attr_types[cname], self.attr_funcs[cname], self.attr_meths[cname], self.attr_lru[cname] = types, funcs, meths, lrus
        seen = set()

        def walk_method(defcls, f):
            if (defcls, f.name) in seen:
                return
            seen.add((defcls, f.name))
            mod = db.classes[defcls][0]
            for n in ast.walk(f):
                if isinstance(n, ast.Assign) and len(n.targets) == 1:
                    tg, v = n.targets[0], n.value
                    path = self_path(tg)
                    if path:
                        if isinstance(v, ast.Call):
                            inner = v
                            # X(...).__enter__()
                            if isinstance(inner.func, ast.Attribute) and inner.func.attr == '__enter__' and isinstance(inner.func.value, ast.Call):
                                inner = inner.func.value
                            cn = self.class_of_callee(mod, inner.func)
                            if cn and len(path) == 1:
                                types.setdefault(path[0], set()).add(cn)
                            # lru_cache(maxsize=...)(self.m)
                            if isinstance(v.func, ast.Call) and isinstance(v.func.func, ast.Name) and v.func.func.id == 'lru_cache' \
                                    and len(v.args) == 1 and self_path(v.args[0]) and len(self_path(v.args[0])) == 1 and len(path) == 1:
                                lrus[path[0]] = self_path(v.args[0])[0]
                        fn = self.func_of_expr(mod, v)
                        if fn:
                            funcs.setdefault(tuple(path), set()).add(fn)
                        vp = self_path(v)
                        if vp and len(vp) == 1 and len(path) == 1 and db.lookup(cname, vp[0]):
                            meths.setdefault(path[0], set()).add(vp[0])
                        if isinstance(v, ast.Name) and len(path) == 1:
                            for t in self.ctor_param_types.get(cname, {}).get(v.id, ()):
                                types.setdefault(path[0], set()).add(t)
                if isinstance(n, ast.Call):
                    # follow self.m(...) and super().__init__(...)
                    tgt = self.self_call_target(cname, defcls, n)
                    if tgt:
                        walk_method(*tgt)
        r = db.lookup(cname, '__init__')
        if r:
            walk_method(*r)

    def class_of_callee(self, mod, func):
        db = self.db
        if isinstance(func, ast.Name):
            if func.id in db.classes and db.classes[func.id][0] == mod:
                return func.id
            i = db.imports[mod].get(func.id)
            if i and i[0] == 'obj' and i[2] in db.classes:
                return i[2]
        return None

    def func_of_expr(self, mod, e):
        """a package function named by an expression: name, or seismic_zfp.utils.f"""
        db = self.db
        if isinstance(e, ast.Name):
            if (mod, e.id) in db.funcs:
                return ('func', mod, e.id)
            i = db.imports[mod].get(e.id)
            if i and i[0] == 'obj' and (i[1], i[2]) in db.funcs:
                return ('func', i[1], i[2])
        if isinstance(e, ast.Attribute):
            parts = U(e).split('.')
            if len(parts) >= 2:
                base = db.imports[mod].get(parts[0])
                if base == ('pkg',) and len(parts) == 3 and (parts[1], parts[2]) in db.funcs:
                    return ('func', parts[1], parts[2])
                if base and base[0] == 'mod' and len(parts) == 2 and (base[1], parts[1]) in db.funcs:
                    return ('func', base[1], parts[1])
        return None

    def self_call_target(self, cname, defcls, call):
        """self.m(...) / super().m(...) / super(X, self).m(...) / Base.m(self, ...) -> (defining class, FunctionDef)"""
        db = self.db
        f = call.func
        if not isinstance(f, ast.Attribute):
            return None
        v = f.value
        if isinstance(v, ast.Name) and v.id == 'self':
            return db.lookup(cname, f.attr)
        if isinstance(v, ast.Call) and isinstance(v.func, ast.Name) and v.func.id == 'super':
            if not v.args:
                return db.lookup(cname, f.attr, after=defcls)
            need(len(v.args) == 2 and isinstance(v.args[0], ast.Name) and U(v.args[1]) == 'self', f'super call {U(v)}')
            return db.lookup(cname, f.attr, after=v.args[0].id)
        if isinstance(v, ast.Name) and v.id in db.classes and call.args and U(call.args[0]) == 'self':
            return db.lookup(v.id, f.attr)
        return None

    # ---------- the summary of one function body
    def summarize(self, key):
        """key = ('meth', concrete class, defining class, name) | ('func', module, name)"""
        if key in self.memo:
            return self.memo[key]
        if key in self.stack:
            return self.prev.get(key, Summary())       # recursion: the previous approximation (fixpoint from below)
        self.stack.append(key)
        try:
            s = self.analyze(key)
        finally:
            self.stack.pop()
        old = self.prev.get(key)
        if old is None or (old.writes, old.captures, old.ret, old.ext) != (s.writes, s.captures, s.ret, s.ext):
            self.changed = True
        self.memo[key] = s
        return s

    def analyze(self, key):
        db = self.db
        if key[0] == 'meth':
            _, cname, defcls, name = key
            f = db.methods(defcls)[name]
            mod = db.classes[defcls][0]
            kind = db.decorator_kind(f, f'{defcls}.{name}')
            self.ctor_facts(cname)
        else:
            _, mod, name = key
            f = db.funcs[(mod, name)]
            need(not f.decorator_list, f'{mod}.{name}: decorated function')
            cname = defcls = None
            kind = 'func'
        S = Summary()
        a = f.args
        need(not a.posonlyargs, f'{name}: positional-only parameters')
        params = [x.arg for x in a.args] + [x.arg for x in a.kwonlyargs]
        if a.vararg:
            params.append(a.vararg.arg)
        if a.kwarg:
            params.append(a.kwarg.arg)
        selfname = params[0] if (kind in ('method', 'lru') and params) else None
        need(selfname in (None, 'self', 'cls'), f'{defcls}.{name}: first parameter {selfname}')
        # mutable defaults
        defaults = {}
        pos = a.args[len(a.args) - len(a.defaults):]
        for p, dflt in list(zip(pos, a.defaults)) + [(p, d_) for p, d_ in zip(a.kwonlyargs, a.kw_defaults) if d_ is not None]:
            if isinstance(dflt, (ast.Dict, ast.List, ast.Set, ast.ListComp, ast.DictComp, ast.SetComp)) or \
                    (isinstance(dflt, ast.Call) and U(dflt.func) in ('dict', 'list', 'set', 'collections.OrderedDict', 'OrderedDict', 'bytearray')):
                defaults[p.arg] = f'{defcls or mod}.{name}.{p.arg}'
        # forbidden constructs
        gl = set()
        for n in ast.walk(f):
            if isinstance(n, ast.Nonlocal):
                raise Fail(f'{defcls or mod}.{name}: nonlocal')
            if isinstance(n, ast.Global):
                gl.update(n.names)
            if isinstance(n, ast.Call) and isinstance(n.func, ast.Name) and n.func.id in FORBIDDEN_CALLS:
                raise Fail(f'{defcls or mod}.{name}: call of {n.func.id}')
            if isinstance(n, ast.Attribute) and n.attr in ('__dict__', '__setattr__', '__delattr__', '__slots__'):
                raise Fail(f'{defcls or mod}.{name}: use of {n.attr}')
            if isinstance(n, ast.Call) and isinstance(n.func, ast.Name) and n.func.id in ('getattr', 'setattr', 'delattr', 'hasattr'):
                if n.func.id != 'hasattr':
                    need(len(n.args) >= 2 and isinstance(n.args[1], ast.Constant) and isinstance(n.args[1].value, str),
                         f'{defcls or mod}.{name}: {n.func.id} with a computed name: {U(n)}')
            if isinstance(n, ast.Starred) and isinstance(n.ctx, ast.Store):
                need(isinstance(n.value, ast.Name), f'{defcls or mod}.{name}: starred assignment to {U(n.value)}')
        # names bound locally (assigned anywhere in the function, incl. comprehension / loop / with / except targets)
        local_names = set(params)
        for n in ast.walk(f):
            if isinstance(n, ast.Name) and isinstance(n.ctx, (ast.Store, ast.Del)) and n.id not in gl:
                local_names.add(n.id)
            if isinstance(n, ast.ExceptHandler) and n.name:
                local_names.add(n.name)
            if isinstance(n, (ast.FunctionDef, ast.Lambda)) and n is not f:
                for x in n.args.args + n.args.kwonlyargs:
                    local_names.add(x.arg)
            if isinstance(n, ast.FunctionDef) and n is not f:
                local_names.add(n.name)
        env = Env(self, key, mod, cname, defcls, selfname, params, defaults, local_names, gl)
        env.collect_aliases(f)
        env.collect_writes(f, S)
        # result aliases
        for n in ast.walk(f):
            if isinstance(n, ast.Return) and n.value is not None:
                S.ret |= {r for r in env.roots(n.value) if r[0] in ('self', 'param')}
        # captures: self.path = <reference to a parameter>
        if selfname:
            for n in ast.walk(f):
                if isinstance(n, ast.Assign):
                    for tg in n.targets:
                        for tg1, v1 in pair_targets(tg, n.value):
                            p = self_path(tg1)
                            if p:
                                for r in env.roots(v1):
                                    if r[0] == 'param' and r[1] != selfname:
                                        S.captures.add((tuple(p), r[1], r[2]))
        S.ext |= env.ext
        return S


def self_path(e):
    """self.a.b -> ['a','b'] ; anything else -> None"""
    p = []
    while isinstance(e, ast.Attribute):
        p.append(e.attr)
        e = e.value
    if isinstance(e, ast.Name) and e.id == 'self' and p:
        return list(reversed(p))
    return None


def pair_targets(tg, v):
    if isinstance(tg, (ast.Tuple, ast.List)):
        if isinstance(v, (ast.Tuple, ast.List)) and len(v.elts) == len(tg.elts) and not any(isinstance(x, ast.Starred) for x in tg.elts):
            out = []
            for t1, v1 in zip(tg.elts, v.elts):
                out += pair_targets(t1, v1)
            return out
        out = []
        for t1 in tg.elts:
            out += pair_targets(t1.value if isinstance(t1, ast.Starred) else t1, v)
        return out
    return [(tg, v)]


class Env:
    def __init__(self, an, key, mod, cname, defcls, selfname, params, defaults, local_names, gl):
        self.an, self.key, self.mod, self.cname, self.defcls, self.selfname = an, key, mod, cname, defcls, selfname
        self.params, self.defaults, self.local_names, self.gl = params, defaults, local_names, gl
        self.alias = {}       # local name -> set of roots
        self.fields = {}      # (local name, path) -> set of roots       captured by a constructor
        self.ltypes = {}      # local name -> {class names}
        self.ext = set()

    # ---- roots of an expression
    def roots(self, e):
        db = self.an.db
        if isinstance(e, ast.Name):
            out = set(self.alias.get(e.id, ()))
            if e.id == self.selfname:
                out.add(('self', '', ()))
            elif e.id in self.params:
                out.add(('param', e.id, ()))
                if e.id in self.defaults:
                    out.add(('default', self.defaults[e.id], ()))
            elif e.id in self.local_names:
                out.add(('local', e.id, ()))
            elif e.id in self.gl or e.id in db.globals_mut[self.mod]:
                out.add(('global', f'{self.mod}.{e.id}', ()))
            elif e.id in db.classes:
                out.add(('class', e.id, ()))
            else:
                i = db.imports[self.mod].get(e.id)
                if i and i[0] == 'obj' and i[2] in db.classes:
                    out.add(('class', i[2], ()))
                elif i and i[0] == 'obj' and i[2] in db.globals_mut.get(i[1], ()):
                    out.add(('global', f'{i[1]}.{i[2]}', ()))
            return out
        if isinstance(e, ast.Attribute):
            if e.attr == '__class__':
                return {('class', self.cname, ())} if self.roots(e.value) & {('self', '', ())} else set()
            out = set()
            for (k, n, p) in self.roots(e.value):
                out.add((k, n, p + (e.attr,)))
                if k == 'local':
                    out |= self.fields.get((n, p + (e.attr,)), set())
            return out
        if isinstance(e, ast.Subscript):
            return self.roots(e.value)
        if isinstance(e, ast.Starred):
            return self.roots(e.value)
        if isinstance(e, (ast.IfExp,)):
            return self.roots(e.body) | self.roots(e.orelse)
        if isinstance(e, ast.BoolOp):
            out = set()
            for v in e.values:
                out |= self.roots(v)
            return out
        if isinstance(e, ast.NamedExpr):
            return self.roots(e.value)
        if isinstance(e, (ast.Tuple, ast.List)):
            out = set()
            for v in e.elts:
                out |= self.roots(v)
            return out
        if isinstance(e, ast.Call):
            f = e.func
            if isinstance(f, ast.Name) and f.id == 'type' and len(e.args) == 1 and self.roots(e.args[0]) & {('self', '', ())}:
                return {('class', self.cname, ())}
            if isinstance(f, ast.Attribute) and f.attr == '__enter__':
                return self.roots(f.value)
            if isinstance(f, ast.Attribute) and f.attr in ('items', 'values', 'keys', 'get', '__iter__', '__getitem__'):
                return self.roots(f.value)
            if isinstance(f, ast.Name) and f.id in ('enumerate', 'zip', 'sorted', 'reversed', 'iter', 'list', 'tuple') :
                # element references survive (sorted/list copy the container but not the elements)
                out = set()
                for v in e.args:
                    out |= self.roots(v)
                return out
            # results of calls whose summary says the result aliases the receiver / an argument
            for (summ, bind) in self.callees(e):
                for r in summ.ret:
                    out = set()
                    for m_ in self.map_root(r, bind):
                        out.add(m_)
                    if out:
                        return out
            return set()
        return set()

    def collect_aliases(self, f):
        for _ in range(6):
            before = (repr(sorted(map(repr, self.alias.items()))), repr(sorted(map(repr, self.fields.items()))))
            for n in ast.walk(f):
                pairs = []
                if isinstance(n, ast.Assign):
                    for tg in n.targets:
                        pairs += pair_targets(tg, n.value)
                elif isinstance(n, ast.AnnAssign) and n.value is not None:
                    pairs += pair_targets(n.target, n.value)
                elif isinstance(n, ast.NamedExpr):
                    pairs.append((n.target, n.value))
                elif isinstance(n, (ast.For, ast.comprehension)):
                    pairs += pair_targets(n.target, n.iter)
                elif isinstance(n, ast.With):
                    for it in n.items:
                        if it.optional_vars is not None:
                            pairs += pair_targets(it.optional_vars, it.context_expr)
                for tg, v in pairs:
                    if isinstance(tg, ast.Name) and tg.id not in self.gl:
                        rs = {r for r in self.roots(v) if not (r[0] == 'local' and r[1] == tg.id and not r[2])}
                        self.alias.setdefault(tg.id, set()).update(rs)
                        # a locally constructed package object: its class, and what its constructor captured
                        inner = v
                        if isinstance(inner, ast.Call) and isinstance(inner.func, ast.Attribute) and inner.func.attr == '__enter__' \
                                and isinstance(inner.func.value, ast.Call):
                            inner = inner.func.value
                        if isinstance(inner, ast.Call):
                            cn = self.an.class_of_callee(self.mod, inner.func)
                            if cn:
                                self.ltypes.setdefault(tg.id, set()).add(cn)
                                r = self.an.db.lookup(cn, '__init__')
                                if r:
                                    summ = self.an.summarize(('meth', cn, r[0], '__init__'))
                                    bind = self.bind_args(r[1], inner, skip_self=True)
                                    for (spath, pname, ppath) in summ.captures:
                                        for ar in bind.get(pname, set()):
                                            self.fields.setdefault((tg.id, spath), set()).add((ar[0], ar[1], ar[2] + ppath))
            after = (repr(sorted(map(repr, self.alias.items()))), repr(sorted(map(repr, self.fields.items()))))
            if before == after:
                break

    # ---- argument binding
    def bind_args(self, fdef, call, skip_self):
        ps = [x.arg for x in fdef.args.args]
        if skip_self and ps:
            ps = ps[1:]
        bind = {}
        for i, ar in enumerate(call.args):
            if isinstance(ar, ast.Starred):
                rs = self.roots(ar.value)
                for p in ps[i:]:
                    bind.setdefault(p, set()).update(rs)
                if fdef.args.vararg:
                    bind.setdefault(fdef.args.vararg.arg, set()).update(rs)
                break
            if i < len(ps):
                bind.setdefault(ps[i], set()).update(self.roots(ar))
            elif fdef.args.vararg:
                bind.setdefault(fdef.args.vararg.arg, set()).update(self.roots(ar))
        for kw in call.keywords:
            if kw.arg is None:
                rs = self.roots(kw.value)
                for p in ps:
                    bind.setdefault(p, set()).update(rs)
            else:
                bind.setdefault(kw.arg, set()).update(self.roots(kw.value))
        return bind

    def map_root(self, r, bind):
        """a root of the callee -> roots of the caller"""
        k, n, p = r
        out = set()
        if k == 'self':
            for b in bind.get('self', set()):
                out.add((b[0], b[1], b[2] + p))
                if b[0] == 'local':
                    for j in range(1, len(p) + 1):
                        for fr in self.fields.get((b[1], b[2] + p[:j]), set()):
                            out.add((fr[0], fr[1], fr[2] + p[j:]))
        elif k == 'param':
            for b in bind.get(n, set()):
                out.add((b[0], b[1], b[2] + p))
                if b[0] == 'local':
                    for j in range(0, len(p) + 1):
                        for fr in self.fields.get((b[1], b[2] + p[:j]), set()):
                            out.add((fr[0], fr[1], fr[2] + p[j:]))
        elif k in ('global', 'class', 'default'):
            out.add(r)
        return out

    # ---- callees of a call expression: [(Summary, binding)], plus direct write tokens through `extra`
    def callees(self, call, extra=None):
        an, db = self.an, self.an.db
        f = call.func
        out = []

        def method_on(cname, recv_roots, mname, after=None, explicit_self=False):
            r = db.lookup(cname, mname, after=after)
            if r is None:
                return False
            defcls, fdef = r
            kind = db.decorator_kind(fdef, f'{defcls}.{mname}')
            if kind == 'static':
                summ = an.summarize(('meth', cname, defcls, mname))
                out.append((summ, self.bind_args(fdef, call, skip_self=False)))
                return True
            summ = an.summarize(('meth', cname, defcls, mname))
            bind = self.bind_args(fdef, call, skip_self=not explicit_self)
            if explicit_self:
                bind['self'] = bind.pop([x.arg for x in fdef.args.args][0], set())
            else:
                bind['self'] = set(recv_roots)
            out.append((summ, bind))
            if kind == 'lru' and extra is not None:
                for rr in recv_roots:
                    extra.add(((rr[0], rr[1], rr[2] + (mname,)), '@lru'))
            return True

        # executor.submit(f, *args) / Thread(target=f, args=(...)): a call of f
        if isinstance(f, ast.Attribute) and f.attr == 'submit' and call.args:
            fake = ast.Call(func=call.args[0], args=call.args[1:], keywords=call.keywords)
            return self.callees(fake, extra)
        if isinstance(f, ast.Name) and f.id == 'Thread':
            tgt = [k.value for k in call.keywords if k.arg == 'target']
            ar = [k.value for k in call.keywords if k.arg == 'args']
            if tgt:
                args = list(ar[0].elts) if ar and isinstance(ar[0], (ast.Tuple, ast.List)) else []
                fake = ast.Call(func=tgt[0], args=args, keywords=[])
                return self.callees(fake, extra)
        if isinstance(f, ast.Attribute):
            tgt = an.self_call_target(self.cname, self.defcls, call) if self.cname else None
            v = f.value
            # super().m / Base.m(self, ..)
            if isinstance(v, ast.Call) and isinstance(v.func, ast.Name) and v.func.id == 'super':
                need(self.cname is not None, 'super() outside a class')
                after = self.defcls if not v.args else v.args[0].id
                ok = method_on(self.cname, {('self', '', ())}, f.attr, after=after)
                if not ok:
                    # the next class in the MRO is external (object, Mapping ...): its method cannot touch our attributes
                    need(db.ext_bases(self.cname) or f.attr in ('__init__', '__new__'), f'{self.defcls}: super().{f.attr} resolves to nothing')
                return out
            if isinstance(v, ast.Name) and v.id in db.classes and call.args and U(call.args[0]) == 'self':
                method_on(v.id, {('self', '', ())}, f.attr, explicit_self=True)
                return out
            recv = self.roots(v)
            handled = False
            for rr in recv:
                k, n, p = rr
                # the receiver's classes
                classes = set()
                if k == 'self' and not p:
                    classes = {self.cname}
                elif k == 'self' and len(p) == 1:
                    classes = set(an.attr_types.get(self.cname, {}).get(p[0], ()))
                elif k == 'local' and not p:
                    classes = set(self.ltypes.get(n, ()))
                elif k == 'param' and not p and self.key[0] == 'meth':
                    classes = set(an.ctor_param_types.get(self.cname, {}).get(n, ())) if self.key[3] == '__init__' else set()
                for cn in sorted(c for c in classes if c):
                    an.ctor_facts(cn)
                    if method_on(cn, {rr}, f.attr):
                        handled = True
                        continue
                    # attribute bound to bound methods of the object (values_function) or created as an lru wrapper
                    if k == 'self' and not p:
                        for mname in sorted(an.attr_meths.get(cn, {}).get(f.attr, ())):
                            method_on(cn, {rr}, mname)
                            handled = True
                        if f.attr in an.attr_lru.get(cn, {}):
                            method_on(cn, {rr}, an.attr_lru[cn][f.attr])
                            if extra is not None:
                                extra.add(((k, n, p + (f.attr,)), '@lru'))
                            handled = True
                # attribute path bound to package functions in the constructor (self.file.read_range)
                if k == 'self':
                    for fn in sorted(an.attr_funcs.get(self.cname, {}).get(p + (f.attr,), ())):
                        summ = an.summarize(fn)
                        out.append((summ, self.bind_args(db.funcs[(fn[1], fn[2])], call, skip_self=False)))
                        handled = True
                if k == 'self' and not p and not handled and self.cname:
                    if db.lookup(self.cname, f.attr) is None and f.attr not in an.attr_types.get(self.cname, {}) \
                            and not an.attr_funcs.get(self.cname, {}).get((f.attr,)):
                        # self.<name>(...) that is neither a method, nor a known callable attribute
                        ctor = self.ctor_attrs_of(self.cname)
                        need(f.attr in ctor or db.ext_bases(self.cname),
                             f'{self.defcls}.{self.key[-1]}: self.{f.attr}() resolves to nothing')
                        if f.attr in ctor:
                            raise Fail(f'{self.defcls}.{self.key[-1]}: self.{f.attr} is called but not known to be bound to a method')
            # module function through a module alias (seismic_zfp.utils.f(...))
            fn = an.func_of_expr(self.mod, f)
            if fn:
                out.append((an.summarize(fn), self.bind_args(db.funcs[(fn[1], fn[2])], call, skip_self=False)))
            return out
        if isinstance(f, ast.Name):
            # alias of a method / function held in a local (load_fcn = self.loader.m)
            for (k, n, p) in self.alias.get(f.id, ()):
                if k == 'self' and p:
                    fake = ast.Call(func=rebuild(('self',) + p), args=call.args, keywords=call.keywords)
                    out += self.callees(fake, extra)
            fn = an.func_of_expr(self.mod, f)
            if fn and f.id not in self.local_names:
                out.append((an.summarize(fn), self.bind_args(db.funcs[(fn[1], fn[2])], call, skip_self=False)))
            cn = an.class_of_callee(self.mod, f)
            if cn and f.id not in self.local_names:
                r = db.lookup(cn, '__init__')
                if r:
                    summ = an.summarize(('meth', cn, r[0], '__init__'))
                    bind = self.bind_args(r[1], call, skip_self=True)
                    bind['self'] = set()           # a fresh object
                    out.append((summ, bind))
        return out

    def ctor_attrs_of(self, cname):
        r = self.an.db.lookup(cname, '__init__')
        if not r:
            return set()
        s = self.an.summarize(('meth', cname, r[0], '__init__'))
        return {w[0][2][0] for w in s.writes if w[0][0] == 'self' and w[0][2]}

    # ---- write events
    def collect_writes(self, f, S):
        db = self.an.db

        def w(roots, how, extra_path=()):
            for (k, n, p) in roots:
                if k == 'local':
                    continue
                S.writes.add(((k, n, p + extra_path), how))

        def target(tg):
            if isinstance(tg, (ast.Tuple, ast.List)):
                for x in tg.elts:
                    target(x)
            elif isinstance(tg, ast.Starred):
                target(tg.value)
            elif isinstance(tg, ast.Name):
                if tg.id in self.gl:
                    S.writes.add((('global', f'{self.mod}.{tg.id}', ()), ''))
            elif isinstance(tg, ast.Attribute):
                w(self.roots(tg.value), '', (tg.attr,))
                # a field of a local object that captured object state is rebound: nothing of ours changes
            elif isinstance(tg, ast.Subscript):
                w(self.roots(tg.value), '[]')
            else:
                raise Fail(f'{self.defcls or self.mod}.{self.key[-1]}: assignment target {U(tg)}')
        for n in ast.walk(f):
            if isinstance(n, ast.Assign):
                for tg in n.targets:
                    target(tg)
            elif isinstance(n, (ast.AugAssign, ast.AnnAssign)):
                if not (isinstance(n, ast.AnnAssign) and n.value is None):
                    target(n.target)
                if isinstance(n, ast.AugAssign) and isinstance(n.target, ast.Name):
                    # x += ... on an alias of a mutable object mutates it in place (list, ndarray)
                    w({r for r in self.alias.get(n.target.id, ())}, '[]')
            elif isinstance(n, ast.Delete):
                for tg in n.targets:
                    target(tg)
            elif isinstance(n, (ast.For, ast.comprehension)):
                target(n.target)
            elif isinstance(n, ast.With):
                for it in n.items:
                    ce = it.context_expr
                    if isinstance(ce, (ast.Attribute, ast.Name)):
                        w(self.roots(ce), '@with')
                    if it.optional_vars is not None:
                        target(it.optional_vars)
            elif isinstance(n, ast.Call):
                fn = n.func
                extra = set()
                if isinstance(fn, ast.Name) and fn.id in ('setattr', 'delattr'):
                    w(self.roots(n.args[0]), '', (n.args[1].value,))
                cal = self.callees(n, extra)
                if isinstance(fn, ast.Attribute) and not cal:
                    # receiver not resolved to package code: classify the call by the method name
                    rr = self.roots(fn.value)
                    if fn.attr in CONTAINER_MUTATORS:
                        w(rr, '[]')
                    elif fn.attr in HANDLE_MUTATORS:
                        w(rr, '@pos')
                    elif fn.attr == 'close':
                        w(rr, '@closed')
                    elif fn.attr in LOCK_MUTATORS:
                        w(rr, '@lock')
                    elif fn.attr == 'cache_clear':
                        w(rr, '@lru')
                    if fn.attr in EXTERNAL_INPLACE and n.args:
                        w(self.roots(n.args[0]), '[]')
                if isinstance(fn, ast.Name) and fn.id in EXTERNAL_INPLACE and n.args:
                    w(self.roots(n.args[0]), '[]')
                for kw in n.keywords:
                    if kw.arg == 'out':
                        w(self.roots(kw.value), '[]')
                for (root, how) in extra:
                    w({root}, how)
                for (summ, bind) in cal:
                    for (root, how) in summ.writes:
                        w(self.map_root(root, bind), how)
                    # a method that captures an argument on the receiver: self.x := argument (setter)
                if not cal:
                    # external callee: remember who receives object state
                    got = set()
                    for ar in list(n.args) + [k.value for k in n.keywords]:
                        got |= {r for r in self.roots(ar) if r[0] in ('self', 'param', 'default') and (r[2] or r[0] != 'param')}
                    if isinstance(fn, ast.Attribute):
                        name = fn.attr
                        known = fn.attr in CONTAINER_MUTATORS | HANDLE_MUTATORS | LOCK_MUTATORS | {'close', 'cache_clear'}
                        if got and not known:
                            self.ext.add(U(fn) if not self.roots(fn.value) else '<obj>.' + name)
                    elif isinstance(fn, ast.Name) and got and fn.id not in PURE_BUILTINS:
                        self.ext.add(fn.id)
        # protocol calls on the object itself: self[...] / len(self) / iter(self) / `for x in self` / `x in self`
        if self.cname and self.selfname == 'self':
            proto = []
            for n in ast.walk(f):
                if isinstance(n, ast.Subscript) and isinstance(n.value, ast.Name) and n.value.id == 'self':
                    proto.append('__getitem__' if isinstance(n.ctx, ast.Load) else ('__setitem__' if isinstance(n.ctx, ast.Store) else '__delitem__'))
                if isinstance(n, ast.Call) and isinstance(n.func, ast.Name) and n.func.id in ('len', 'iter', 'list', 'tuple', 'sorted', 'next', 'str', 'repr', 'bool') \
                        and len(n.args) >= 1 and isinstance(n.args[0], ast.Name) and n.args[0].id == 'self':
                    proto += {'len': ['__len__'], 'iter': ['__iter__'], 'list': ['__iter__', '__len__'], 'tuple': ['__iter__', '__len__'],
                              'sorted': ['__iter__'], 'next': ['__next__'], 'str': ['__str__'], 'repr': ['__repr__'], 'bool': ['__len__']}[n.func.id]
                if isinstance(n, (ast.For, ast.comprehension)) and isinstance(n.iter, ast.Name) and n.iter.id == 'self':
                    proto.append('__iter__')
                if isinstance(n, ast.Compare) and any(isinstance(c_, ast.Name) and c_.id == 'self' for c_ in n.comparators) \
                        and any(isinstance(o_, (ast.In, ast.NotIn)) for o_ in n.ops):
                    proto += ['__contains__', '__getitem__']
            for pm in sorted(set(proto)):
                if db.lookup(self.cname, pm):
                    fake = ast.Call(func=ast.Attribute(value=ast.Name(id='self', ctx=ast.Load()), attr=pm, ctx=ast.Load()), args=[], keywords=[])
                    for (summ, bind) in self.callees(fake, None):
                        for (root, how) in summ.writes:
                            if root[0] != 'param':
                                w(self.map_root(root, bind), how)
                elif pm in ('__setitem__', '__delitem__'):
                    raise Fail(f'{self.defcls}.{self.key[-1]}: item assignment on self without a {pm}')
        # a bound method of the object used as a value (passed to an adapter, stored): it may be called by the receiver
        if self.cname:
            callfuncs = {id(n.func) for n in ast.walk(f) if isinstance(n, ast.Call)}
            callfuncs |= {id(n.value) for n in ast.walk(f) if isinstance(n, ast.Attribute)}     # self.m.cache_clear, self.m.__name__
            for n in ast.walk(f):
                if isinstance(n, ast.Attribute) and isinstance(n.ctx, ast.Load) and id(n) not in callfuncs:
                    p_ = self_path(n)
                    if p_ and len(p_) == 1 and db.lookup(self.cname, p_[0]) and self.selfname == 'self':
                        fake = ast.Call(func=n, args=[], keywords=[])
                        for (summ, bind) in self.callees(fake, None):
                            for (root, how) in summ.writes:
                                if root[0] != 'param':
                                    w(self.map_root(root, bind), how)
        # mutable defaults: any use of the parameter that is not read-only makes the shared default object state
        for p, tok in self.defaults.items():
            esc = False
            parents = {}
            for n in ast.walk(f):
                for ch in ast.iter_child_nodes(n):
                    parents[ch] = n
            for n in ast.walk(f):
                if isinstance(n, ast.Name) and n.id == p and isinstance(n.ctx, ast.Load):
                    par = parents.get(n)
                    ok = False
                    if isinstance(par, ast.Subscript) and par.value is n and isinstance(par.ctx, ast.Load):
                        ok = True
                    elif isinstance(par, ast.Compare):
                        ok = True
                    elif isinstance(par, ast.Attribute) and par.attr in READONLY_PARAM_METHODS and isinstance(parents.get(par), ast.Call):
                        ok = True
                    elif isinstance(par, ast.Call) and isinstance(par.func, ast.Name) and par.func.id in PURE_BUILTINS and n in par.args:
                        ok = True
                    elif isinstance(par, (ast.For, ast.comprehension)) and par.iter is n:
                        ok = True
                    elif isinstance(par, (ast.BoolOp, ast.UnaryOp, ast.IfExp)) and not (isinstance(par, ast.IfExp) and par.test is not n):
                        ok = True
                    if not ok:
                        esc = True
            if esc:
                S.writes.add((('default', tok, ()), '[]'))


def rebuild(parts):
    e = ast.Name(id=parts[0], ctx=ast.Load())
    for p in parts[1:]:
        e = ast.Attribute(value=e, attr=p, ctx=ast.Load())
    return e


# ---------------------------------------------------------------------------------------------- tokens
def token(root, how):
    k, n, p = root
    path = '.'.join(p)
    if k == 'self':
        return path + how if path else '@self' + how
    if k == 'param':
        return '@arg:' + n + ('.' + path if path else '') + how
    if k == 'global':
        return '@global:' + n + ('.' + path if path else '') + how
    if k == 'class':
        return '@class:' + n + ('.' + path if path else '') + how
    if k == 'default':
        return '@default:' + n + how
    raise Fail(f'token of {root}')


# ---------------------------------------------------------------------------------------------- structural side checks
def restore_pattern(fdef):
    """attributes a of self with:  <local> = self.a  at top level, before any write of self.a, and a try/finally whose
    finally block is exactly `self.a = <local>` enclosing every write of self.a"""
    out = []
    body = [s for s in fdef.body if not (isinstance(s, ast.Expr) and isinstance(s.value, ast.Constant))]
    saves = {}
    for i, s in enumerate(body):
        if isinstance(s, ast.Assign) and len(s.targets) == 1 and isinstance(s.targets[0], ast.Name):
            p = self_path(s.value)
            if p and len(p) == 1:
                saves[p[0]] = (i, s.targets[0].id)
    for a_, (i, local) in saves.items():
        tries = [(j, s) for j, s in enumerate(body) if isinstance(s, ast.Try) and j > i and len(s.finalbody) == 1
                 and U(s.finalbody[0]) == f'self.{a_} = {local}']
        if len(tries) != 1:
            continue
        j, tr = tries[0]
        ok = True
        # the local is never reassigned; every store to self.a outside the finally block lies in statements i+1 .. j
        for n in ast.walk(fdef):
            if isinstance(n, ast.Name) and n.id == local and isinstance(n.ctx, ast.Store) and n is not body[i].targets[0]:
                ok = False
        allowed = set()
        for s in body[i + 1:j + 1]:
            allowed |= {id(x) for x in ast.walk(s)}
        for n in ast.walk(fdef):
            if isinstance(n, ast.Attribute) and isinstance(n.ctx, (ast.Store, ast.Del)) and self_path(n) == [a_] and id(n) not in allowed:
                ok = False
        # nothing after the try, no return between the save and the try that skips it
        for s in body[i + 1:j]:
            if any(isinstance(x, (ast.Return, ast.Raise)) for x in ast.walk(s)):
                ok = False
        if body[j + 1:]:
            ok = False
        if ok:
            out.append(a_)
    return out


def scratch_pattern(db, cname, attr):
    """every non-constructor method of the class hierarchy that loads self.<attr> stores it first, unconditionally:
    a top-level statement `self.attr = ...` that precedes (in statement order) every load of it and every call of a
    self method / every use of self as an argument"""
    users = []
    for k in db.mro(cname):
        for name, f in db.methods(k).items():
            if name == '__init__':
                continue
            loads = [n for n in ast.walk(f) if isinstance(n, ast.Attribute) and isinstance(n.ctx, ast.Load) and self_path(n) and self_path(n)[0] == attr]
            stores = [n for n in ast.walk(f) if isinstance(n, ast.Attribute) and isinstance(n.ctx, ast.Store) and self_path(n) == [attr]]
            if not loads and not stores:
                continue
            users.append(name)
            body = [s for s in f.body if not (isinstance(s, ast.Expr) and isinstance(s.value, ast.Constant))]
            first_store = None
            for i, s in enumerate(body):
                if isinstance(s, ast.Assign) and any(self_path(t) == [attr] for t in s.targets):
                    # the right-hand side must not read it
                    if not any(self_path(x) and self_path(x)[0] == attr for x in ast.walk(s.value) if isinstance(x, ast.Attribute)):
                        first_store = i
                    break
                for x in ast.walk(s):
                    if isinstance(x, ast.Attribute) and self_path(x) and self_path(x)[0] == attr:
                        return None
                    if isinstance(x, ast.Call) and isinstance(x.func, ast.Attribute) and isinstance(x.func.value, ast.Name) and x.func.value.id == 'self' \
                            and db.lookup(cname, x.func.attr) and db.decorator_kind(db.lookup(cname, x.func.attr)[1], 'x') != 'static':
                        return None
                    if isinstance(x, ast.Call) and any(isinstance(y, ast.Name) and y.id == 'self' for y in x.args):
                        return None
            if first_store is None:
                return None
    return users


def order_uses(db, cname, cache_dicts):
    """(method, attribute) where a memo dictionary is iterated / its order is observed"""
    out = []
    for k in db.mro(cname):
        for name, f in db.methods(k).items():
            if db.lookup(cname, name)[0] != k:
                continue
            for n in ast.walk(f):
                it = None
                if isinstance(n, (ast.For, ast.comprehension)):
                    it = n.iter
                elif isinstance(n, ast.Call) and isinstance(n.func, ast.Name) and n.func.id in ('list', 'tuple', 'iter', 'next', 'enumerate', 'zip') and n.args:
                    it = n.args[0]
                elif isinstance(n, ast.Call) and isinstance(n.func, ast.Attribute) and n.func.attr == 'popitem':
                    it = n.func.value
                elif isinstance(n, ast.Starred):
                    it = n.value
                if it is None:
                    continue
                if isinstance(it, ast.Call) and isinstance(it.func, ast.Attribute) and it.func.attr in ('items', 'values', 'keys'):
                    it = it.func.value
                p = self_path(it)
                if p and len(p) == 1 and p[0] in cache_dicts:
                    out.append((name, p[0]))
    return sorted(set(out))


def direct_sticky_callers(db, cname):
    """methods (defined below SgzReader in the MRO, or in SgzReader other than _load_variant_headers) that call the
    sticky public read_variant_headers themselves"""
    out = []
    for k in db.mro(cname):
        for name, f in db.methods(k).items():
            if db.lookup(cname, name)[0] != k or name == '_load_variant_headers':
                continue
            for n in ast.walk(f):
                if isinstance(n, ast.Call) and isinstance(n.func, ast.Attribute) and n.func.attr == 'read_variant_headers' \
                        and isinstance(n.func.value, ast.Name) and n.func.value.id == 'self':
                    out.append(name)
    return sorted(set(out))


def cropper_guard(db):
    """SgzCropper calls read_variant_headers directly, but only on structured files: check_and_correct_bounds starts with
    `if not self.structured: raise IndexError(...)` and write_cropped_file_by_indexes calls it first"""
    ms = db.methods('SgzCropper')
    f = ms.get('check_and_correct_bounds')
    g = ms.get('write_cropped_file_by_indexes')
    if f is None or g is None:
        return False
    b = [s for s in f.body if not (isinstance(s, ast.Expr) and isinstance(s.value, ast.Constant))]
    ok1 = bool(b) and isinstance(b[0], ast.If) and U(b[0].test) == 'not self.structured' and len(b[0].body) == 1 \
        and isinstance(b[0].body[0], ast.Raise) and not b[0].orelse
    gb = [s for s in g.body if not (isinstance(s, ast.Expr) and isinstance(s.value, ast.Constant))]
    ok2 = bool(gb) and isinstance(gb[0], ast.Assign) and isinstance(gb[0].value, ast.Call) and U(gb[0].value.func) == 'self.check_and_correct_bounds'
    return ok1 and ok2


def numpy_branch_guard(db):
    """run_conversion_loop touches header_info.headers_dict only on the branches taken when the source is not a
    CubeWithAxes, and NumpyConverter.run passes a CubeWithAxes built on the spot"""
    f = db.funcs.get(('conversion_utils', 'run_conversion_loop'))
    r = db.methods('NumpyConverter').get('run')
    if f is None or r is None:
        return False
    chains = [s for s in f.body if isinstance(s, ast.If) and U(s.test) == 'isinstance(source, CubeWithAxes)']
    if len(chains) != 2:
        return False
    for ch in chains:
        for s in ch.body:
            if 'headers_dict' in U(s):
                return False
    # outside the two if-chains headers_dict / header_info are not passed on, except to the make_header_* calls inside them
    for s in f.body:
        if s in chains:
            continue
        if 'headers_dict' in U(s):
            return False
    src = None
    for s in r.body:
        if isinstance(s, ast.Assign) and isinstance(s.value, ast.Call) and U(s.value.func) == 'CubeWithAxes' and isinstance(s.targets[0], ast.Name):
            src = s.targets[0].id
    calls = [n for n in ast.walk(r) if isinstance(n, ast.Call) and U(n.func) == 'run_conversion_loop']
    return src is not None and len(calls) == 1 and bool(calls[0].args) and U(calls[0].args[0]) == src


# ---------------------------------------------------------------------------------------------- output
def generate(srcdir):
    db = DB(srcdir)
    an = Analyzer(db)
    census_classes = []
    for m in CENSUS_MODULES:
        for n in db.mods[m].body:
            if isinstance(n, ast.ClassDef):
                census_classes.append(n.name)
    # constructor parameter types from construction sites inside the package (SeismicZfpBackendArray(..., sgz_reader))
    for m, t in db.mods.items():
        for fn in ast.walk(t):
            if not isinstance(fn, ast.FunctionDef):
                continue
            ltypes = {}
            for n in ast.walk(fn):
                if isinstance(n, ast.Assign) and len(n.targets) == 1 and isinstance(n.targets[0], ast.Name) and isinstance(n.value, ast.Call):
                    cn = an.class_of_callee(m, n.value.func)
                    if cn:
                        ltypes.setdefault(n.targets[0].id, set()).add(cn)
            for n in ast.walk(fn):
                if isinstance(n, ast.Call):
                    cn = an.class_of_callee(m, n.func)
                    if cn and db.lookup(cn, '__init__'):
                        ps = [x.arg for x in db.lookup(cn, '__init__')[1].args.args][1:]
                        for i, ar in enumerate(n.args):
                            if isinstance(ar, ast.Name) and ar.id in ltypes and i < len(ps):
                                an.ctor_param_types.setdefault(cn, {}).setdefault(ps[i], set()).update(ltypes[ar.id])

    def all_methods(cname):
        out = {}
        for k in reversed(db.mro(cname)):
            for name in db.methods(k):
                out[name] = db.lookup(cname, name)[0]
        return out
    # fixpoint over the whole census
    for it in range(8):
        an.changed = False
        an.prev, an.memo, an.stack = an.memo, {}, []
        for c in census_classes:
            for name, defcls in all_methods(c).items():
                an.summarize(('meth', c, defcls, name))
        for (m, name) in db.funcs:
            an.summarize(('func', m, name))
        if not an.changed:
            break
    need(not an.changed, 'the interprocedural analysis did not reach a fixpoint')

    o = []
    o.append('(* GENERATED by tools/gen.py (plug-in tools/genx_statefoot.py) from seismic_zfp/{read,loader,conversion,cropping,\n'
             '   accessors,segyio_emulator,open,sgz_xarray}.py (+ helper modules) -- DO NOT EDIT.  Regenerated on every check run.\n'
             '   Token syntax: see the header of tools/genx_statefoot.py. *)')
    o.append('From Coq Require Import List String Bool.\nImport ListNotations.\nLocal Open Scope string_scope.\n')
    o.append('Record meth := mkM { m_name : string; m_def : string; m_public : bool; m_kind : string;\n'
             '                     m_direct : list string;      (* written by the statements of the method itself *)\n'
             '                     m_closure : list string;     (* + everything it calls, on the receiver and on global state *)\n'
             '                     m_args : list string }.      (* effects on objects passed in by the caller *)\n'
             'Record class := mkC { c_name : string; c_module : string; c_mro : list string; c_ext_bases : list string;\n'
             '                      c_ctor : list string;        (* footprint of the constructor: the attribute set of the object *)\n'
             '                      c_class_attrs : list string; (* assigned in the class body *)\n'
             '                      c_methods : list meth }.\n')
    rows = []
    ext_all = set()
    restored, scratch_rows, mutable_defaults = [], [], []
    for c in census_classes:
        mod = db.classes[c][0]
        mrows = []
        ctor = []
        for name, defcls in sorted(all_methods(c).items()):
            fdef = db.methods(defcls)[name]
            kind = db.decorator_kind(fdef, f'{defcls}.{name}')
            S = an.memo[('meth', c, defcls, name)]
            # direct = events whose syntactic origin is this body: recompute without callees
            direct = direct_tokens(an, c, defcls, name)
            clos = sorted({token(r, h) for (r, h) in S.writes if r[0] != 'param'} | ({name + '@lru'} if kind == 'lru' else set()))
            args = sorted({token(r, h) for (r, h) in S.writes if r[0] == 'param'})
            ext_all |= S.ext
            public = not name.startswith('_') or (name.startswith('__') and name.endswith('__'))
            mrows.append((name, defcls, public, kind, direct, clos, args))
            if name == '__init__':
                ctor = clos
            if defcls == c or True:
                for a_ in restore_pattern(fdef):
                    if (c, name, a_) not in restored:
                        restored.append((c, name, a_))
            # mutable defaults
            A = fdef.args
            pos = A.args[len(A.args) - len(A.defaults):]
            for p, dflt in zip(pos, A.defaults):
                if isinstance(dflt, (ast.Dict, ast.List, ast.Set)) or (isinstance(dflt, ast.Call) and U(dflt.func) in ('dict', 'list', 'set', 'bytearray')):
                    tok = f'@default:{defcls}.{name}.{p.arg}[]'
                    mutable_defaults.append((c, name, p.arg, tok in clos))
        rows.append((c, mod, db.mro(c), db.ext_bases(c), ctor, db.class_attrs[c], mrows))
    # scratch attributes: written by a non-lifecycle public method, not a cache; candidates = every attribute written outside ctor
    for (c, mod, mro, ext, ctor, cattrs, mrows) in rows:
        cands = set()
        for (name, defcls, public, kind, direct, clos, args) in mrows:
            if name in LIFECYCLE or not public:
                continue
            for t in clos:
                if t and t[0] != '@' and '.' not in t and '[' not in t and '@' not in t:
                    cands.add(t)
        for a_ in sorted(cands):
            u = scratch_pattern(db, c, a_)
            if u:
                scratch_rows.append((c, a_, u))
    o.append('Definition census : list class := [')
    crow = []
    for (c, mod, mro, ext, ctor, cattrs, mrows) in rows:
        ms = ';\n      '.join(f'mkM {cs(n)} {cs(d)} {"true" if pub else "false"} {cs(k)}\n        {cl(di)}\n        {cl(clo)}\n        {cl(ar)}'
                              for (n, d, pub, k, di, clo, ar) in mrows)
        crow.append(f'  mkC {cs(c)} {cs(mod)} {cl(mro)} {cl(ext)}\n    {cl(ctor)}\n    {cl(cattrs)}\n    [ {ms} ]')
    o.append(';\n'.join(crow) + '\n].\n')
    # module-level functions of the census modules (open.open)
    frow = []
    for (m, name), fdef in sorted(db.funcs.items()):
        if m in CENSUS_MODULES:
            S = an.memo[('func', m, name)]
            frow.append(f'({cs(m + "." + name)}, {cl(sorted(token(r, h) for (r, h) in S.writes if r[0] != "param"))}, '
                        f'{cl(sorted(token(r, h) for (r, h) in S.writes if r[0] == "param"))})')
            ext_all |= S.ext
    o.append('(* module-level functions of the census modules: (name, global/class state written, argument effects) *)')
    o.append('Definition census_functions : list (string * list string * list string) := [' + '; '.join(frow) + '].\n')
    o.append('(* save / try / finally-restore recognised syntactically: (class, method, attribute): the attribute is written inside\n'
             '   the call but holds its entry value again when the call returns or raises *)')
    o.append('Definition restored : list (string * string * string) := [' +
             '; '.join(f'({cs(a_)}, {cs(b)}, {cs(c_)})' for (a_, b, c_) in restored) + '].\n')
    o.append('(* per-call scratch recognised syntactically: (class, attribute, methods using it): every method other than the\n'
             '   constructor that reads the attribute assigns it first, unconditionally, before any other use of self *)')
    o.append('Definition scratch : list (string * string * list string) := [' +
             '; '.join(f'({cs(a_)}, {cs(b)}, {cl(u)})' for (a_, b, u) in scratch_rows) + '].\n')
    o.append('(* parameters whose default value is a mutable object: (class, method, parameter, escapes): escapes = the\n'
             '   parameter is used other than read-only (mutated, stored, passed on), so the shared default would carry state *)')
    o.append('Definition mutable_defaults : list (string * string * string * bool) := [' +
             '; '.join(f'({cs(a_)}, {cs(b)}, {cs(c_)}, {"true" if e else "false"})' for (a_, b, c_, e) in sorted(set(mutable_defaults))) + '].\n')
    o.append('(* lru_cache tables: decorated methods (one table per function, for the whole process) and wrappers created by a\n'
             '   constructor (one table per object): (class, attribute or method, wrapped method) *)')
    lr = []
    for c in census_classes:
        an.ctor_facts(c)
        for name, defcls in sorted(all_methods(c).items()):
            if db.decorator_kind(db.methods(defcls)[name], 'x') == 'lru':
                lr.append((c, name, name))
        for at, wm in sorted(an.attr_lru.get(c, {}).items()):
            lr.append((c, at, wm))
    o.append('Definition lru_tables : list (string * string * string) := [' + '; '.join(f'({cs(a_)}, {cs(b)}, {cs(c_)})' for (a_, b, c_) in lr) + '].\n')
    o.append('(* order-sensitive uses of a memo dictionary (iteration, list(), popitem): (class, method, attribute) *)')
    ou = []
    for c in census_classes:
        if 'SgzReader' in db.mro(c):
            for (mname, at) in order_uses(db, c, {'variant_headers'}):
                ou.append((c, mname, at))
    o.append('Definition memo_order_uses : list (string * string * string) := [' + '; '.join(f'({cs(a_)}, {cs(b)}, {cs(c_)})' for (a_, b, c_) in ou) + '].\n')
    o.append('(* methods that call the sticky public read_variant_headers themselves (not through _load_variant_headers) *)')
    dc = []
    for c in census_classes:
        if 'SgzReader' in db.mro(c):
            for mname in direct_sticky_callers(db, c):
                dc.append((db.lookup(c, mname)[0], mname))
    dc = sorted(set(dc))
    o.append('Definition sticky_header_callers : list (string * string) := [' + '; '.join(f'({cs(a_)}, {cs(b)})' for (a_, b) in dc) + '].')
    o.append(f'Definition cropper_structured_guard : bool := {"true" if cropper_guard(db) else "false"}.')
    o.append(f'Definition numpy_source_branch_guard : bool := {"true" if numpy_branch_guard(db) else "false"}.\n')
    o.append('(* attributes bound in a constructor to bound methods of the object / to package functions (how calls through them\n'
             '   were resolved), and attribute classes found from the constructors *)')
    am, af, at_ = [], [], []
    for c in census_classes:
        an.ctor_facts(c)
        for k, v in sorted(an.attr_meths.get(c, {}).items()):
            am.append(f'({cs(c)}, {cs(k)}, {cl(sorted(v))})')
        for k, v in sorted(an.attr_funcs.get(c, {}).items()):
            af.append(f'({cs(c)}, {cs(".".join(k))}, {cl(sorted(x[1] + "." + x[2] for x in v))})')
        for k, v in sorted(an.attr_types.get(c, {}).items()):
            at_.append(f'({cs(c)}, {cs(k)}, {cl(sorted(v))})')
    o.append('Definition attr_bound_methods : list (string * string * list string) := [' + ';\n  '.join(am) + '].')
    o.append('Definition attr_bound_functions : list (string * string * list string) := [' + ';\n  '.join(af) + '].')
    o.append('Definition attr_classes : list (string * string * list string) := [' + ';\n  '.join(at_) + '].\n')
    o.append('(* external callees that receive object state and are ASSUMED not to mutate it (checked dynamically by historyx) *)')
    o.append(f'Definition external_receivers : list string := {cl(sorted(ext_all))}.')
    DATA.clear()
    DATA.update(dict(rows=rows, restored=restored, scratch=scratch_rows, mutable_defaults=sorted(set(mutable_defaults)),
                     memo_order_uses=ou, sticky=dc, cropper_guard=cropper_guard(db), numpy_guard=numpy_branch_guard(db),
                     external_receivers=sorted(ext_all)))
    return {'StateFoot': '\n'.join(o) + '\n'}


DATA = {}


def census_data(srcdir):
    """the census as Python data (used by tools/checks/historyx.py): rows = [(class, module, mro, ext bases, ctor tokens,
    class attrs, [(method, defining class, public, kind, direct, closure, arg effects)])]"""
    generate(srcdir)
    return dict(DATA)


def direct_tokens(an, cname, defcls, name):
    """tokens whose write event is a statement of this very body (no callee contributions)"""
    key = ('meth', cname, defcls, name)
    db = an.db
    f = db.methods(defcls)[name]

    class NoCalls(Env):
        def callees(self, call, extra=None):
            # resolution is kept (so that self.close() is not mistaken for a handle's close), contributions are dropped
            return [(Summary(), b) for (_, b) in Env.callees(self, call, extra)]
    full = an.analyze.__func__
    # re-run the body analysis with callees disabled
    mod = db.classes[defcls][0]
    kind = db.decorator_kind(f, 'x')
    a = f.args
    params = [x.arg for x in a.args] + [x.arg for x in a.kwonlyargs] + ([a.vararg.arg] if a.vararg else []) + ([a.kwarg.arg] if a.kwarg else [])
    selfname = params[0] if (kind in ('method', 'lru') and params) else None
    gl = set()
    local_names = set(params)
    for n in ast.walk(f):
        if isinstance(n, ast.Global):
            gl.update(n.names)
    for n in ast.walk(f):
        if isinstance(n, ast.Name) and isinstance(n.ctx, (ast.Store, ast.Del)) and n.id not in gl:
            local_names.add(n.id)
    env = NoCalls(an, key, mod, cname, defcls, selfname, params, {}, local_names, gl)
    env.collect_aliases(f)
    S = Summary()
    env.collect_writes(f, S)
    return sorted({token(r, h) for (r, h) in S.writes if r[0] != 'param'})


if __name__ == '__main__':
    import sys
    print(generate(sys.argv[1] if len(sys.argv) > 1 else '/repo/seismic_zfp')['StateFoot'])
