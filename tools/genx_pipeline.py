"""genx_pipeline: fail-closed extraction of the ORDER of queue / thread / file operations of the writer pipeline
(conversion_utils.compressor, writer, run_conversion_loop and the three producers) into coq/Gen/Pipeline.v  (C16).

What is extracted (from the statements of the source, nothing is assumed):
  compressor  : the operations before `while True` (prologue) and inside it (loop), each one of
                  X = <queue>.get()  |  Y = zfpy.compress_numpy(X, ...)  |  <queue>.put(Y)  |  <queue>.task_done()
  writer      : the same, with  <file>.write(header)  and  <file>.write(Y)
  run_conversion_loop : creation of the two bounded queues, creation of the threads, the order of .start(), the producer
                call (which queue it feeds), the order of the .join()s, the flush, the return.
  the queue an operation acts on is resolved through the `args=` tuple of the Thread(...) call: the first Queue created
  in run_conversion_loop is Qc, the second Qw.  A single register per thread is modelled (the variable that holds the item
  in hand); the generator checks the data flow get -> compress -> put / write against it.
  callers     : conversion.py: every call of run_conversion_loop is followed, in the same `with open(.., 'wb') as F`, by
                write_headers(.., F) and write_hash(hash, F) in the calling thread; no thread or queue in conversion.py.
  producers   : every use of the queue parameter is a statement `queue.put(expr)`; no other queue or thread operation.
Anything else -- an unknown statement, a third thread or queue, an operation on a variable the generator cannot
resolve, a put of something that is not the item in hand -- raises: the file is then NOT produced and every proof
that depends on it fails to build (fail closed).

`extract(srcdir)` returns the same information as a Python dict (used by tools/checks/pipeline.py to mirror the
generated programs when it enumerates schedules).
"""
import ast, os

OUTPUTS = ['Pipeline']
PRODUCERS = ('numpy_producer', 'seismic_file_producer_2d', 'seismic_file_producer')
THREAD_IDS = {'compressor': 'TC', 'writer': 'TW'}


class PipelineGenError(Exception):
    pass


def expect(cond, msg):
    if not cond:
        raise PipelineGenError(msg)


def src(node):
    return ast.unparse(node)


def strip_doc(body):
    if body and isinstance(body[0], ast.Expr) and isinstance(body[0].value, ast.Constant) and isinstance(body[0].value.value, str):
        return body[1:]
    return body


def find_function(tree, name):
    fs = [n for n in tree.body if isinstance(n, ast.FunctionDef) and n.name == name]
    expect(len(fs) == 1, f'expected exactly one top-level def {name}, found {len(fs)}')
    return fs[0]


def params(fn):
    a = fn.args
    expect(not a.vararg and not a.kwarg and not a.kwonlyargs and not a.posonlyargs, f'{fn.name}: unusual signature')
    return [x.arg for x in a.args]


def method_call(node, attr):
    """node is  <Name>.<attr>(args)  ->  (name, args, keywords) or None"""
    if isinstance(node, ast.Call) and isinstance(node.func, ast.Attribute) and node.func.attr == attr \
            and isinstance(node.func.value, ast.Name):
        return node.func.value.id, node.args, node.keywords
    return None


# ---------------------------------------------------------------------------------------------- worker threads
def worker_ops(fn, binding, who):
    """binding: parameter name -> ('queue', 'Qc'|'Qw') | ('file',) | ('header',) | ('other',)
    returns (prologue ops, loop ops); ops are tuples ('Get', q) ('Put', q) ('TaskDone', q) ('Compress',)
    ('WriteHeader',) ('WriteFile',)"""
    body = strip_doc(fn.body)
    expect(body and isinstance(body[-1], ast.While), f'{who}: the last statement is not a while loop')
    loop = body[-1]
    expect(isinstance(loop.test, ast.Constant) and loop.test.value is True and not loop.orelse,
           f'{who}: the loop is not `while True:` ({src(loop.test)})')
    state = {'reg': None}      # name of the local variable holding the item in hand

    def kind(name):
        return binding.get(name, (None,))

    def one(st):
        # X = q.get()
        if isinstance(st, ast.Assign) and len(st.targets) == 1 and isinstance(st.targets[0], ast.Name):
            tgt = st.targets[0].id
            expect(tgt not in binding, f'{who}: assignment to parameter {tgt}')
            mc = method_call(st.value, 'get')
            if mc:
                q, args, kws = mc
                expect(kind(q)[0] == 'queue' and not args and not kws, f'{who}: unsupported get: {src(st)}')
                state['reg'] = tgt
                return ('Get', kind(q)[1])
            v = st.value
            if isinstance(v, ast.Call) and src(v.func) == 'zfpy.compress_numpy':
                expect(len(v.args) == 1 and isinstance(v.args[0], ast.Name) and v.args[0].id == state['reg'],
                       f'{who}: compress_numpy is not applied to the item in hand ({state["reg"]}): {src(st)}')
                state['reg'] = tgt
                return ('Compress',)
            raise PipelineGenError(f'{who}: unsupported assignment: {src(st)}')
        if isinstance(st, ast.Expr):
            for attr in ('put', 'task_done', 'write'):
                mc = method_call(st.value, attr)
                if not mc:
                    continue
                obj, args, kws = mc
                expect(not kws, f'{who}: keyword arguments in {src(st)}')
                if attr == 'put':
                    expect(kind(obj)[0] == 'queue', f'{who}: put on something that is not a queue: {src(st)}')
                    expect(len(args) == 1 and isinstance(args[0], ast.Name) and args[0].id == state['reg'],
                           f'{who}: put of something that is not the item in hand ({state["reg"]}): {src(st)}')
                    return ('Put', kind(obj)[1])
                if attr == 'task_done':
                    expect(kind(obj)[0] == 'queue' and not args, f'{who}: unsupported task_done: {src(st)}')
                    return ('TaskDone', kind(obj)[1])
                if attr == 'write':
                    expect(kind(obj)[0] == 'file', f'{who}: write on something that is not the output file: {src(st)}')
                    expect(len(args) == 1 and isinstance(args[0], ast.Name), f'{who}: unsupported write: {src(st)}')
                    a = args[0].id
                    if kind(a)[0] == 'header':
                        return ('WriteHeader',)
                    expect(a == state['reg'], f'{who}: write of something that is neither the header nor the item in hand: {src(st)}')
                    return ('WriteFile',)
        raise PipelineGenError(f'{who}: unsupported statement: {src(st)}')

    pro = [one(s) for s in body[:-1]]
    lp = [one(s) for s in loop.body]
    expect(lp, f'{who}: empty loop')
    # the register must be loop-carried consistently: the second iteration starts with the register of the first; the
    # operations that read it (Compress/Put/WriteFile) before a Get in the loop would read the previous item
    return pro, lp


# ---------------------------------------------------------------------------------------------- producers
def check_producer(fn):
    ps = params(fn)
    expect(ps and ps[0] == 'queue', f'{fn.name}: first parameter is not `queue`')
    nput = 0
    for node in ast.walk(fn):
        if isinstance(node, ast.Name) and node.id in ('Thread', 'Queue', 'compressor', 'writer'):
            raise PipelineGenError(f'{fn.name}: uses {node.id}')
    # every occurrence of the name `queue` must be the object of a statement `queue.put(<one arg>)`
    allowed = set()
    for node in ast.walk(fn):
        if isinstance(node, ast.Expr):
            mc = method_call(node.value, 'put')
            if mc and mc[0] == 'queue':
                expect(len(mc[1]) == 1 and not mc[2], f'{fn.name}: unsupported put: {src(node)}')
                allowed.add(id(node.value.func.value))
                nput += 1
    for node in ast.walk(fn):
        if isinstance(node, ast.Name) and node.id == 'queue' and id(node) not in allowed:
            raise PipelineGenError(f'{fn.name}: the queue is used other than by `queue.put(item)` (line {node.lineno})')
    expect(nput >= 1, f'{fn.name}: never puts')
    for node in ast.walk(fn):
        if isinstance(node, ast.Call) and isinstance(node.func, ast.Attribute) and node.func.attr in ('get', 'task_done', 'join', 'start'):
            if isinstance(node.func.value, ast.Name) and node.func.value.id == 'queue':
                raise PipelineGenError(f'{fn.name}: {src(node)}')
    # no queue operation on ANY other object either (a producer that is handed a second queue, or reaches one through a
    # global, could write past the compressor): the only queue method a producer calls is queue.put
    for node in ast.walk(fn):
        if isinstance(node, ast.Call) and isinstance(node.func, ast.Attribute) and \
                node.func.attr in ('put', 'put_nowait', 'get', 'get_nowait', 'task_done', 'join'):
            if not (node.func.attr == 'put' and isinstance(node.func.value, ast.Name) and node.func.value.id == 'queue'):
                # str.join and os.path.join are not queue operations: they take an argument; queue.join() takes none
                if node.func.attr == 'join' and (node.args or node.keywords):
                    continue
                if node.func.attr == 'get' and (node.args or node.keywords) and not (isinstance(node.func.value, ast.Name) and 'queue' in node.func.value.id.lower()):
                    continue        # dict.get(key[, default])
                raise PipelineGenError(f'{fn.name}: queue operation on another object: {src(node)}')
    for a_ in params(fn)[1:]:
        expect('queue' not in a_.lower(), f'{fn.name}: a second queue parameter `{a_}`')
    return nput


# ---------------------------------------------------------------------------------------------- main thread
SKIP_EXACT = {"hash_object = hashlib.new('sha1')"}


def main_ops(fn, tree):
    ps = params(fn)
    expect('out_filehandle' in ps and 'queue_size' in ps, 'run_conversion_loop: parameters out_filehandle / queue_size missing')
    body = strip_doc(fn.body)
    queues = {}          # local name -> 'Qc' | 'Qw'
    threads = {}         # local name -> (tid, target function name, args)
    header_var = None
    ops = []
    workers = {}
    returned = False
    for st in body:
        expect(not returned, f'run_conversion_loop: statement after return: {src(st)}')
        text = src(st)
        if text in SKIP_EXACT:
            continue
        # header = make_header_...(...) in both branches of the first if
        if isinstance(st, ast.If) and header_var is None and not queues and not threads:
            names = set()
            for br in (st.body, st.orelse):
                expect(len(br) == 1 and isinstance(br[0], ast.Assign) and len(br[0].targets) == 1
                       and isinstance(br[0].targets[0], ast.Name) and isinstance(br[0].value, ast.Call)
                       and src(br[0].value.func).startswith('make_header'), f'run_conversion_loop: unsupported header construction: {text}')
                names.add(br[0].targets[0].id)
            expect(len(names) == 1, 'run_conversion_loop: header assigned to different names')
            header_var = names.pop()
            continue
        if isinstance(st, ast.Assign) and len(st.targets) == 1 and isinstance(st.targets[0], ast.Name) and isinstance(st.value, ast.Call):
            tgt, call = st.targets[0].id, st.value
            if src(call.func) == 'Queue':
                expect(not call.args and len(call.keywords) == 1 and call.keywords[0].arg == 'maxsize'
                       and src(call.keywords[0].value) == 'queue_size', f'run_conversion_loop: queue is not Queue(maxsize=queue_size): {text}')
                expect(tgt not in queues and len(queues) < 2, f'run_conversion_loop: more than two queues / re-assigned queue: {text}')
                queues[tgt] = 'Qc' if not queues else 'Qw'
                continue
            if src(call.func) == 'Thread':
                kw = {k.arg: k.value for k in call.keywords}
                expect(not call.args and set(kw) == {'target', 'args'} and isinstance(kw['target'], ast.Name)
                       and isinstance(kw['args'], ast.Tuple), f'run_conversion_loop: unsupported Thread(...): {text}')
                target = kw['target'].id
                expect(target in THREAD_IDS, f'run_conversion_loop: thread with unknown target {target}')
                expect(all(t[1] != target for t in threads.values()), f'run_conversion_loop: a second {target} thread: {text}')
                expect(tgt not in threads, f'run_conversion_loop: thread variable {tgt} re-assigned')
                expect(all(isinstance(a, ast.Name) for a in kw['args'].elts), f'run_conversion_loop: non-name thread argument: {text}')
                threads[tgt] = (THREAD_IDS[target], target, [a.id for a in kw['args'].elts])
                continue
        if isinstance(st, ast.Assign) and len(st.targets) == 1 and isinstance(st.targets[0], ast.Attribute) \
                and st.targets[0].attr == 'daemon' and isinstance(st.targets[0].value, ast.Name) and st.targets[0].value.id in threads:
            expect(isinstance(st.value, ast.Constant) and st.value.value is True, f'run_conversion_loop: {text}')
            continue
        if isinstance(st, ast.Expr):
            mc = method_call(st.value, 'start')
            if mc and mc[0] in threads:
                expect(not mc[1] and not mc[2], f'run_conversion_loop: {text}')
                tid = threads[mc[0]][0]
                expect(('Start', tid) not in ops, f'run_conversion_loop: {tid} started twice')
                ops.append(('Start', tid))
                continue
            mc = method_call(st.value, 'join')
            if mc:
                expect(mc[0] in queues and not mc[1] and not mc[2], f'run_conversion_loop: join on something that is not one of the queues: {text}')
                ops.append(('Join', queues[mc[0]]))
                continue
            mc = method_call(st.value, 'flush')
            if mc:
                expect(mc[0] == 'out_filehandle' and not mc[1] and not mc[2], f'run_conversion_loop: {text}')
                ops.append(('Flush',))
                continue
        # the producer dispatch: if/elif/else, each branch a single call of a producer with a queue as first argument
        if isinstance(st, ast.If):
            branches, node = [], st
            while True:
                branches.append(node.body)
                if len(node.orelse) == 1 and isinstance(node.orelse[0], ast.If):
                    node = node.orelse[0]
                else:
                    expect(node.orelse, f'run_conversion_loop: producer dispatch without else: {text}')
                    branches.append(node.orelse)
                    break
            fed, called = set(), []
            for br in branches:
                expect(len(br) == 1 and isinstance(br[0], ast.Expr) and isinstance(br[0].value, ast.Call)
                       and isinstance(br[0].value.func, ast.Name) and br[0].value.func.id in PRODUCERS,
                       f'run_conversion_loop: a branch of the producer dispatch is not a single producer call: {src(br[0]) if br else ""}')
                c = br[0].value
                expect(c.args and isinstance(c.args[0], ast.Name) and c.args[0].id in queues,
                       f'run_conversion_loop: producer is not given one of the queues: {src(c)}')
                fed.add(queues[c.args[0].id])
                called.append(c.func.id)
                for other in list(c.args[1:]) + [k_.value for k_ in c.keywords]:
                    expect(not (isinstance(other, ast.Name) and other.id in queues),
                           f'run_conversion_loop: a producer is handed a second queue: {src(c)}')
            expect(len(fed) == 1, 'run_conversion_loop: producers feed different queues')
            expect(sorted(called) == sorted(PRODUCERS), f'run_conversion_loop: producers called: {called}')
            expect(not any(o[0] == 'Produce' for o in ops), 'run_conversion_loop: two producer dispatches')
            ops.append(('Produce', fed.pop()))
            continue
        if isinstance(st, ast.Return):
            expect(src(st) == 'return hash_object.digest()', f'run_conversion_loop: {text}')
            returned = True
            continue
        raise PipelineGenError(f'run_conversion_loop: unsupported statement: {text}')
    expect(returned, 'run_conversion_loop: no return')
    expect(len(queues) == 2, 'run_conversion_loop: expected two queues')
    expect(sorted(t[0] for t in threads.values()) == ['TC', 'TW'], f'run_conversion_loop: threads {sorted(threads)}')
    expect(header_var is not None, 'run_conversion_loop: header construction not found')
    # worker programs, parameters bound through args=
    for var, (tid, target, args) in threads.items():
        wf = find_function(tree, target)
        wps = params(wf)
        expect(len(wps) == len(args), f'{target}: {len(wps)} parameters, {len(args)} arguments')
        binding = {}
        for p, a in zip(wps, args):
            if a in queues:
                binding[p] = ('queue', queues[a])
            elif a == 'out_filehandle':
                binding[p] = ('file',)
            elif a == header_var:
                binding[p] = ('header',)
            else:
                binding[p] = ('other',)
        workers[tid] = worker_ops(wf, binding, target)
    return ops, workers


def caller_ops(srcdir):
    """conversion.py: every call of run_conversion_loop sits in `with open(<name>, 'wb') as F:` as
         hash_bytes = run_conversion_loop(<source>, F, ...); self.write_headers(..., F); self.write_hash(hash_bytes, F)
    i.e. the footer arrays and the hash patch are written by the calling thread, after the call has returned"""
    tree = ast.parse(open(os.path.join(srcdir, 'conversion.py')).read())
    for n in ast.walk(tree):
        if isinstance(n, ast.Name) and n.id in ('Thread', 'Queue', 'compressor', 'writer'):
            raise PipelineGenError(f'conversion.py uses {n.id} (line {n.lineno})')
    calls = [n for n in ast.walk(tree) if isinstance(n, ast.Call) and src(n.func).endswith('run_conversion_loop')]
    expect(calls, 'conversion.py: no call of run_conversion_loop')
    out, seen = [], set()
    for w in ast.walk(tree):
        if not isinstance(w, ast.With):
            continue
        inside = [c for c in calls if any(c is x for st in w.body for x in ast.walk(st))]
        direct = [st for st in w.body if isinstance(st, ast.Assign) and any(st.value is c for c in calls)]
        if not direct:
            continue
        expect(len(w.items) == 1 and isinstance(w.items[0].context_expr, ast.Call) and src(w.items[0].context_expr.func) == 'open'
               and len(w.items[0].context_expr.args) == 2 and src(w.items[0].context_expr.args[1]) == "'wb'"
               and isinstance(w.items[0].optional_vars, ast.Name), f'conversion.py: output file is not `with open(name, \'wb\') as F`: {src(w.items[0])}')
        fh = w.items[0].optional_vars.id
        ops = []
        hashvar = None
        for st in w.body:
            if isinstance(st, ast.Assign) and len(st.targets) == 1 and isinstance(st.targets[0], ast.Name) and isinstance(st.value, ast.Call) \
                    and src(st.value.func) == 'run_conversion_loop':
                expect(len(st.value.args) >= 2 and src(st.value.args[1]) == fh, f'conversion.py: run_conversion_loop is not given the output handle: {src(st)}')
                hashvar = st.targets[0].id
                seen.add(id(st.value))
                ops.append('CallLoop')
            elif isinstance(st, ast.Expr) and isinstance(st.value, ast.Call) and src(st.value.func) == 'self.write_headers':
                expect(st.value.args and src(st.value.args[-1]) == fh, f'conversion.py: {src(st)}')
                ops.append('WriteFooters')
            elif isinstance(st, ast.Expr) and isinstance(st.value, ast.Call) and src(st.value.func) == 'self.write_hash':
                expect(len(st.value.args) == 2 and src(st.value.args[0]) == hashvar and src(st.value.args[1]) == fh, f'conversion.py: {src(st)}')
                ops.append('PatchHash')
            else:
                raise PipelineGenError(f'conversion.py: unsupported statement next to run_conversion_loop: {src(st)}')
        out.append(ops)
    expect(len(seen) == len(calls), 'conversion.py: a call of run_conversion_loop outside the recognised `with open(...)` pattern')
    return out


def extract(srcdir):
    path = os.path.join(srcdir, 'conversion_utils.py')
    tree = ast.parse(open(path).read())
    for p in PRODUCERS:
        check_producer(find_function(tree, p))
    ops, workers = main_ops(find_function(tree, 'run_conversion_loop'), tree)
    # nobody else may touch queues or threads in this module
    for node in tree.body:
        if isinstance(node, ast.FunctionDef) and node.name not in PRODUCERS + ('compressor', 'writer', 'run_conversion_loop'):
            for n in ast.walk(node):
                if isinstance(n, ast.Name) and n.id in ('Thread', 'Queue'):
                    raise PipelineGenError(f'{node.name}: uses {n.id}')
    return {'callers': caller_ops(srcdir), 'main': ops, 'compressor_pro': workers['TC'][0], 'compressor_loop': workers['TC'][1],
            'writer_pro': workers['TW'][0], 'writer_loop': workers['TW'][1]}


def coq_op(o):
    return o[0] if len(o) == 1 else f'{o[0]} {o[1]}'


def coq_list(ops):
    return '[' + '; '.join(coq_op(o) for o in ops) + ']'


TEMPLATE = '''(* GENERATED by tools/genx_pipeline.py from seismic_zfp/conversion_utils.py -- DO NOT EDIT.  Regenerated on every check run.
   The order of the queue / thread / file operations of compressor, writer and run_conversion_loop (C16). *)
From Coq Require Import List.
Import ListNotations.

Inductive qid := Qc | Qw.            (* Qc: first Queue created in run_conversion_loop (fed by the producer); Qw: the second *)
Inductive tid := TM | TC | TW.       (* calling thread, compressor thread, writer thread *)
Inductive op :=
| Start (t : tid)                    (* t.start() *)
| Produce (q : qid)                  (* the producer call: one queue.put per item, n items *)
| Get (q : qid)                      (* X = q.get() *)
| Compress                           (* Y = zfpy.compress_numpy(X, ...) *)
| Put (q : qid)                      (* q.put(Y) *)
| TaskDone (q : qid)                 (* q.task_done() *)
| Join (q : qid)                     (* q.join() *)
| WriteHeader                        (* out_filehandle.write(header) *)
| WriteFile                          (* out_filehandle.write(Y) *)
| Flush.                             (* out_filehandle.flush() *)

(* run_conversion_loop, in statement order, up to `return` *)
Definition main_ops : list op := %(main)s.
(* compressor: statements before `while True`, and the loop body *)
Definition compressor_pro : list op := %(compressor_pro)s.
Definition compressor_loop : list op := %(compressor_loop)s.
(* writer *)
Definition writer_pro : list op := %(writer_pro)s.
Definition writer_loop : list op := %(writer_loop)s.

(* conversion.py: what every caller of run_conversion_loop does with the output handle, in statement order: the footer
   arrays and the hash patch are written by the calling thread after the call has returned *)
Inductive caller_op := CallLoop | WriteFooters | PatchHash.
Definition caller_ops : list (list caller_op) := %(callers)s.
'''


def generate(srcdir):
    d = extract(srcdir)
    sub = {k: coq_list(v) for k, v in d.items() if k != 'callers'}
    sub['callers'] = '[' + '; '.join('[' + '; '.join(c) + ']' for c in d['callers']) + ']'
    return {'Pipeline': TEMPLATE % sub}


if __name__ == '__main__':
    import sys
    print(generate(sys.argv[1] if len(sys.argv) > 1 else '/repo/seismic_zfp')['Pipeline'])
