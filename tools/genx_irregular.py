"""genx_irregular.py -- plug-in generator for C08 (irregular 3D surveys): coq/Gen/Irregular.v.

Everything here is read out of the Python `ast` of /repo/seismic_zfp; a statement that is not recognised makes the
whole target fail (fail closed, never guess).  What is generated (names prefixed `ig_`):

  utils.InferredGeometry3d.get_range          the arithmetic of (min, max, step), with the ZeroDivisionError guard
  utils.InferredGeometry3d.__init__           which key component feeds which axis, which get_range result goes to
        + utils.Geometry3d.__init__           which attribute, and the range() arguments of geom.ilines / geom.xlines
  conversion.SeismicFileConverter.infer_geometry   the two trace-header fields that make the key of traces_ref
  conversion_utils.unstructured_io_thread_func     the lookup key, the buffer subscripts and the footer position
  conversion_utils.seismic_file_producer           (irregular route) buffer allocated with np.zeros, footer length
  conversion_utils.make_header                     partial evaluation with unstructured=True, geom 3D:
                                                   the fields at bytes 8 12 20 24 32 36 60 68
  read.SgzReader._parse_coordinates + utils.gen_coord_list   the byte offsets of (start, step, count) per axis, the element formula
  read.SgzReader.get_unstructured_mask             the header field the population mask is computed from, and the test
"""
import ast, os

OUTPUTS = ['Irregular']


class Fail(Exception):
    pass


def U(node):
    return ast.unparse(node)


def zlit(n):
    return f'({n})' if n < 0 else str(n)


class Ex:
    """tiny fail-closed translator of integer expressions; `env` maps the SOURCE TEXT of a sub-expression to a Coq
    term.  Floor divisions are recorded in self.divisors (the caller emits the ZeroDivisionError guard)."""
    def __init__(self, env, where):
        self.env, self.where, self.divisors = env, where, []

    def tr(self, n):
        t = U(n)
        if t in self.env:
            return self.env[t]
        if isinstance(n, ast.Constant) and isinstance(n.value, int) and not isinstance(n.value, bool):
            return zlit(n.value)
        if isinstance(n, ast.BinOp):
            a, b = self.tr(n.left), self.tr(n.right)
            if isinstance(n.op, ast.Add):
                return f'({a} + {b})'
            if isinstance(n.op, ast.Sub):
                return f'({a} - {b})'
            if isinstance(n.op, ast.Mult):
                return f'({a} * {b})'
            if isinstance(n.op, ast.FloorDiv):
                self.divisors.append(b)
                return f'({a} / {b})'      # Coq Z.div is floor division for every sign of the divisor, as Python //
            raise Fail(f'{self.where}: operator {type(n.op).__name__} in {t!r}')
        if isinstance(n, ast.UnaryOp) and isinstance(n.op, ast.USub):
            return f'(- {self.tr(n.operand)})'
        # np.int32(x): value-preserving for |x| < 2^31 (OverflowError otherwise; the models state the int32 range)
        if isinstance(n, ast.Call) and U(n.func) == 'np.int32' and len(n.args) == 1 and not n.keywords:
            return self.tr(n.args[0])
        raise Fail(f'{self.where}: cannot translate expression {t!r}')


def load(srcdir, mod):
    return ast.parse(open(os.path.join(srcdir, mod + '.py')).read())


def find_func(tree, qual, where):
    parts = qual.split('.')
    body = tree.body
    node = None
    for p in parts:
        node = next((x for x in body if isinstance(x, (ast.FunctionDef, ast.ClassDef)) and x.name == p), None)
        if node is None:
            raise Fail(f'{where}: {qual} not found')
        body = node.body
    if not isinstance(node, ast.FunctionDef):
        raise Fail(f'{where}: {qual} is not a function')
    return node


def code(f):
    """statements of a function without its docstring"""
    return [s for s in f.body if not (isinstance(s, ast.Expr) and isinstance(s.value, ast.Constant))]


def params(f):
    a = f.args
    if a.vararg or a.kwarg or a.kwonlyargs or a.posonlyargs:
        raise Fail(f'{f.name}: unsupported parameter kinds')
    return [x.arg for x in a.args]


def expect(cond, msg):
    if not cond:
        raise Fail(msg)


# ------------------------------------------------------------------------------------------------ utils.py
def gen_get_range(utils):
    f = find_func(utils, 'InferredGeometry3d.get_range', 'utils')
    expect([U(d) for d in f.decorator_list] == ['staticmethod'] and params(f) == ['ids'], 'get_range: signature changed')
    st = code(f)
    expect(len(st) == 1 and isinstance(st[0], ast.Return) and isinstance(st[0].value, ast.Tuple)
           and len(st[0].value.elts) == 3, 'get_range: body is not `return (a, b, c)`')
    ex = Ex({'min(ids)': 'mn', 'max(ids)': 'mx', 'len(ids)': 'cnt'}, 'get_range')
    a, b, c = [ex.tr(e) for e in st[0].value.elts]
    body = f'Return ({a}, {b}, {c})'
    for d in reversed(ex.divisors):
        body = f'if {d} =? 0 then Raise ZeroDivErr else {body}'
    return ('(* utils.InferredGeometry3d.get_range(ids): mn = min(ids), mx = max(ids), cnt = len(ids) (ids is a set) *)\n'
            f'Definition ig_get_range (mn mx cnt : Z) : outcome (Z * Z * Z) :=\n  {body}.\n')


def gen_inferred_init(utils):
    f = find_func(utils, 'InferredGeometry3d.__init__', 'utils')
    expect(params(f) == ['self', 'traces_ref'], 'InferredGeometry3d.__init__: signature changed')
    cls = next(x for x in utils.body if isinstance(x, ast.ClassDef) and x.name == 'InferredGeometry3d')
    expect([U(b) for b in cls.bases] == ['Geometry3d'], 'InferredGeometry3d: base class changed')
    ids = {}        # python name -> key component
    attrs = {}      # self attribute -> coq term
    sup = None
    for s in code(f):
        t = U(s)
        if t == 'self.traces_ref = traces_ref':
            continue
        # X_ids = set([k[c] for k in traces_ref.keys()])
        if isinstance(s, ast.Assign) and len(s.targets) == 1 and isinstance(s.targets[0], ast.Name) \
                and isinstance(s.value, ast.Call) and U(s.value.func) == 'set' and len(s.value.args) == 1:
            lc = s.value.args[0]
            expect(isinstance(lc, ast.ListComp) and len(lc.generators) == 1 and not lc.generators[0].ifs
                   and U(lc.generators[0].target) == 'k' and U(lc.generators[0].iter) == 'traces_ref.keys()'
                   and isinstance(lc.elt, ast.Subscript) and U(lc.elt.value) == 'k'
                   and isinstance(lc.elt.slice, ast.Constant) and lc.elt.slice.value in (0, 1),
                   f'InferredGeometry3d.__init__: unrecognised id set {t!r}')
            ids[s.targets[0].id] = lc.elt.slice.value
            continue
        # self.a, self.b, self.c = self.get_range(X_ids)
        if isinstance(s, ast.Assign) and len(s.targets) == 1 and isinstance(s.targets[0], ast.Tuple) \
                and isinstance(s.value, ast.Call) and U(s.value.func) == 'self.get_range' and len(s.value.args) == 1:
            arg = U(s.value.args[0])
            expect(arg in ids and len(s.targets[0].elts) == 3, f'InferredGeometry3d.__init__: {t!r}')
            for pos, tg in enumerate(s.targets[0].elts):
                expect(isinstance(tg, ast.Attribute) and U(tg.value) == 'self', f'InferredGeometry3d.__init__: {t!r}')
                attrs['self.' + tg.attr] = 'abc'[pos] + str(ids[arg])
            continue
        if isinstance(s, ast.Expr) and isinstance(s.value, ast.Call) and U(s.value.func) == 'super().__init__':
            expect(sup is None, 'InferredGeometry3d.__init__: two super().__init__ calls')
            sup = s.value
            continue
        raise Fail(f'InferredGeometry3d.__init__: unrecognised statement {t!r}')
    expect(sup is not None, 'InferredGeometry3d.__init__: no super().__init__ call')
    for a in ('min_il', 'max_il', 'il_step', 'min_xl', 'max_xl', 'xl_step'):
        expect('self.' + a in attrs, f'InferredGeometry3d.__init__: self.{a} is not assigned from get_range')
    g = find_func(utils, 'Geometry3d.__init__', 'utils')
    gp = params(g)
    expect(gp[0] == 'self', 'Geometry3d.__init__: signature')
    defaults = dict(zip(gp[len(gp) - len(g.args.defaults):], g.args.defaults))
    ex = Ex(dict(attrs), 'InferredGeometry3d.__init__ super() call')
    bound = {}
    for p, a in zip(gp[1:], sup.args):
        bound[p] = ex.tr(a)
    for kw in sup.keywords:
        expect(kw.arg in gp and kw.arg not in bound, 'InferredGeometry3d.__init__: bad keyword in super() call')
        bound[kw.arg] = ex.tr(kw.value)
    for p in gp[1:]:
        if p not in bound:
            expect(p in defaults, f'Geometry3d.__init__: parameter {p} not supplied')
            bound[p] = Ex({}, 'Geometry3d default').tr(defaults[p])
    expect(not ex.divisors, 'division in super() call')
    rng = {}
    for s in code(g):
        expect(isinstance(s, ast.Assign) and len(s.targets) == 1 and U(s.targets[0]) in ('self.ilines', 'self.xlines')
               and isinstance(s.value, ast.Call) and U(s.value.func) == 'range' and len(s.value.args) == 3
               and not s.value.keywords, f'Geometry3d.__init__: unrecognised statement {U(s)!r}')
        e2 = Ex(dict(bound), 'Geometry3d.__init__')
        rng[U(s.targets[0])] = [e2.tr(a) for a in s.value.args]
        expect(not e2.divisors, 'division in range() arguments')
    expect(set(rng) == {'self.ilines', 'self.xlines'}, 'Geometry3d.__init__: ilines/xlines not both assigned')
    P = '(a0 b0 c0 a1 b1 c1 : Z)'
    out = ['(* utils.InferredGeometry3d.__init__: (a0, b0, c0) = get_range of the set of FIRST key components,\n'
           '   (a1, b1, c1) = get_range of the set of SECOND key components of traces_ref *)\n']
    for a in ('min_il', 'max_il', 'il_step', 'min_xl', 'max_xl', 'xl_step'):
        out.append(f'Definition ig_{a} {P} : Z := {attrs["self." + a]}.\n')
    out.append('(* geom.ilines = range(lo, hi, step), geom.xlines likewise (Geometry3d.__init__ through super().__init__) *)\n')
    for ax, nm in (('self.ilines', 'ilines'), ('self.xlines', 'xlines')):
        lo, hi, st = rng[ax]
        out.append(f'Definition ig_{nm}_range {P} : Z * Z * Z := ({lo}, {hi}, {st}).\n')
    return ''.join(out)


def gen_coord_list(utils):
    """gen_coord_list(start, step, count): one integer expression per element k of np.arange(count)"""
    f = find_func(utils, 'gen_coord_list', 'utils')
    st = code(f)
    expect(params(f) == ['start', 'step', 'count'] and len(st) == 1 and isinstance(st[0], ast.Return),
           'utils.gen_coord_list: signature or shape changed')
    ex = Ex({'start': 'start', 'step': 'step', 'np.arange(count)': 'k'}, 'gen_coord_list')
    t = ex.tr(st[0].value)
    expect(not ex.divisors and 'k' in t.replace('(', ' ').replace(')', ' ').split(), 'utils.gen_coord_list: not elementwise in np.arange(count)')
    return ('(* utils.gen_coord_list(start, step, count): element k (0 <= k < count) of the returned array, from\n'
            '   `' + U(st[0]) + '` (numpy broadcasting over np.arange(count)) *)\n'
            f'Definition ig_coord_elem (start step k : Z) : Z := {t}.\n')


# ------------------------------------------------------------------------------------------------ conversion.py
def gen_infer_geometry(conv):
    f = find_func(conv, 'SeismicFileConverter.infer_geometry', 'conversion')
    st = code(f)
    expect(len(st) == 3 and U(st[1]) == 'self.geom = InferredGeometry3d(traces_ref)'
           and isinstance(st[2], ast.Expr) and U(st[2]).startswith('print('), 'infer_geometry: statements changed')
    s = st[0]
    expect(isinstance(s, ast.Assign) and U(s.targets[0]) == 'traces_ref' and isinstance(s.value, ast.DictComp),
           'infer_geometry: traces_ref is not a dict comprehension')
    dc = s.value
    expect(len(dc.generators) == 1 and not dc.generators[0].ifs and U(dc.generators[0].target) == '(i, h)'
           and U(dc.generators[0].iter) == 'enumerate(seismic.header)' and U(dc.value) == 'i'
           and isinstance(dc.key, ast.Tuple) and len(dc.key.elts) == 2, 'infer_geometry: comprehension changed')
    fields = []
    for e in dc.key.elts:
        expect(isinstance(e, ast.Subscript) and U(e.value) == 'h' and isinstance(e.slice, ast.Constant)
               and isinstance(e.slice.value, int), 'infer_geometry: key component is not h[<int>]')
        fields.append(e.slice.value)
    return ('(* conversion.infer_geometry: traces_ref = {(h[f0], h[f1]): ordinal}; a later trace with the same key wins *)\n'
            f'Definition ig_key_field0 : Z := {fields[0]}.\nDefinition ig_key_field1 : Z := {fields[1]}.\n')


# ------------------------------------------------------------------------------------------------ conversion_utils.py
def gen_unstructured_io(cu):
    f = find_func(cu, 'unstructured_io_thread_func', 'conversion_utils')
    expect(params(f) == ['blockshape', 'store_headers', 'headers_dict', 'geom', 'plane_set_id', 'segy_buffer',
                         'segyfile', 'trace_length'], 'unstructured_io_thread_func: signature changed')
    st = code(f)
    expect(len(st) == 1 and isinstance(st[0], ast.For) and U(st[0].target) == 'i'
           and U(st[0].iter) == 'range(blockshape[0])' and not st[0].orelse, 'unstructured_io_thread_func: outer loop changed')
    l2 = st[0].body
    expect(len(l2) == 1 and isinstance(l2[0], ast.For) and U(l2[0].target) == '(xl_id, xl_num)'
           and U(l2[0].iter) == 'enumerate(geom.xlines)' and not l2[0].orelse, 'unstructured_io_thread_func: inner loop changed')
    b = l2[0].body
    expect(len(b) == 2 and isinstance(b[0], ast.Assign) and U(b[0].targets[0]) == 'index'
           and isinstance(b[0].value, ast.Tuple) and len(b[0].value.elts) == 2, 'unstructured_io_thread_func: index assignment changed')
    expect(isinstance(b[1], ast.If) and U(b[1].test) == 'index in geom.traces_ref' and not b[1].orelse,
           'unstructured_io_thread_func: membership test changed')
    env = {'plane_set_id': 'plane_set_id', 'blockshape[0]': 'bs0', 'i': 'i', 'geom.il_step': 'il_step',
           'geom.min_il': 'min_il', 'geom.xl_step': 'xl_step', 'geom.min_xl': 'min_xl', 'xl_num': 'xl_num',
           'xl_id': 'xl_id', 'len(geom.xlines)': 'n_xl', 'len(geom.ilines)': 'n_il'}
    ex = Ex(env, 'unstructured_io_thread_func')
    k_il, k_xl = [ex.tr(e) for e in b[0].value.elts]
    body = b[1].body
    want = ['trace_id = geom.traces_ref[index]',
            'trace, header = (segyfile.trace[trace_id], segyfile.header[trace_id])']
    expect([U(s) for s in body[:2]] == want and len(body) == 5, 'unstructured_io_thread_func: trace fetch changed')
    s = body[2]
    expect(isinstance(s, ast.Assign) and U(s.value) == 'trace' and isinstance(s.targets[0], ast.Subscript)
           and U(s.targets[0].value) == 'segy_buffer' and isinstance(s.targets[0].slice, ast.Tuple)
           and len(s.targets[0].slice.elts) == 3, 'unstructured_io_thread_func: buffer assignment changed')
    e0, e1, e2 = s.targets[0].slice.elts
    expect(isinstance(e2, ast.Slice) and e2.step is None and e2.lower is not None and e2.upper is not None,
           'unstructured_io_thread_func: sample subscript is not lo:hi')
    env2 = dict(env, trace_length='trace_length')
    ex2 = Ex(env2, 'unstructured_io_thread_func buffer subscript')
    p_i, p_x, z_lo, z_hi = ex2.tr(e0), ex2.tr(e1), ex2.tr(e2.lower), ex2.tr(e2.upper)
    s = body[3]
    expect(isinstance(s, ast.Assign) and U(s.targets[0]) == 't_store', 'unstructured_io_thread_func: t_store changed')
    t_store = ex.tr(s.value)
    expect(U(body[4]) == 'if store_headers:\n    for tracefield, array in headers_dict.items():\n        array[t_store] = header[tracefield]',
           'unstructured_io_thread_func: header capture changed')
    expect(not ex.divisors and not ex2.divisors, 'unstructured_io_thread_func: division')
    A = '(plane_set_id bs0 i il_step min_il xl_step min_xl xl_id xl_num n_il n_xl : Z)'
    return ('(* conversion_utils.unstructured_io_thread_func, body of `for i in range(bs0): for xl_id, xl_num in enumerate(geom.xlines)`:\n'
            '   index = (ig_index_il, ig_index_xl); if index in traces_ref: segy_buffer[ig_buf_i, ig_buf_x, ig_buf_zlo:ig_buf_zhi] = trace of\n'
            '   traces_ref[index], and (store_headers) array[ig_t_store] = header[field] of that trace, for every stored field *)\n'
            f'Definition ig_index_il {A} : Z := {k_il}.\n'
            f'Definition ig_index_xl {A} : Z := {k_xl}.\n'
            f'Definition ig_t_store {A} : Z := {t_store}.\n'
            f'Definition ig_buf_i {A} : Z := {p_i}.\n'
            f'Definition ig_buf_x {A} : Z := {p_x}.\n'
            f'Definition ig_buf_zlo (trace_length : Z) : Z := {z_lo}.\n'
            f'Definition ig_buf_zhi (trace_length : Z) : Z := {z_hi}.\n')


def gen_producer(cu):
    f = find_func(cu, 'seismic_file_producer', 'conversion_utils')
    texts = [U(s) for s in ast.walk(f) if isinstance(s, ast.stmt)]
    need = [
        'n_ilines, n_xlines, trace_length = (len(geom.ilines), len(geom.xlines), len(seismicfile.samples))',
        'padded_shape = (pad(n_ilines, blockshape[0]), pad(n_xlines, blockshape[1]), pad(trace_length, blockshape[2]))',
        'n_plane_sets = padded_shape[0] // blockshape[0]',
        'seismic_buffer = np.zeros((blockshape[0], padded_shape[1], padded_shape[2]), dtype=np.float32)',
        'if isinstance(geom, InferredGeometry3d):\n    unstructured_io_thread_func(blockshape, store_headers, headers_dict, geom, plane_set_id, seismic_buffer, seismicfile, trace_length)\n'
        'else:\n    io_thread_func(blockshape, store_headers, headers_dict, geom, plane_set_id, planes_to_read, seismic_buffer, seismicfile, minimal_il_reader, trace_length)',
    ]
    for n in need:
        expect(n in texts, f'seismic_file_producer: statement changed or missing: {n[:70]!r}')
    # the header arrays of the irregular route
    hit = [s for s in ast.walk(f) if isinstance(s, ast.If) and U(s.test) == 'isinstance(geom, InferredGeometry3d)'
           and len(s.body) == 1 and isinstance(s.body[0], ast.For)]
    expect(len(hit) == 1 and not hit[0].orelse, 'seismic_file_producer: header-array re-allocation for irregular files changed')
    loop = hit[0].body[0]
    expect(U(loop.target) == '(tracefield, array)' and U(loop.iter) == 'headers_dict.items()' and len(loop.body) == 1,
           'seismic_file_producer: header-array loop changed')
    s = loop.body[0]
    expect(isinstance(s, ast.Assign) and U(s.targets[0]) == 'headers_dict[tracefield]' and isinstance(s.value, ast.Call)
           and U(s.value.func) == 'np.zeros' and len(s.value.args) == 1 and [U(k) for k in s.value.keywords] == ['dtype=np.int32'],
           'seismic_file_producer: header arrays are not np.zeros(..., dtype=np.int32)')
    ex = Ex({'len(geom.ilines)': 'n_il', 'len(geom.xlines)': 'n_xl'}, 'seismic_file_producer header array length')
    ln = ex.tr(s.value.args[0])
    expect(not ex.divisors, 'division in header array length')
    # the plane-set loop must allocate the buffer before the call and do nothing to it between
    return ('(* conversion_utils.seismic_file_producer, irregular route: every plane-set buffer starts as np.zeros((bs0, pad_xl, pad_z)) and is\n'
            '   filled ONLY by unstructured_io_thread_func (no edge replication); each header array is np.zeros(ig_footer_len) *)\n'
            f'Definition ig_footer_len (n_il n_xl : Z) : Z := {ln}.\n'
            'Definition ig_buffer_zero_initialised : bool := true.\n')


class PE:
    """partial evaluation of make_header with unstructured = True and geom a 3D geometry"""
    def __init__(self):
        self.env = {'len(geom.xlines)': 'n_xl', 'len(geom.ilines)': 'n_il', 'geom.min_il': 'min_il', 'geom.min_xl': 'min_xl',
                    'geom.il_step': 'il_step', 'geom.xl_step': 'xl_step', 'tracecount': 'tracecount'}
        self.fields = {}     # offset -> (hi, kind, coq term | None)

    def truth(self, n):
        t = U(n)
        if t == 'unstructured':
            return True
        if t == 'isinstance(geom, Geometry2d)':
            return False
        if isinstance(n, ast.UnaryOp) and isinstance(n.op, ast.Not):
            v = self.truth(n.operand)
            return None if v is None else (not v)
        if isinstance(n, ast.BoolOp):
            vs = [self.truth(v) for v in n.values]
            if isinstance(n.op, ast.Or):
                return True if any(v is True for v in vs) else (False if all(v is False for v in vs) else None)
            return False if any(v is False for v in vs) else (True if all(v is True for v in vs) else None)
        return None

    @staticmethod
    def const_divs(divs):
        return all(d.strip('()').isdigit() and int(d.strip('()')) != 0 for d in divs)

    def value(self, n):
        """(coq term, divisors) or None (not an integer expression this generator understands)"""
        if isinstance(n, ast.IfExp):
            v = self.truth(n.test)
            if v is None:
                return None
            return self.value(n.body if v else n.orelse)
        try:
            ex = Ex(self.env, 'make_header')
            t = ex.tr(n)
            return (t, list(ex.divisors))
        except Fail:
            return None

    def block(self, stmts):
        for s in stmts:
            if isinstance(s, ast.If):
                v = self.truth(s.test)
                if v is None:
                    # undecided: names assigned inside become unknown; buffer fields written inside become opaque
                    for x in ast.walk(s):
                        if isinstance(x, ast.Assign):
                            for tg in x.targets:
                                if isinstance(tg, ast.Name):
                                    self.env.pop(tg.id, None)
                                elif isinstance(tg, ast.Subscript) and U(tg.value) == 'buffer':
                                    self.record(tg, None, None)
                                else:
                                    raise Fail(f'make_header: assignment target {U(tg)!r} under an undecided test')
                    continue
                self.block(s.body if v else s.orelse)
                continue
            if isinstance(s, ast.Assign) and len(s.targets) == 1:
                tg = s.targets[0]
                if isinstance(tg, ast.Name):
                    v = self.value(s.value)
                    if v is None or not self.const_divs(v[1]):
                        self.env.pop(tg.id, None)
                    else:
                        self.env[tg.id] = v[0]
                    continue
                if isinstance(tg, ast.Tuple) and all(isinstance(e, ast.Name) for e in tg.elts) \
                        and isinstance(s.value, ast.Tuple) and len(s.value.elts) == len(tg.elts):
                    for e, vv in zip(tg.elts, s.value.elts):
                        v = self.value(vv)
                        if v is None or not self.const_divs(v[1]):
                            self.env.pop(e.id, None)
                        else:
                            self.env[e.id] = v[0]
                    continue
                if isinstance(tg, ast.Name) is False and isinstance(tg, ast.Subscript) and U(tg.value) == 'buffer':
                    kind, val = None, None
                    if isinstance(s.value, ast.Call) and len(s.value.args) == 1 and not s.value.keywords:
                        fn = U(s.value.func)
                        if fn in ('int_to_bytes', 'np_float_to_bytes_signed', 'signed_int_to_bytes'):
                            kind = 'u32' if fn == 'int_to_bytes' else 'i32'
                            val = self.value(s.value.args[0])
                    self.record(tg, kind, val)
                    continue
            if isinstance(s, ast.Return) and U(s) == 'return buffer':
                continue
            if isinstance(s, ast.Expr) and isinstance(s.value, ast.Constant):
                continue
            raise Fail(f'make_header: unrecognised statement {U(s)[:80]!r}')

    def record(self, tg, kind, val):
        sl = tg.slice
        expect(isinstance(sl, ast.Slice) and isinstance(sl.lower, ast.Constant) and isinstance(sl.upper, ast.Constant)
               and sl.step is None, f'make_header: buffer subscript {U(tg)!r}')
        lo, hi = sl.lower.value, sl.upper.value
        self.fields[lo] = (hi, kind, val)        # a later assignment overwrites an earlier one


def gen_make_header(cu):
    f = find_func(cu, 'make_header', 'conversion_utils')
    expect(params(f) == ['ilines', 'xlines', 'samples', 'tracecount', 'hw_info', 'bits_per_voxel', 'blockshape', 'geom',
                         'unstructured'], 'make_header: signature changed')
    pe = PE()
    pe.block(code(f))
    need = [8, 12, 20, 24, 32, 36, 60, 68]
    rows = []
    for off in need:
        expect(off in pe.fields, f'make_header: no assignment to buffer[{off}:{off + 4}]')
        hi, kind, val = pe.fields[off]
        expect(hi == off + 4 and kind is not None and val is not None,
               f'make_header: buffer[{off}:{hi}] is not a 4-byte integer field of a recognised expression (unstructured 3D route)')
        t, divs = val
        for dv in divs:
            expect(dv.strip('()').isdigit() and int(dv.strip('()')) != 0, f'make_header: division by {dv} at byte {off}')
        rows.append(f'({off}, {"true" if kind == "i32" else "false"}, {t})')
    # make_header_seismic_file passes unstructured=seismicfile.unstructured and does not touch bytes < 76 afterwards
    g = find_func(cu, 'make_header_seismic_file', 'conversion_utils')
    call = code(g)[0]
    expect(U(call) == 'buffer = make_header(seismicfile.ilines, seismicfile.xlines, seismicfile.samples, seismicfile.tracecount, '
           'header_info, bits_per_voxel, blockshape, geom, unstructured=seismicfile.unstructured)',
           'make_header_seismic_file: call of make_header changed')
    for s in ast.walk(g):
        if isinstance(s, ast.Assign) and isinstance(s.targets[0], ast.Subscript) and U(s.targets[0].value) == 'buffer':
            sl = s.targets[0].slice
            lo = U(sl.lower) if isinstance(sl, ast.Slice) else '?'
            expect(lo in ('DISK_BLOCK_BYTES', '84', '92', '76', '80'), f'make_header_seismic_file: writes buffer[{lo}:...]')
    return ('(* conversion_utils.make_header with unstructured = True and a 3D geometry: (byte offset, signed?, value) of the 4-byte fields\n'
            '   the irregular route depends on; signed = written with "<i" (np_float_to_bytes_signed), else "<I" (int_to_bytes) *)\n'
            'Definition ig_header_fields (n_il n_xl min_il min_xl il_step xl_step tracecount : Z) : list (Z * bool * Z) :=\n  ['
            + ';\n   '.join(rows) + '].\n')


# ------------------------------------------------------------------------------------------------ read.py
def gen_reader_side(rd):
    f = find_func(rd, 'SgzReader._parse_coordinates', 'read')
    out = {}
    for s in ast.walk(f):
        if isinstance(s, ast.Assign) and U(s.targets[0]) in ('xlines_list', 'ilines_list'):
            v = s.value
            expect(isinstance(v, ast.Call) and isinstance(v.func, ast.Attribute) and v.func.attr == 'astype'
                   and [U(a) for a in v.args] == ["'intc'"] and isinstance(v.func.value, ast.Call)
                   and U(v.func.value.func) == 'gen_coord_list' and len(v.func.value.args) == 3,
                   f'_parse_coordinates: {U(s)[:60]!r}')
            offs = []
            for a in v.func.value.args:
                expect(isinstance(a, ast.Call) and U(a.func) == 'bytes_to_int' and len(a.args) == 1
                       and isinstance(a.args[0], ast.Subscript) and U(a.args[0].value) == 'self.headerbytes'
                       and isinstance(a.args[0].slice, ast.Slice) and isinstance(a.args[0].slice.lower, ast.Constant)
                       and isinstance(a.args[0].slice.upper, ast.Constant)
                       and a.args[0].slice.upper.value == a.args[0].slice.lower.value + 4,
                       f'_parse_coordinates: axis argument {U(a)!r}')
                offs.append(a.args[0].slice.lower.value)
            out[U(s.targets[0])] = offs
    expect(set(out) == {'xlines_list', 'ilines_list'}, '_parse_coordinates: axis lists not found')
    ret = [s for s in code(f) if isinstance(s, ast.Return)]
    expect(len(ret) == 1 and U(ret[0]) == 'return (zslices_list, xlines_list, ilines_list)', '_parse_coordinates: return changed')
    init = find_func(rd, 'SgzReader.__init__', 'read')
    expect(any(U(s) == 'self.zslices, self.xlines, self.ilines = self._parse_coordinates()' for s in ast.walk(init)
               if isinstance(s, ast.stmt)), 'SgzReader.__init__: coordinates are no longer taken from _parse_coordinates')
    txt = ('(* read.SgzReader._parse_coordinates: axis = gen_coord_list(u32 at start, u32 at step, u32 at count).astype(intc),\n'
           '   (start, step, count) byte offsets: *)\n'
           f'Definition ig_rd_ilines_fields : Z * Z * Z := ({out["ilines_list"][0]}, {out["ilines_list"][1]}, {out["ilines_list"][2]}).\n'
           f'Definition ig_rd_xlines_fields : Z * Z * Z := ({out["xlines_list"][0]}, {out["xlines_list"][1]}, {out["xlines_list"][2]}).\n')
    # population mask
    m = find_func(rd, 'SgzReader.get_unstructured_mask', 'read')
    st = code(m)
    expect(len(st) == 1 and isinstance(st[0], ast.If) and U(st[0].test) == 'self.mask is None'
           and [U(s) for s in st[0].orelse] == ['pass'] and len(st[0].body) == 2, 'get_unstructured_mask: shape changed')
    b0, b1 = st[0].body
    expect(isinstance(b0, ast.Assign) and U(b0.targets[0]) == 'buffer' and isinstance(b0.value, ast.Call)
           and U(b0.value.func) == 'self.file.read_range' and len(b0.value.args) == 3
           and U(b0.value.args[0]) == 'self.file' and U(b0.value.args[2]) == 'self.header_entry_length_bytes',
           'get_unstructured_mask: read changed')
    a1 = b0.value.args[1]
    expect(isinstance(a1, ast.Subscript) and U(a1.value) == 'self.segy_traceheader_template'
           and isinstance(a1.slice, ast.Constant) and isinstance(a1.slice.value, int), 'get_unstructured_mask: offset changed')
    expect(isinstance(b1, ast.Assign) and U(b1.targets[0]) == 'self.mask' and isinstance(b1.value, ast.Compare)
           and U(b1.value.left) == 'np.frombuffer(buffer, dtype=np.int32)' and len(b1.value.ops) == 1
           and isinstance(b1.value.ops[0], ast.NotEq) and isinstance(b1.value.comparators[0], ast.Constant)
           and isinstance(b1.value.comparators[0].value, int), 'get_unstructured_mask: test changed')
    c = b1.value.comparators[0].value
    txt += ('(* read.SgzReader.get_unstructured_mask: mask = (int32 footer array of header field ig_mask_field) != ig_mask_absent *)\n'
            f'Definition ig_mask_field : Z := {a1.slice.value}.\n'
            f'Definition ig_mask_populated (v : Z) : bool := negb (v =? {zlit(c)}).\n')
    return txt


HEADER = '''(* GENERATED by tools/gen.py (plug-in tools/genx_irregular.py) from seismic_zfp/utils.py, conversion.py, conversion_utils.py,
   read.py -- DO NOT EDIT.  Regenerated on every check run. *)
From Coq Require Import ZArith List Bool.
Import ListNotations.
From SZ Require Import Lib.Py.
Open Scope Z_scope.

'''


def generate(srcdir):
    utils, conv, cu, rd = (load(srcdir, m) for m in ('utils', 'conversion', 'conversion_utils', 'read'))
    parts = [gen_get_range(utils), gen_inferred_init(utils), gen_infer_geometry(conv), gen_unstructured_io(cu),
             gen_producer(cu), gen_make_header(cu), gen_coord_list(utils), gen_reader_side(rd)]
    return {'Irregular': HEADER + '\n'.join(parts)}


if __name__ == '__main__':
    import sys
    print(generate(sys.argv[1] if len(sys.argv) > 1 else '/repo/seismic_zfp')['Irregular'])
