#!/usr/bin/env python3
"""Harness for the conversion ROUTES that C01 / C03 / C05 / C20 quantify over besides NumPy and SEG-Y: ZGY (pyzgy), VDS (pyvds),
SGZ as input (Props/C01a.v, C03b.v, C05a.v; model coq/Model/Routes.v over coq/Gen/Routes.v).

Sources: the VDS fixture (several settings), the four ZGY fixtures, generated ZGY cubes (pyzgy.write.SeismicWriter: sizes in every
residue class mod 4, non-unit / descending / large line numbering, negative crossline numbers, fractional intervals and
negative start times, skewed corner points), an SGZ file as input of the base converter.

DIRECT ORACLES (pyzgy / pyvds / zfpy / numpy / hashlib / hz.SpecFile only -- never the model), on every conversion:
  O1  read_volume() == ZFP fixed-rate image of the edge-extended source cube, bit for bit;
  O2  the file conforms: SpecFile decodes it, length = header + data + padded header arrays, the data section == an independent
      encoding of the edge-extended source at the specification's unit positions;
  O3  ilines / xlines / zslices / tracecount / structured == the source handle's (zslices to within float rounding; exact
      when the interval is dyadic);
  O4  every trace: ZGY: fields 181 / 185 / 189 / 193 / 115 / 117 / 71 == pyzgy.open(src).header[t], all others 0, through
      gen_trace_header, get_tracefield_values and the raw footer; VDS: every field of pyvds header[t];
  O5  stored hash == sha1 of the source samples in trace order;  O6 source code 10 / 30 / 100, detection code;
  O7  bytes 84:100: ZGY the doubles (samples[0], zinc * 1000) of the specification's table, other routes zero.
CORRESPONDENCE (model evaluated inside Coq on the same inputs): header-word table, stored-array order and contents, the two
  doubles, the regenerated sample axis, source code / store_headers / table route per file type, SeismicFile.open dispatch on
  real files with every extension spelling, the pyzgy accessor model (emu_iline).
ASSUMPTIONS validated: np.linspace(.., dtype=np.intc) on arithmetic axes (lin_exact), np.meshgrid 'xy', linspace(0, n-1, n).
WINDOWED conversions (min_il, max_il, min_xl, max_xl; fixtures and generated cubes; windows starting at 0 and not, one block and
  several): all oracles about the sub-cube (samples = ZFP image of the sub-cube, axes = sub-ranges, headers of window trace t = the
  source handle's header of its source trace, footer arrays one word per window trace, hash = sha1 of the window's samples).
KNOWN FINDING D53-zgy-negative-inline-number: guard = every inline number of the source >= 0 (pyzgy's accessor takes a negative
  key as a position from the end); outside the guard the oracle violation is reported with that key (pid C01 only).
"""
import os, sys, struct, shutil
sys.path.insert(0, os.path.dirname(os.path.abspath(__file__)))
from common import *
a = parse_args()
from hz import *
import pyzgy, pyvds
from pyzgy.write import SeismicWriter
from seismic_zfp.conversion import SeismicFileConverter, ZgyConverter, VdsConverter
from seismic_zfp.seismicfile import SeismicFile, Filetype

use_model = not a.no_model
if use_model:
    from coqeval import coq_eval, parse_value, CoqEvalError

R = Result('one case = (source file, bits per voxel, blockshape) converted by its route, or one SeismicFile.open call, or one axis '
           'given to np.linspace; non-trivial = distinct case whose conversion / call ran; generated ZGY sizes take every residue '
           'mod 4 per axis, line numbering ascending / descending / non-unit / large, crossline numbers negative, intervals '
           'fractional, start times negative')
rng = random.Random(a.seed + 4242)
thorough = a.tier == 'thorough' or a.search
D = scratch_dir()
import atexit
atexit.register(lambda: shutil.rmtree(D, ignore_errors=True))
FIX = os.path.join(REPO, 'test_data')
KEY_D53 = 'D53-zgy-negative-inline-number'
ZGY_KEYS = (181, 185, 189, 193, 115, 117, 71)
TRACE_FIELDS = [int(k) for k in segyio.segy.Field(bytearray(240), kind='trace')]


# ---------------------------------------------------------------- helpers (independent of seismic_zfp)
def padto(n, m):
    return -(-n // m) * m


def edge_ext(src, shape):
    idx = [np.minimum(np.arange(shape[k]), src.shape[k] - 1) for k in range(3)]
    return src[np.ix_(*idx)]


def zfp_image(src, rate):
    e4 = edge_ext(src, tuple(padto(n, 4) for n in src.shape))
    comp = zfpy.compress_numpy(np.ascontiguousarray(e4), rate=rate, write_header=False)
    dec = zfpy._decompress(bytes(comp), zfpy.dtype_to_ztype(np.dtype('float32')), e4.shape, rate=rate)
    return dec[:src.shape[0], :src.shape[1], :src.shape[2]]


def independent_data_section(src, sp):
    P = sp.shape_pad
    ext = np.ascontiguousarray(edge_ext(src, P))
    comp = zfpy.compress_numpy(ext, rate=float(sp.rate), write_header=False)
    ub = sp.ub
    out = bytearray(len(sp.data))
    k = 0
    for iu in range(P[0] // 4):
        for xu in range(P[1] // 4):
            for zu in range(P[2] // 4):
                pos = sp.unit_index(iu, xu, zu) * ub
                out[pos:pos + ub] = comp[k * ub:(k + 1) * ub]
                k += 1
    return bytes(out)


def fhex(x):
    return float(x).hex()


def coq_float(x):
    hx = float(x).hex()
    if hx.startswith('-'):
        return f'(-{hx[1:]})%float'
    return f'({hx})%float'


def zl(n):
    n = int(n)
    return f'({n})' if n < 0 else str(n)


PENDING = []     # (term, expected python value or callable, case, what)


def expect(term, want, case, what):
    if use_model:
        PENDING.append((term, want, case, what))


def flush_model():
    if not PENDING:
        return
    try:
        vals = coq_eval(['SZ.Gen.Routes', 'SZ.Model.Routes'], [p[0] for p in PENDING], preamble='From Coq Require Import PrimFloat.', shard=200)
    except CoqEvalError as e:
        R.violation('corr', {'terms': len(PENDING)}, 'the model could not be evaluated inside Coq: ' + str(e)[:300] + ' ... ' + str(e)[-900:])
        PENDING.clear()
        return
    for (term, want, case, what), v in zip(PENDING, vals):
        got = parse_value(v)
        R.count('model_terms')
        if got != want:
            R.violation('corr', case, f'{what}: model {str(got)[:300]} implementation {str(want)[:300]}')
    PENDING.clear()


def mk_zgy(path, data, zstart, zinc, astart, ainc, corners):
    with SeismicWriter(path, size=tuple(int(s) for s in data.shape), zstart=zstart, zinc=zinc, annotstart=astart, annotinc=ainc,
                       corners=corners) as w:
        w.write_volume(data)


def tagged_cube(shape, seed):
    """float32 data in which every inline is distinguishable, varied magnitude"""
    g = np.random.RandomState(seed)
    d = g.standard_normal(shape).astype(np.float32) * np.float32(10.0) ** g.randint(-1, 3)
    d += (np.arange(shape[0], dtype=np.float32) * np.float32(1000.0))[:, None, None]
    return d.astype(np.float32)


# ---------------------------------------------------------------- the generated ZGY sources
def zgy_specs():
    sk = [(1000.5, 2000.25), (1400.5, 2100.25), (1050.5, 1900.25), (1450.5, 2000.25)]        # skewed, not axis-parallel
    big = [(474865.84192703344, 6666470.911448563), (474940.8418815789, 6666470.898039472),
           (474865.85086688306, 6666520.911430518), (474940.8508214285, 6666520.898021427)]
    neg = [(-500.125, 100.0), (-100.0, -250.5), (-480.0, 730.75), (-80.0, 380.25)]
    specs = [
        dict(name='g0', shape=(5, 6, 7), zstart=-12.5, zinc=2.5, astart=(3, 100), ainc=(2, -5), corners=sk),
        dict(name='g1', shape=(4, 9, 10), zstart=100.25, zinc=0.5, astart=(1000000, -7), ainc=(7, 3), corners=big),
        dict(name='g2', shape=(7, 7, 12), zstart=0.0, zinc=0.0625, astart=(40, 16000000), ainc=(-3, 1), corners=neg),
        dict(name='g3', shape=(2, 3, 5), zstart=-3.0, zinc=0.25, astart=(0, 20), ainc=(1, 1), corners=None),
    ]
    if thorough:
        specs += [
            dict(name='g4', shape=(9, 5, 130), zstart=2558.5, zinc=1.0, astart=(17, 5), ainc=(1, 2), corners=sk),
            dict(name='g5', shape=(6, 8, 9), zstart=-100.0, zinc=2.0, astart=(12, 300), ainc=(4, -100), corners=big),
            dict(name='g6', shape=(65, 3, 6), zstart=1.5, zinc=0.125, astart=(200, 1), ainc=(-1, 1), corners=neg),
        ]
    return specs


SETTINGS_Q = [(4, (4, 4, -1)), (2, (64, 64, 4)), (8, (8, 8, -1)), (16, (4, 4, -1)), (1, (16, 16, -1))]
WSETTINGS = [(4, (4, 4, -1)), (2, (64, 64, 4)), (8, (8, 8, -1))]
# conversion windows (min_il, max_il, min_xl, max_xl) in ordinals: starting at 0 and not, reaching the last line and not, inside one
# 4-block and across several, per generated cube (by name) and for the 5 x 5 fixtures
WINDOWS = {'g0': [(1, 4, 2, 6), (0, 3, 0, 6)], 'g1': [(0, 4, 1, 9), (2, 4, 0, 5)], 'g2': [(1, 7, 3, 7), (0, 7, 0, 2)], 'g3': [(0, 2, 1, 3)],
           'g4': [(2, 9, 1, 4)], 'g5': [(1, 6, 2, 8)], 'g6': [(3, 64, 0, 3), (0, 65, 1, 3)]}
FIXTURE_WINDOWS = [(1, 4, 0, 3), (0, 5, 2, 5), (0, 2, 0, 5), (3, 5, 1, 4)]


# ---------------------------------------------------------------- one conversion with all oracles
def check_conversion(case, src_path, ft, bpv, bs, written=None, mode='heuristic', window=None):
    """ft: 'ZGY' | 'VDS'.  written: the array given to the ZGY writer (None for fixtures).
    window: (min_il, max_il, min_xl, max_xl) in ordinals of the source, or None (whole file): every oracle is then about the sub-cube."""
    opener = pyzgy.open if ft == 'ZGY' else pyvds.open
    conv = ZgyConverter if ft == 'ZGY' else VdsConverter
    out = os.path.join(D, 'out.sgz')
    with opener(src_path) as h:
        src = np.ascontiguousarray(h.read_volume(), dtype=np.float32)
        s_il, s_xl, s_z = np.array(h.ilines), np.array(h.xlines), np.array(h.samples, dtype=float)
        s_tc = h.tracecount
        hdrs = [{int(k): int(v) for k, v in h.header[t].items()} for t in range(h.tracecount)]
        zinc = float(h.zinc) if ft == 'ZGY' else None
        corners = [tuple(map(float, c)) for c in h.corners] if ft == 'ZGY' else None
        n_samples = int(h.n_samples)
    if written is not None and not bits_equal(src, written):
        R.violation('assumption', case, 'pyzgy does not read back the cube that was written')
        return
    full = (len(s_il), len(s_xl))
    src_axes = (s_il, s_xl)
    if window is not None:
        mi, Mi, mx, Mx = window
        n_xl_src = len(s_xl)
        src = np.ascontiguousarray(src[mi:Mi, mx:Mx, :])
        hdrs = [hdrs[i * n_xl_src + x] for i in range(mi, Mi) for x in range(mx, Mx)]      # the source traces of the window, in trace order
        s_il, s_xl = s_il[mi:Mi], s_xl[mx:Mx]
        s_tc = (Mi - mi) * (Mx - mx)
    guard = bool(np.all(s_il >= 0))        # D53: the emulators' accessor is wrong for negative line numbers
    try:
        if window is None:
            with conv(src_path) as c:
                quiet(c.run, out, bits_per_voxel=bpv, blockshape=bs, header_detection=mode)
        else:
            with conv(src_path, min_il=window[0], max_il=window[1], min_xl=window[2], max_xl=window[3]) as c:
                quiet(c.run, out, bits_per_voxel=bpv, blockshape=bs, header_detection=mode)
    except Exception as e:
        if not guard:
            R.violation('oracle', case, f'conversion raised {type(e).__name__}: {e}', finding_key=KEY_D53)
            if KEY_D53 not in R.known:
                R.known.append(KEY_D53)
        else:
            R.violation('oracle', case, f'conversion raised {type(e).__name__}: {e}')
        return
    try:
        _check_written(case, out, ft, bpv, bs, mode, guard, src, s_il, s_xl, s_z, s_tc, hdrs, zinc, corners, n_samples, window, full, src_axes)
    except Exception as e:
        import traceback
        tb = traceback.extract_tb(e.__traceback__)[-1]
        R.violation('oracle', case, f'examining the written file raised {type(e).__name__}: {e} ({os.path.basename(tb.filename)}:{tb.lineno})',
                    finding_key=None if guard else KEY_D53)
    if os.path.exists(out):
        os.remove(out)


def _check_written(case, out, ft, bpv, bs, mode, guard, src, s_il, s_xl, s_z, s_tc, hdrs, zinc, corners, n_samples, window, full, src_axes):
    bad = []
    sp = SpecFile(out)
    rate = float(sp.rate)
    with SgzReader(out) as r:
        vol = r.read_volume()
        # O1
        if not bits_equal(vol, zfp_image(src, rate)):
            bad.append('O1 read_volume differs from the ZFP image of the edge-extended source')
        # O3
        if not (np.array_equal(r.ilines, s_il) and np.array_equal(r.xlines, s_xl)):
            bad.append(f'O3 line axes {list(r.ilines)[:4]} / {list(r.xlines)[:4]} differ from the source {list(s_il)[:4]} / {list(s_xl)[:4]}')
        if len(r.zslices) != len(s_z) or not np.allclose(r.zslices, s_z, rtol=1e-13, atol=1e-9):
            bad.append(f'O3 sample axis {list(r.zslices)[:3]} differs from the source {list(s_z)[:3]}')
        elif ft == 'ZGY' and float(zinc * 8).is_integer() and float(s_z[0] * 8).is_integer() and not np.array_equal(r.zslices, s_z):
            bad.append('O3 sample axis not exact although start and interval are dyadic')
        if r.tracecount != s_tc or r.structured is not True or r.n_samples != n_samples:
            bad.append(f'O3 tracecount {r.tracecount} / structured {r.structured} / n_samples {r.n_samples}')
        # O5, O6
        if r.get_source_data_hash() != hashlib.sha1(src.tobytes()).hexdigest():
            bad.append('O5 stored hash is not the SHA-1 of the source samples in trace order')
        want_code = {'ZGY': 10, 'VDS': 30}[ft]
        if r.get_file_source_code() != want_code or r.get_header_detection_method_code() != {'heuristic': 0}[mode]:
            bad.append(f'O6 source code {r.get_file_source_code()} / detection code {r.get_header_detection_method_code()}')
        # O4 through the reader
        keys = ZGY_KEYS if ft == 'ZGY' else TRACE_FIELDS
        ts = range(s_tc) if s_tc <= 200 or thorough else sorted(set([0, 1, s_tc - 1, s_tc // 2] + [rng.randrange(s_tc) for _ in range(60)]))
        for t in ts:
            got = {int(k): int(v) for k, v in r.gen_trace_header(t).items()}
            for f in TRACE_FIELDS:
                want = hdrs[t].get(f, 0) if f in keys else 0
                if got.get(f) != want:
                    bad.append(f'O4 trace {t} field {f}: SGZ {got.get(f)} source {want}')
                    break
            if len(bad) > 3:
                break
        for f in (189, 193, 181, 115):
            if f in keys:
                vals = np.asarray(r.get_tracefield_values(f)).reshape(-1)
                want = np.array([hdrs[t].get(f, 0) for t in range(s_tc)])
                if not np.array_equal(vals, want):
                    bad.append(f'O4 get_tracefield_values({f}) differs from the source headers')
        stored = [int(k) for k in r.stored_header_keys]
    # O2
    raw = sp.raw
    if len(raw) != sp.expected_length():
        bad.append(f'O2 file length {len(raw)} != {sp.expected_length()} derived from the header')
    if (sp.n_il, sp.n_xl, sp.n_s) != src.shape or sp.hel != 4 * s_tc or sp.tracecount != s_tc or sp.nhb != 2:
        bad.append(f'O2 header states {(sp.n_il, sp.n_xl, sp.n_s)}, hel {sp.hel}, tracecount {sp.tracecount}')
    if 4096 * sp.ndb * 8 != sp.shape_pad[0] * sp.shape_pad[1] * sp.shape_pad[2] * sp.rate:
        bad.append('O2 data section is not padded voxels x bits / 8')
    elif bytes(sp.data) != independent_data_section(src, sp):
        bad.append('O2 data section differs from the independent encoding of the edge-extended source')
    if ft == 'ZGY':
        if sp.nha != 4 or stored != [181, 185, 189, 193]:
            bad.append(f'O2 {sp.nha} header arrays, stored keys {stored}')
        else:
            for k, f in enumerate((181, 185, 189, 193)):
                want = np.array([hdrs[t][f] for t in range(s_tc)], dtype='<i4')
                if not np.array_equal(sp.footer_array(k), want):
                    bad.append(f'O4 footer array {k} is not field {f} of the source headers in trace order')
        d84, d92 = struct.unpack('<dd', raw[84:100])
        if fhex(d84) != fhex(s_z[0]) or fhex(d92) != fhex(zinc * 1000):
            bad.append(f'O7 doubles at 84:100 are ({d84}, {d92}), expected ({s_z[0]}, {zinc * 1000})')
    else:
        if raw[84:100] != bytes(16):
            bad.append('O7 bytes 84:100 of a non-ZGY file are not zero')
    table = [struct.unpack('<iii', raw[980 + 12 * i: 992 + 12 * i]) for i in range(89)]
    names_stored = [k for k, v, ref in table if ref == k and v == 0 and ref != 0]
    if names_stored != stored or len(stored) != sp.nha:
        bad.append(f'O2 table names {names_stored} as stored arrays, reader finds {stored}, header says {sp.nha}')
    for b in bad[:4]:
        if not guard:
            R.violation('oracle', case, b, finding_key=KEY_D53)
            if KEY_D53 not in R.known:
                R.known.append(KEY_D53)
        else:
            R.violation('oracle', case, b)
    # ---- correspondence
    if use_model and ft == 'ZGY':
        nz = [(int(k), int(v), int(ref)) for k, v, ref in table if (v, ref) != (0, 0)]
        expect(f'model_zgy_table {n_samples} {coq_float(zinc)}', nz, case, 'header-word table')
        cl = '[' + '; '.join(coq_float(c[j]) for c in corners for j in (0, 1)) + ']'
        f_il, f_xl = src_axes                     # the axes of the whole source file
        d_il = int(f_il[1] - f_il[0])
        d_xl = int(f_xl[1] - f_xl[0])
        arrs = [(f, [int(x) for x in sp.footer_array(k)]) for k, f in enumerate(stored)] if sp.nha == len(stored) else None
        wn = window if window is not None else (0, full[0], 0, full[1])
        expect(f'model_zgy_warrays {cl} (arith_lax {zl(f_il[0])} {zl(d_il)} {full[0]}) (arith_lax {zl(f_xl[0])} {zl(d_xl)} {full[1]}) '
               f'{{| wi0 := {wn[0]}; wi1 := {wn[1]}; wx0 := {wn[2]}; wx1 := {wn[3]} |}}',
               arrs, case, 'stored arrays (order and contents)')
        d84, d92 = struct.unpack('<dd', raw[84:100])
        for off, dv in ((84, d84), (92, d92)):
            expect(f'model_f64_same 10 {coq_float(s_z[0])} {coq_float(zinc)} {off} {coq_float(dv)}', True, case, f'double at {off}')
        with SgzReader(out) as r:
            zs = [float(v) for v in r.zslices]
        for k in sorted(set([0, 1, len(zs) // 2, len(zs) - 1])):
            expect(f'model_zslices_same {coq_float(d84)} {coq_float(d92)} {k} {coq_float(zs[k])}', True, case, f'regenerated sample {k}')
    if use_model and ft == 'VDS':
        for off in (84, 92):
            expect(f'model_f64_same 30 {coq_float(1.5)} {coq_float(4.0)} {off} {coq_float(struct.unpack("<d", raw[off:off + 8])[0])}', True, case,
                   f'double at {off} of a VDS-sourced file')
    R.case((case['src'], bpv, tuple(bs), tuple(window) if window else None), sample=dict(case, rate=rate, shape=list(src.shape), stored=stored))
    if window is not None:
        R.count('windowed')
    R.count(ft)


# ---------------------------------------------------------------- SGZ as input
def check_sgz_input():
    data = rnd_cube(rng, (5, 6, 9))
    p = os.path.join(D, 'in.sgz')
    write_numpy_sgz(p, data, bpv=8, ilines=np.arange(10, 15), xlines=np.arange(3, 21, 3))
    with SgzReader(p) as r:
        src = np.ascontiguousarray(r.read_volume(), dtype=np.float32)
        s_il, s_xl, s_z = np.array(r.ilines), np.array(r.xlines), np.array(r.zslices)
    case = {'kind': 'sgz_input'}
    out = os.path.join(D, 'out2.sgz')
    # the base class decides the file type from the extension; 'heuristic' needs a table constructor for the type
    try:
        with SeismicFileConverter(p) as c:
            quiet(c.run, out, bits_per_voxel=4)
        got = 'ok'
    except RuntimeError:
        got = 'RuntimeError'
    except Exception as e:
        got = type(e).__name__
    expect('hwinfo_route ft_SGZ', {'RuntimeError': 2, 'ok': 0}.get(got, -1), case, 'HeaderwordInfo route of an SGZ handle (2 = RuntimeError)')
    with SeismicFileConverter(p) as c:
        quiet(c.run, out, bits_per_voxel=4, header_detection='exhaustive')
    sp = SpecFile(out)
    with SgzReader(out) as r:
        if not bits_equal(r.read_volume(), zfp_image(src, 4.0)):
            R.violation('oracle', case, 'O1 SGZ as input: read_volume differs from the ZFP image of the source volume')
        if not (np.array_equal(r.ilines, s_il) and np.array_equal(r.xlines, s_xl) and np.array_equal(r.zslices, s_z)):
            R.violation('oracle', case, 'O3 SGZ as input: axes differ from the source')
        if r.get_file_source_code() != 100:
            R.violation('oracle', case, f'O6 SGZ as input: source code {r.get_file_source_code()}')
        if r.get_source_data_hash() != hashlib.sha1(src.tobytes()).hexdigest():
            R.violation('oracle', case, 'O5 SGZ as input: hash')
    if len(sp.raw) != sp.expected_length() or bytes(sp.data) != independent_data_section(src, sp) or sp.raw[84:100] != bytes(16):
        R.violation('oracle', case, 'O2 SGZ as input: file does not conform')
    expect('route_source_code ft_SGZ', 100, case, 'source code of an SGZ-sourced file')
    R.case(('sgz_input',), sample=case)
    R.count('SGZ')


# ---------------------------------------------------------------- SeismicFile.open dispatch
def check_dispatch():
    segy = os.path.join(D, 'a.sgy')
    mk_segy(segy, rnd_cube(rng, (3, 4, 6)), [1, 2, 3], [5, 6, 7, 8])
    sgz = os.path.join(D, 'a.sgz')
    write_numpy_sgz(sgz, rnd_cube(rng, (4, 4, 8)), bpv=8)
    kinds = {'segy': (segy, 'segyio', 0), 'zgy': (os.path.join(FIX, 'zgy', 'small-8bit.zgy'), 'pyzgy', 10),
             'vds': (os.path.join(FIX, 'vds', 'small.vds'), 'pyvds', 30), 'sgz': (sgz, 'seismic_zfp', 100)}
    opener_id = {'segyio': 0, 'pyzgy': 1, 'pyvds': 2, 'seismic_zfp': 3}
    names = [('segy', 'f.sgy'), ('segy', 'f.SGY'), ('segy', 'f.segy'), ('segy', 'f.SeGy'), ('segy', 'noext'), ('segy', 'dir.d/noext2'),
             ('segy', 'g.'), ('zgy', 'f.zgy'), ('zgy', 'f.ZGY'), ('zgy', 'f.Zgy'), ('vds', 'f.vds'), ('vds', 'f.VDS'), ('sgz', 'f.sgz'),
             ('sgz', 'f.SGZ'), ('sgz', 'two.dots.sgz'), ('segy', 'f.txt'), ('zgy', 'f.zgy2'), ('sgz', 'f.sgzz'), ('vds', 'f.v'), ('segy', '.segy'),
             ('segy', 'f.sgy.bak'), ('segy', '.zgy')]
    calls = []
    for kind, nm in names:
        dst = os.path.join(D, 'disp', nm)
        os.makedirs(os.path.dirname(dst), exist_ok=True)
        shutil.copyfile(kinds[kind][0], dst)
        calls.append((kind, dst, 'NoArg', None))
    # explicit file types (right and wrong for the content), and non-Filetype arguments
    for kind, nm, ft in (('zgy', 'f.txt2', Filetype.ZGY), ('vds', 'f.sgy2', Filetype.VDS), ('sgz', 'x.zgy3', Filetype.SGZ), ('segy', 'y.vds4', Filetype.SEGY)):
        dst = os.path.join(D, 'disp', nm)
        shutil.copyfile(kinds[kind][0], dst)
        calls.append((kind, dst, f'(ArgFt {ft.value})', ft))
    for bad in ('zgy', 10, 'Filetype.ZGY', 0.0):
        calls.append(('zgy', os.path.join(D, 'disp', 'f.zgy'), 'ArgOther', bad))
    for kind, path, arg, ft in calls:
        case = {'kind': 'open', 'name': os.path.basename(path), 'file_type': str(ft)}
        try:
            hd = SeismicFile.open(path) if arg == 'NoArg' else SeismicFile.open(path, ft)
            mod = type(hd).__module__.split('.')[0]
            got = (0, hd.filetype.value, opener_id.get(mod, -1), 1 if hd.structured else 0)
            try:
                hd.close()
            except Exception:
                pass
        except ValueError:
            got = (1, 0, 0, 0)
        except Exception as e:
            got = ('exc', type(e).__name__, str(e)[:80])
        # oracle: what the documentation of the class says (type by extension; no extension = SEG-Y; explicit type wins)
        ext = os.path.splitext(path)[1].lower().strip('.')
        doc = {'': 0, 'sgy': 0, 'segy': 0, 'zgy': 10, 'vds': 30, 'sgz': 100}
        if arg == 'NoArg':
            want_ft = doc.get(ext)
        elif arg == 'ArgOther':
            want_ft = None
        else:
            want_ft = ft.value
        if want_ft is None:
            if got != (1, 0, 0, 0):
                R.violation('oracle', case, f'expected ValueError, got {got}')
        elif got[:2] != (0, want_ft) or got[2] != opener_id[{0: 'segyio', 10: 'pyzgy', 30: 'pyvds', 100: 'seismic_zfp'}[want_ft]] or got[3] != 1:
            R.violation('oracle', case, f'expected file type {want_ft} opened by its library and structured, got {got}')
        raw_ext = os.path.splitext(path)[1]
        expect(f'open_show [{"; ".join(str(ord(ch)) for ch in raw_ext)}] {arg} true', got, case, 'SeismicFile.open')
        R.case(('open', os.path.basename(path), arg, str(ft)), sample=case)
        R.count('open')
    # converter classes fix their type: the extension is irrelevant for them
    dst = os.path.join(D, 'disp', 'plain.dat')
    shutil.copyfile(kinds['zgy'][0], dst)
    with ZgyConverter(dst) as c:
        if c.filetype != Filetype.ZGY:
            R.violation('oracle', {'kind': 'converter'}, 'ZgyConverter.filetype')
    with VdsConverter(kinds['vds'][0]) as c:
        if c.filetype != Filetype.VDS:
            R.violation('oracle', {'kind': 'converter'}, 'VdsConverter.filetype')
    expect('(conv_filetype_segy, conv_filetype_zgy, conv_filetype_vds)', ('Some 0', 'Some 10', 'Some 30'), {'kind': 'converter'}, 'converter types')


# ---------------------------------------------------------------- numpy assumptions
def check_numpy_assumptions():
    cases = [(0, 1, 2), (5, -1, 5), (-7, 3, 9), (2147483000, 1, 7), (-2147483648, 1000, 5), (100, -5, 6), (1000000, 7, 4), (3, 2, 65),
             (2147483647, -65536, 32768), (17, 0, 3)]
    for _ in range(300 if not thorough else 3000):
        n = rng.choice([2, 3, 4, 5, 7, 64, 65, 1000, rng.randrange(2, 5000)])
        d = rng.choice([1, -1, 2, -3, rng.randrange(-1000, 1000), rng.randrange(-2 ** 20, 2 ** 20)])
        lo, hi = -2 ** 31 - min(0, d * (n - 1)), 2 ** 31 - 1 - max(0, d * (n - 1))
        if lo > hi:
            continue
        cases.append((rng.randrange(lo, hi + 1), d, n))
    for a0, d, n in cases:
        ax = np.array([a0 + d * k for k in range(n)], dtype=np.intc)
        got = np.linspace(ax[0], ax[-1], num=len(ax), dtype=np.intc)
        R.case(('linspace', a0, d, n), nontrivial=d != 0)
        R.count('linspace')
        if got.dtype != np.intc or not np.array_equal(got, ax):
            k = int(np.nonzero(got != ax)[0][0]) if got.shape == ax.shape else -1
            R.violation('assumption', {'kind': 'linspace', 'start': a0, 'step': d, 'count': n},
                        f'np.linspace(first, last, num, dtype=intc) is not the arithmetic axis (first difference at {k}): lin_exact fails')
    for n in (2, 3, 7, 64, 1000, 4097):
        if not np.array_equal(np.linspace(0, n - 1, num=n), np.arange(n, dtype=float)):
            R.violation('assumption', {'kind': 'linspace_idx', 'n': n}, 'np.linspace(0, n-1, num=n) is not 0.0, 1.0, ...')
    A, B = np.meshgrid(np.array([10, 20, 30]), np.array([1, 2]))
    if A.shape != (2, 3) or not (np.array_equal(A, [[10, 20, 30]] * 2) and np.array_equal(B, [[1, 1, 1], [2, 2, 2]])):
        R.violation('assumption', {'kind': 'meshgrid'}, "np.meshgrid(a, b) is not ('xy') A[r, c] = a[c], B[r, c] = b[r] of shape (len(b), len(a))")
    x = np.array([0.5, 1.5, 2.5, -0.5, -1.5, 2.4999, 1e9 + 0.5])
    if list(np.round(x).astype(np.intc)) != [0, 2, 2, 0, -2, 2, 1000000000]:
        R.violation('assumption', {'kind': 'round'}, 'np.round is not round-half-to-even followed by an exact cast')


# ---------------------------------------------------------------- the emulators' accessor (external code; model emu_iline)
def check_accessor(path, data, case):
    with pyzgy.open(path) as h:
        axis = [int(v) for v in h.ilines]
        n = len(axis)
        d = axis[1] - axis[0]
        keys = sorted(set(axis + [axis[0] - d, axis[-1] + d, -1, -2, -n, 0, 1, n, axis[0] + 1]))
        for key in keys:
            try:
                pl = np.asarray(h.iline[key])
                hit = [i for i in range(n) if bits_equal(pl, data[i])]
                got = f'Some {hit[0]}' if len(hit) == 1 else 'ambiguous'
            except IndexError:
                got = 'None'
            except Exception as e:
                got = type(e).__name__
            R.count('accessor')
            expect(f'emu_iline (fun k => {zl(axis[0])} + {zl(d)} * k) {n} (fun i _ _ => i) {zl(key)} 0 0', got, dict(case, key=key),
                   'pyzgy inline accessor')


# ---------------------------------------------------------------- main
def run_generated(spec, settings, windows=None):
    p = os.path.join(D, spec['name'] + '.zgy')
    data = tagged_cube(spec['shape'], a.seed * 100 + int(spec['name'][1:]))
    mk_zgy(p, data, spec['zstart'], spec['zinc'], spec['astart'], spec['ainc'], spec['corners'])
    for bpv, bs in settings:
        case = {'kind': 'zgy_generated', 'src': spec['name'], 'spec': {k: v for k, v in spec.items()}, 'bpv': bpv, 'blockshape': list(bs), 'seed': a.seed}
        check_conversion(case, p, 'ZGY', bpv, bs, written=data)
    for k, wn in enumerate(windows or []):
        bpv, bs = WSETTINGS[k % len(WSETTINGS)]
        case = {'kind': 'zgy_generated', 'src': spec['name'], 'spec': {k2: v for k2, v in spec.items()}, 'bpv': bpv, 'blockshape': list(bs), 'seed': a.seed,
                'window': list(wn)}
        check_conversion(case, p, 'ZGY', bpv, bs, written=data, window=tuple(wn))
    if use_model:
        check_accessor(p, data, {'kind': 'accessor', 'src': spec['name']})
    os.remove(p)


def run_negative():
    """D53: a negative inline number; step 2 so that the accessor returns ANOTHER inline instead of raising"""
    for nm, astart, ainc in (('n0', (-2, 10), (2, 1)), ('n1', (-3, 5), (1, 1))):
        spec = dict(name=nm, shape=(6, 5, 8), zstart=0.0, zinc=4.0, astart=astart, ainc=ainc, corners=None)
        p = os.path.join(D, nm + '.zgy')
        data = tagged_cube(spec['shape'], 77)
        mk_zgy(p, data, spec['zstart'], spec['zinc'], spec['astart'], spec['ainc'], spec['corners'])
        case = {'kind': 'zgy_negative_inline', 'src': nm, 'spec': spec, 'bpv': 16, 'blockshape': [4, 4, -1]}
        check_conversion(case, p, 'ZGY', 16, (4, 4, -1), written=data)
        if use_model:
            check_accessor(p, data, {'kind': 'accessor', 'src': nm})
        os.remove(p)


def main():
    if a.replay:
        v = json.load(open(a.replay))
        c = v.get('input') or {}
        k = c.get('kind')
        if k == 'zgy_generated' or k == 'zgy_negative_inline':
            sp = c['spec']
            sp = dict(sp, shape=tuple(sp['shape']), astart=tuple(sp['astart']), ainc=tuple(sp['ainc']),
                      corners=[tuple(x) for x in sp['corners']] if sp.get('corners') else None)
            if c.get('window'):
                run_generated(sp, [], [tuple(c['window'])])
            else:
                run_generated(sp, [(c['bpv'], tuple(c['blockshape']))])
        elif k == 'fixture':
            check_conversion(c, os.path.join(FIX, c['rel']), c['ft'], c['bpv'], tuple(c['blockshape']), window=tuple(c['window']) if c.get('window') else None)
        elif k == 'sgz_input':
            check_sgz_input()
        elif k in ('open', 'converter'):
            check_dispatch()
        elif k in ('linspace', 'linspace_idx', 'meshgrid', 'round'):
            check_numpy_assumptions()
        else:
            R.notes.append(f'replay: unknown case kind {k!r}; running the whole list')
            c = None
        if c is not None and k is not None:
            flush_model()
            R.write(a.out)
            return
    check_numpy_assumptions()
    check_dispatch()
    # VDS fixture: several settings
    vsettings = SETTINGS_Q + ([(0.5, (4, 4, -1)), (4, (4, 8, -1)), (2, (4, 4, -1)), (8, (4, 4, -1))] if thorough else [])
    for bpv, bs in vsettings:
        case = {'kind': 'fixture', 'src': 'vds/small.vds', 'rel': 'vds/small.vds', 'ft': 'VDS', 'bpv': bpv, 'blockshape': list(bs)}
        check_conversion(case, os.path.join(FIX, 'vds', 'small.vds'), 'VDS', bpv, bs)
    # ZGY fixtures
    for nm, sets in (('small-8bit.zgy', [(4, (4, 4, -1)), (2, (64, 64, 4))]), ('small-16bit.zgy', [(8, (8, 8, -1))]),
                     ('small-32bit.zgy', [(16, (4, 4, -1)), (1, (16, 16, -1))]), ('small-float-samplerate.zgy', [(4, (4, 4, -1)), (2, (4, 4, -1))])):
        for bpv, bs in (sets if not thorough else SETTINGS_Q):
            case = {'kind': 'fixture', 'src': 'zgy/' + nm, 'rel': 'zgy/' + nm, 'ft': 'ZGY', 'bpv': bpv, 'blockshape': list(bs)}
            check_conversion(case, os.path.join(FIX, 'zgy', nm), 'ZGY', bpv, bs)
    # windowed conversions of the fixtures (D54: header arrays of the window; the VDS route captures headers per trace)
    fw = FIXTURE_WINDOWS if thorough else FIXTURE_WINDOWS[:3]
    for k, wn in enumerate(fw):
        nm = ['small-8bit.zgy', 'small-float-samplerate.zgy', 'small-32bit.zgy', 'small-16bit.zgy'][k % 4]
        bpv, bs = WSETTINGS[k % len(WSETTINGS)]
        case = {'kind': 'fixture', 'src': 'zgy/' + nm, 'rel': 'zgy/' + nm, 'ft': 'ZGY', 'bpv': bpv, 'blockshape': list(bs), 'window': list(wn)}
        check_conversion(case, os.path.join(FIX, 'zgy', nm), 'ZGY', bpv, bs, window=wn)
    for wn in ([(1, 4, 0, 3), (0, 5, 2, 5)] if thorough else [(1, 4, 0, 3)]):
        case = {'kind': 'fixture', 'src': 'vds/small.vds', 'rel': 'vds/small.vds', 'ft': 'VDS', 'bpv': 4, 'blockshape': [4, 4, -1], 'window': list(wn)}
        check_conversion(case, os.path.join(FIX, 'vds', 'small.vds'), 'VDS', 4, (4, 4, -1), window=wn)
    # generated ZGY cubes
    specs = zgy_specs()
    for i, spec in enumerate(specs):
        if thorough:
            sets = SETTINGS_Q
        else:
            sets = [SETTINGS_Q[i % len(SETTINGS_Q)], SETTINGS_Q[(i + 2) % len(SETTINGS_Q)]]
        run_generated(spec, sets, WINDOWS.get(spec['name']))
    check_sgz_input()
    if a.pid.startswith('C01'):
        run_negative()
    else:
        R.notes.append('the D53 cases (negative inline numbers in a ZGY source) run under C01 only')
    flush_model()
    if use_model:
        R.notes.append('model evaluated inside Coq (coqeval) on the inputs of every case')
    else:
        R.notes.append('--no-model: direct oracles only')
    R.write(a.out)


main()
