#!/usr/bin/env python3
"""Harness for the xarray backend (seismic_zfp/sgz_xarray.py) and tools.cube: packages C02e (coherence) and C07d (I/O).

(a) ORACLE (C02): on real files of several layouts -- (4,4,N) default, (8,8,64) / (16,16,32) general, (64,64,4) z-slice,
    sizes that are not multiples of 4 or of the blockshape, non-trivial line / sample axes -- random numpy basic-indexing
    keys (ints of both signs, slices with absent / negative / over-long bounds, positive and negative steps, empty,
    reversed, past the end)
      * through xarray:  xr.open_dataset(path, engine=SeismicZfpBackendEntrypoint).data[key].values  (a FRESH dataset per
        case: xarray caches the values of a variable after the first load), and isel / sel with slices, ints, lists,
        label slices and pointwise (vectorised) indexers,
      * through SeismicZfpBackendArray.__getitem__(BasicIndexer(key)) and _raw_indexing_method(key) directly,
    must equal read_volume()[key] bit for bit (dtype float32), and read_volume() itself must equal the cell-by-cell decode
    of the file made from the specification (hz.SpecFile); an int outside its axis must raise IndexError, a zero step
    ValueError; tools.cube(path) must equal read_volume(); the dataset's coordinates must be the axes of the file.
(b) I/O (C07): over a CountingFile the data-section requests of a selection are exactly those of read_subvolume on the
    bounding box of the selected indices (computed here with numpy, not with the model), the touched 4 KiB blocks are
    exactly those holding a compression unit of that box, no byte is fetched twice, an empty selection and a rejected key
    read nothing, and opening the dataset touches only the header blocks.
(c) CORRESPONDENCE: the Coq model (Model/Xarray.v: xa_raw over Gen/Xarray.v and Gen/Reader.v) is evaluated with
    tools/coqeval.py on the same (header, key): outcome class, shape, range reads, and the provenance of probed cells
    (materialised through the specification decoder's units) must agree with the implementation; the specification of
    numpy basic indexing used by the theorems (np_dims, np_src, np_lo, np_hi, int_in_range) is compared with numpy itself.
(d) CONCURRENCY (C02; outside the sequential Coq model): a dataset opened with dask chunks (open_dataset(..., chunks=...)) and
    loaded with dask's threaded scheduler must give read_volume() as well.  Finding D51 (findings/d51_xarray_dask_race.py):
    without a lock around the reader call concurrent chunk loads interleave seek/read on the one file handle and return
    wrong samples silently.  While the backend array has no `lock` attribute a mismatch is reported under the finding key
    D51-xarray-dask-race (KNOWN-FINDING once registered); with the repair applied a mismatch is a plain violation.
"""
import os, sys, json, struct
sys.path.insert(0, os.path.dirname(os.path.abspath(__file__)))
from common import *
a = parse_args()
from hz import *
import xarray as xr
from xarray.core import indexing
from xarray.backends import BackendArray
from seismic_zfp.sgz_xarray import SeismicZfpBackendEntrypoint, SeismicZfpBackendArray
import seismic_zfp
from coqeval import coq_eval, parse_value, zlist, zlit



class ControlArray(BackendArray):
    """a trivially correct BASIC-indexing backend over an in-memory array: what xarray's own machinery (LazilyIndexedArray,
    explicit_indexing_adapter) does with a selection when the backend is right.  xarray 2026.7 itself deviates from numpy for
    a few exotic keys (an empty slice with a negative step raises IndexError in indexing._decompose_slice; a negative-step
    slice whose start lies below -n is normalised to a non-empty one; an empty list raises ValueError): those are not the
    library's, so the expected outcome of a selection THROUGH xarray is the control's, and the keys the control was handed
    are the request whose bounding box the I/O is compared with."""
    def __init__(self, V):
        self.V, self.shape, self.dtype, self.log = V, V.shape, V.dtype, []

    def __getitem__(self, key):
        return indexing.explicit_indexing_adapter(key, self.shape, indexing.IndexingSupport.BASIC, self._raw)

    def _raw(self, key):
        self.log.append(key)
        return self.V[key]


R = Result('one case = (file layout/shape/rate, entry point, key); entry points: ds.data[key] / isel / sel on a fresh dataset, '
           'BackendArray[BasicIndexer(key)], _raw_indexing_method(key), tools.cube; non-trivial = distinct case whose '
           'expected outcome is data (incl. empty selections) or a refusal caused by an int outside its axis / a zero step; '
           'keys are seeded random per axis: ints of both signs, slices with None / negative / over-long bounds and steps of both signs')
rng = random.Random(a.seed * 104729 + 23)
thorough = (a.tier == 'thorough') or a.search
STATUS = os.path.join(os.path.dirname(os.path.abspath(__file__)), '..', '..', 'coq', 'Gen', 'STATUS.json')
HDR_FIELDS = json.load(open(STATUS))['hdr_fields'] if os.path.exists(STATUS) else []
use_model = not a.no_model and bool(HDR_FIELDS)
pending = []        # (term, checker(value) -> message or None, input)


def hdr_list(raw):
    vals = []
    for name in HDR_FIELDS:
        _, kind, off = name.split('_')
        vals.append(struct.unpack('<I' if kind[0] == 'u' else '<i', raw[int(off):int(off) + 4])[0])
    return vals


# ------------------------------------------------------------------------------------------------ keys
def rnd_bound(n):
    c = rng.random()
    if c < 0.25:
        return None
    if c < 0.62:
        return rng.randrange(0, n + 1)
    if c < 0.85:
        return -rng.randrange(1, n + 2)
    return rng.choice([n + 1, n + 7, -n - 1, -n - 5, 10 ** 6, -10 ** 6, n, -n])


def rnd_step(n):
    return rng.choice([None, None, 1, 1, 2, 3, 4, 5, -1, -1, -2, -3, -4, -7, n, -n, n + 1, -n - 1, max(1, n - 1)])


def rnd_key1(n, bad=0.0, zero=0.0):
    c = rng.random()
    if c < 0.27:
        if rng.random() < bad:
            return rng.choice([n, n + 3, -n - 1, -n - 9, 10 ** 6])
        return rng.randrange(0, n) if rng.random() < 0.6 else -rng.randrange(1, n + 1)
    if rng.random() < zero:
        return slice(rnd_bound(n), rnd_bound(n), 0)
    if rng.random() < 0.3:
        return slice(rnd_bound(n), rnd_bound(n), rnd_step(n))          # anything, often empty
    # a non-empty selection: first < last, walked in either direction, bounds written in any of their equivalent forms
    i, j = sorted((rng.randrange(0, n), rng.randrange(0, n)))
    st = rng.choice([1, 1, 2, 3, 4, 5, 7, max(1, j - i), n])

    def alt(v, none_ok):
        c2 = rng.random()
        return None if (none_ok and c2 < 0.5) else (v - n if c2 < 0.75 and v - n < 0 else v)
    if rng.random() < 0.6:
        stop = j + 1
        return slice(alt(i, i == 0), None if (stop == n and rng.random() < 0.5) else rng.choice([stop, stop - n if stop < n else n + 5]),
                     st if (st != 1 or rng.random() < 0.5) else None)
    stop = i - 1
    return slice(alt(j, j == n - 1), None if stop < 0 else rng.choice([stop, stop - n]), -st)


def rnd_key(shape, bad=0.0, zero=0.0):
    return tuple(rnd_key1(n, bad, zero) for n in shape)


def key_text(key):
    return '[' + ', '.join(str(k) if not isinstance(k, slice) else
                           ':'.join('' if v is None else str(v) for v in (k.start, k.stop, k.step)) for k in key) + ']'


def coq_opt(v):
    return 'None' if v is None else f'(Some {zlit(int(v))})'


def coq_key1(k):
    if isinstance(k, slice):
        return f'(KSlice (mkslice {coq_opt(k.start)} {coq_opt(k.stop)} {coq_opt(k.step)}))'
    return f'(KInt {zlit(int(k))})'


def coq_key(key):
    return '(' + ', '.join(coq_key1(k) for k in key) + ')'


def expected(V, key):
    """numpy itself is the oracle for V[key]: ('val', array) | ('err', class name)"""
    try:
        return ('val', V[key])
    except IndexError:
        return ('err', 'IndexError')
    except ValueError:
        return ('err', 'ValueError')


def attempt(fn):
    try:
        return ('val', fn())
    except IndexError as e:
        return ('err', 'IndexError')
    except ValueError as e:
        return ('err', 'ValueError')
    except Exception as e:
        return ('err', f'{type(e).__name__}: {e}')


def same(got, want):
    if got[0] != want[0]:
        return False
    if got[0] == 'err':
        return got[1].split(':')[0] == want[1].split(':')[0]
    g = np.asarray(got[1])
    return g.dtype == np.float32 and bits_equal(g, want[1])


def describe(o):
    if o[0] == 'err':
        return f'raised {o[1]}'
    g = np.asarray(o[1])
    return f'array of shape {g.shape} dtype {g.dtype}'


def bbox_of(key, shape):
    """bounding box of the indices a key selects, per axis, by numpy on an index vector; None when nothing is selected"""
    box = []
    for k, n in zip(key, shape):
        sel = np.atleast_1d(np.arange(n)[k])
        if sel.size == 0:
            return None
        box += [int(sel.min()), int(sel.max()) + 1]
    return tuple(box)


# ------------------------------------------------------------------------------------------------ one file
class FileCase:
    def __init__(self, d, label, shape, bpv, bs, il0, xl0, z0):
        self.label = label
        self.shape = shape
        n_il, n_xl, n_s = shape
        self.ilines = np.array([il0[0] + il0[1] * k for k in range(n_il)])
        self.xlines = np.array([xl0[0] + xl0[1] * k for k in range(n_xl)])
        self.samples = np.array([z0[0] + z0[1] * k for k in range(n_s)], dtype=np.float64)
        self.path = os.path.join(d, f'x{rng.randrange(10 ** 9)}.sgz')
        write_numpy_sgz(self.path, rnd_cube(rng, shape), bpv=bpv, blockshape=bs, ilines=self.ilines, xlines=self.xlines,
                        samples=self.samples)
        self.spec = SpecFile(self.path)
        self.ds0 = 4096 * self.spec.nhb
        self.dend = self.ds0 + 4096 * self.spec.ndb
        with SgzReader(self.path) as r:
            self.V = r.read_volume()
        self.hl = zlist(hdr_list(self.spec.raw[:4096])) if use_model else None
        self.coords = {'il': self.ilines, 'xl': self.xlines, 'z': self.samples}
        self.mem = xr.DataArray(self.V, dims=('il', 'xl', 'z'), coords=self.coords)

    def control(self):
        c = ControlArray(self.V)
        return c, xr.DataArray(indexing.LazilyIndexedArray(c), dims=('il', 'xl', 'z'), coords=self.coords)

    def inp(self, entry, key=None, **kw):
        dct = {'file': self.label, 'entry': entry}
        if key is not None:
            dct['key'] = key_text(key) if isinstance(key, tuple) else str(key)
        dct.update(kw)
        return dct

    def data_reads(self, log):
        return [(o, l) for o, l in log if o < self.dend and o + l > self.ds0 and l > 0]

    def allowed_blocks(self, box):
        sp = self.spec
        return {sp.unit_index(iu, xu, zu) * sp.ub // 4096
                for iu in range(box[0] // 4, (box[1] + 3) // 4) for xu in range(box[2] // 4, (box[3] + 3) // 4)
                for zu in range(box[4] // 4, (box[5] + 3) // 4)}

    def io_oracle(self, io, box):
        ivs = sorted((o, o + l) for o, l in io)
        for (o, e) in ivs:
            if o < self.ds0 or e > self.dend:
                return f'range read [{o},{e}) outside the data section [{self.ds0},{self.dend})'
        for (o1, e1), (o2, e2) in zip(ivs, ivs[1:]):
            if o2 < e1:
                return f'bytes [{o2},{min(e1, e2)}) fetched twice within one call'
        touched = set()
        for o, e in ivs:
            touched.update(range((o - self.ds0) // 4096, (e - self.ds0 + 4095) // 4096))
        allowed = self.allowed_blocks(box)
        if touched - allowed:
            return (f'{len(touched - allowed)} disk block(s) fetched that hold no voxel of the bounding box {box}, e.g. block '
                    f'{min(touched - allowed)} (touched {len(touched)}, the box needs {len(allowed)})')
        if allowed - touched:
            return f'{len(allowed - touched)} block(s) of the bounding box {box} were not fetched (data cannot come from the file)'
        return None


def check_volume(fc):
    """read_volume() = the specification decode; tools.cube = read_volume(); coordinates of the dataset"""
    n_il, n_xl, n_s = fc.shape
    inp = fc.inp('read_volume')
    R.case(('vol', fc.label), sample=inp)
    if not bits_equal(fc.V, fc.spec.volume()[:n_il, :n_xl, :n_s]):
        R.violation('oracle', inp, 'read_volume() differs from the cell-by-cell decode of the file made from the specification')
    inp = fc.inp('tools.cube')
    R.case(('cube', fc.label), sample=inp)
    got = attempt(lambda: seismic_zfp.cube(fc.path))
    if not same(got, ('val', fc.V)):
        R.violation('oracle', inp, f'tools.cube(path) is not read_volume(): {describe(got)}')
    f = CountingFile(fc.path)
    ds = xr.open_dataset(f, engine=SeismicZfpBackendEntrypoint)
    try:
        inp = fc.inp('open_dataset')
        R.case(('open', fc.label), sample=inp)
        exp = [(0, 4096)] + ([(0, 4096 * fc.spec.nhb)] if fc.spec.nhb != 1 else [])
        if f.log != exp:
            R.violation('oracle', inp, f'opening the dataset read {f.log[:5]}, expected only the header blocks {exp}')
        if tuple(ds.data.dims) != ('il', 'xl', 'z') or ds.data.shape != fc.shape or ds.data.dtype != np.float32:
            R.violation('oracle', inp, f'dims/shape/dtype of ds.data: {ds.data.dims} {ds.data.shape} {ds.data.dtype}, expected '
                        f"('il','xl','z') {fc.shape} float32")
        elif list(ds.il.values) != list(fc.ilines) or list(ds.xl.values) != list(fc.xlines) or \
                not np.array_equal(np.asarray(ds.z.values, dtype=np.float64), fc.samples):
            R.violation('oracle', inp, 'coordinates of the dataset are not the line / sample axes of the file')
        f.log.clear()
        inp = fc.inp('ds.data.values')
        R.case(('full', fc.label), sample=inp)
        got = attempt(lambda: ds.data.values)
        if not same(got, ('val', fc.V)):
            R.violation('oracle', inp, f'the whole variable is not read_volume(): {describe(got)}')
        msg = fc.io_oracle(fc.data_reads(f.log), (0, n_il, 0, n_xl, 0, n_s))
        if msg:
            R.violation('oracle', inp, msg)
    finally:
        ds.close()


def check_raw(fc, key, entry):
    """direct call of the backend array over a counting file: value, outcome class, I/O against the bounding box; model"""
    n_il, n_xl, n_s = fc.shape
    want = expected(fc.V, key)
    bkey = key          # the key the raw method is handed
    if entry != 'raw':
        # through explicit_indexing_adapter: the expected outcome and the backend key are the control's
        c = ControlArray(fc.V)
        cw = attempt(lambda: c[indexing.BasicIndexer(key)])
        if not same(cw, want):
            R.count('xarray itself deviates from numpy (control backend)')
        want = cw
        bkey = c.log[0] if len(c.log) == 1 else None
    f = CountingFile(fc.path)
    r = SgzReader(f)
    try:
        arr = SeismicZfpBackendArray(fc.shape, np.float32, r)
        f.log.clear()
        if entry == 'raw':
            got = attempt(lambda: arr._raw_indexing_method(key))
        else:
            got = attempt(lambda: arr[indexing.BasicIndexer(key)])
        io = fc.data_reads(f.log)
        other = [x for x in f.log if x not in io]
        inp = fc.inp('_raw_indexing_method' if entry == 'raw' else 'BackendArray[BasicIndexer]', key)
        R.count(entry + ' ' + ('data' if want[0] == 'val' and np.asarray(want[1]).size else 'empty' if want[0] == 'val' else want[1].split(':')[0]))
        R.case((fc.label, entry, key_text(key)), sample=inp)
        if not same(got, want):
            R.violation('oracle', inp, f'{"numpy" if entry == "raw" else "a correct BASIC backend"} gives {describe(want)} for read_volume(){key_text(key)}, the backend {describe(got)}'
                        + ('' if got[0] == 'err' or want[0] == 'err' or np.asarray(got[1]).shape != np.asarray(want[1]).shape
                           else ' with different values'))
        box = bbox_of(bkey, fc.shape) if want[0] == 'val' and bkey is not None else None
        if other:
            R.violation('oracle', inp, f'requests outside the data section during a sample read: {other[:4]}')
        if box is None:
            if io:
                R.violation('oracle', inp, f'{"an empty selection" if want[0] == "val" else "a rejected key"} read {len(io)} range(s) of the data section: {io[:4]}')
        elif got[0] == 'val':
            msg = fc.io_oracle(io, box)
            if msg:
                R.violation('oracle', inp, msg)
            r.loader.clear_cache()
            f.log.clear()
            sub = attempt(lambda: r.read_subvolume(*box))
            io2 = fc.data_reads(f.log)
            if sub[0] != 'val':
                R.violation('oracle', inp, f'read_subvolume on the bounding box {box} {describe(sub)}')
            elif io != io2:
                R.violation('oracle', inp, f'data-section requests {io[:5]} ({len(io)}) differ from those of read_subvolume{box}: {io2[:5]} ({len(io2)})')
        if use_model and entry == 'raw':
            cells = []
            if got[0] == 'val' and np.asarray(got[1]).size:
                g = np.asarray(got[1])
                cells = [tuple(rng.randrange(s) for s in g.shape) for _ in range(3)] + [tuple(s - 1 for s in g.shape), tuple(0 for _ in g.shape)]
            term = f'xa_probe {fc.hl} {coq_key(key)} [' + '; '.join(zlist(c) for c in cells) + ']'

            def chk(v, got=got, io=io, cells=cells, fc=fc):
                tag, shape, provs, reads = v
                cls = {0: 'val', 1: 'IndexError', 2: 'ValueError', 3: 'other'}[tag]
                if got[0] == 'err':
                    return None if cls == got[1] else f'model outcome {cls}, implementation raised {got[1]}'
                if cls != 'val':
                    return f'model raises {cls}, implementation returned {describe(got)}'
                g = np.asarray(got[1])
                if tuple(shape) != g.shape:
                    return f'model shape {tuple(shape)}, implementation {g.shape}'
                mio = [(o + fc.ds0, l) for o, l in (tuple(x) for x in reads)]
                if coalesce(mio) != coalesce(io):
                    return f'model range reads {coalesce(mio)[:5]} ({len(mio)}), implementation {coalesce(io)[:5]} ({len(io)})'
                U = fc.spec.units()
                for c, pv in zip(cells, provs):
                    off, cell = pv
                    if off == -1:
                        val = np.float32(0.0)
                    elif off < 0 or off % fc.spec.ub or off // fc.spec.ub >= len(U):
                        return f'model provenance of cell {c} is {pv} (not a unit of the file)'
                    else:
                        val = U[off // fc.spec.ub].reshape(-1)[cell]
                    if np.float32(val).tobytes() != np.float32(g[c]).tobytes():
                        return f'cell {c}: model says unit at data offset {off} cell {cell} (= {val}), implementation returned {g[c]}'
                return None
            pending.append((term, chk, inp))
    finally:
        r.close()


def coalesce(reads):
    out = []
    for off, ln in reads:
        if ln <= 0:
            continue
        if out and out[-1][0] + out[-1][1] == off:
            out[-1] = (out[-1][0], out[-1][1] + ln)
        else:
            out.append((off, ln))
    return out


def check_xarray(fc, what, sel, describe_sel):
    """a selection through a FRESH dataset.  Expected = the same selection through xarray over the control backend (a
    correct BASIC backend serving read_volume()); the request = the key(s) the control backend was handed"""
    f = CountingFile(fc.path)
    ds = xr.open_dataset(f, engine=SeismicZfpBackendEntrypoint)
    try:
        f.log.clear()
        ctl, ref = fc.control()
        want = attempt(lambda: np.asarray(sel(ref).values))
        mem = attempt(lambda: np.asarray(sel(fc.mem).values))
        if not (want[0] == mem[0] and (want[0] == 'err' or (want[1].shape == mem[1].shape and bits_equal(want[1], mem[1])))):
            R.count('xarray itself deviates from numpy (control backend)')
        got = attempt(lambda: sel(ds.data).values)
        io = fc.data_reads(f.log)
        inp = fc.inp(what, describe_sel)
        R.count(what + ' ' + ('data' if want[0] == 'val' and want[1].size else 'empty' if want[0] == 'val' else 'refused'))
        R.case((fc.label, what, str(describe_sel)), nontrivial=(want[0] == 'val' or want[1] in ('IndexError', 'ValueError')), sample=inp)
        if want[0] == 'err':
            # xarray refuses the selection over a correct backend as well (e.g. a label that is not on the axis): the backend
            # must refuse too, and must not have read anything
            if got[0] != 'err':
                R.violation('oracle', inp, f'xarray refuses this selection over a correct backend ({want[1]}), the backend returned {describe(got)}')
            elif io:
                R.violation('oracle', inp, f'a refused selection read {len(io)} range(s) of the data section')
            return
        if not same(got, want):
            R.violation('oracle', inp, f'expected {describe(want)} (the selection of read_volume()), the backend gives {describe(got)}'
                        + ('' if got[0] == 'err' or np.asarray(got[1]).shape != want[1].shape else ' with different values'))
            return
        if len(ctl.log) == 0:
            if io:
                R.violation('oracle', inp, f'xarray asks a backend for nothing here, yet {len(io)} range(s) of the data section were read')
        elif len(ctl.log) == 1:
            box = bbox_of(ctl.log[0], fc.shape)
            if box is None:
                if io:
                    R.violation('oracle', inp, f'an empty selection read {len(io)} range(s) of the data section: {io[:4]}')
            else:
                msg = fc.io_oracle(io, box)
                if msg:
                    R.violation('oracle', inp, msg)
                f2 = CountingFile(fc.path)
                with SgzReader(f2) as r2:
                    f2.log.clear()
                    r2.read_subvolume(*box)
                    io2 = fc.data_reads(f2.log)
                if io != io2:
                    R.violation('oracle', inp, f'data-section requests {io[:5]} ({len(io)}) differ from those of read_subvolume{box}: {io2[:5]} ({len(io2)})')
    finally:
        ds.close()


def rnd_list(n):
    k = rng.randrange(1, min(n, 5) + 1)
    return [rng.randrange(0, n) if rng.random() < 0.8 else -rng.randrange(1, n + 1) for _ in range(k)]


def isel_case(fc):
    n = dict(zip(('il', 'xl', 'z'), fc.shape))
    kw = {}
    for dim in ('il', 'xl', 'z'):
        c = rng.random()
        if c < 0.25:
            continue
        kw[dim] = rnd_list(n[dim]) if c < 0.5 else rnd_key1(n[dim])
    check_xarray(fc, 'isel', lambda A: A.isel(**kw), {d_: (key_text((v,)) if isinstance(v, (slice, int)) else v) for d_, v in kw.items()})


def sel_case(fc):
    axes = {'il': fc.ilines, 'xl': fc.xlines, 'z': fc.samples}
    kw = {}
    for dim in ('il', 'xl', 'z'):
        ax = axes[dim]
        c = rng.random()
        if c < 0.3:
            continue
        if c < 0.5:
            kw[dim] = ax[rng.randrange(len(ax))].item()
        elif c < 0.7:
            kw[dim] = [ax[rng.randrange(len(ax))].item() for _ in range(rng.randrange(1, 4))]
        elif c < 0.93:
            i, j = sorted(rng.sample(range(len(ax)), 2)) if len(ax) > 1 else (0, 0)
            lo, hi = ax[i].item(), ax[j].item()
            if rng.random() < 0.15:
                lo, hi = hi, lo         # against the axis order: selects nothing
            kw[dim] = slice(lo, hi) if rng.random() < 0.7 else slice(lo, hi, rng.choice([2, 3]))
        else:
            kw[dim] = (ax[0] + (ax[1] - ax[0]) / 2).item() if len(ax) > 1 and rng.random() < 0.5 else (ax.max() + abs(ax[-1] - ax[0]) + 1).item()
    check_xarray(fc, 'sel', lambda A: A.sel(**kw), {d_: str(v) for d_, v in kw.items()})


def pointwise_case(fc):
    n_il, n_xl, n_s = fc.shape
    k = rng.randrange(1, 5)
    ii = [rng.randrange(n_il) for _ in range(k)]
    xx = [rng.randrange(n_xl) for _ in range(k)]
    zkey = rnd_key1(n_s)
    check_xarray(fc, 'isel-pointwise',
                 lambda A: A.isel(il=xr.DataArray(ii, dims='p'), xl=xr.DataArray(xx, dims='p'), z=zkey),
                 {'il': ii, 'xl': xx, 'z': key_text((zkey,))})


def chained_case(fc):
    k1 = rnd_key(fc.shape)
    steps = [rng.choice([1, -1, 2, -2, 3]) for _ in range(3)]

    def sel(A):
        B = A[k1]
        return B[tuple(slice(None, None, steps[i]) for i in range(B.ndim))] if B.ndim else B
    check_xarray(fc, 'ds.data[key][key2]', sel, key_text(k1) + '[' + ', '.join(f'::{s_}' for s_ in steps) + '] (one per remaining axis)')


def numpy_spec_cases(shape):
    """the specification of numpy basic indexing the theorems are stated with, against numpy"""
    for n in sorted(set(shape)):
        for _ in range(10 if not thorough else 40):
            k = rnd_key1(n, bad=0.25, zero=0.08)
            js = [0, 1, 2, 5]
            term = f'np_probe {coq_key1(k)} {n} {zlist(js)}'
            try:
                sel = np.arange(n)[k]
                want = ('val', sel)
            except (IndexError, ValueError) as e:
                want = ('err', type(e).__name__)
            inp = {'axis length': n, 'key': key_text((k,))}
            R.case(('np', n, key_text((k,))), sample=inp)
            R.count('numpy-spec')

            def chk(v, want=want, k=k, n=n, js=js):
                valid, dims, src, lo, hi = v
                if want[0] == 'err':
                    return None if not valid else f'the specification accepts a key numpy refuses ({want[1]})'
                if not valid:
                    return 'the specification refuses a key numpy accepts'
                sel = want[1]
                if isinstance(k, slice):
                    if list(dims) != [sel.size]:
                        return f'np_dims {dims}, numpy selects {sel.size} positions'
                    for j, s in zip(js, src):
                        if j < sel.size and s != int(sel[j]):
                            return f'np_src at position {j} is {s}, numpy selects index {int(sel[j])}'
                    if sel.size and (lo, hi) != (int(sel.min()), int(sel.max()) + 1):
                        return f'bounding box ({lo},{hi}), numpy selection spans ({int(sel.min())},{int(sel.max()) + 1})'
                else:
                    if list(dims) != [] or src[0] != int(sel) or (lo, hi) != (int(sel), int(sel) + 1):
                        return f'int key: dims {dims} src {src[0]} box ({lo},{hi}), numpy selects index {int(sel)}'
                return None
            pending.append((term, chk, inp))


def foreign_files(d):
    """files not written by the NumPy route: an irregular SEG-Y survey (missing traces) and the fixtures of every format
    version / layout in test_data (3D only: the backend does not open 2D files).  Oracle only: a few keys through a fresh
    dataset and through the raw method against read_volume()"""
    import glob
    paths = []
    n_il, n_xl, ns = rng.choice([5, 6, 9]), rng.choice([6, 7]), rng.choice([30, 41])
    present = np.ones((n_il, n_xl), dtype=bool)
    for _ in range(4):
        present[rng.randrange(n_il), rng.randrange(n_xl)] = False
    present[2, 3] = True
    sgy, p = os.path.join(d, 'irr.sgy'), os.path.join(d, 'irr.sgz')
    mk_segy(sgy, rnd_cube(rng, (n_il, n_xl, ns)), range(1, 1 + n_il), range(10, 10 + n_xl), present=present)
    write_segy_sgz(sgy, p, bpv=8)
    paths.append((p, f'irregular segy ({n_il},{n_xl},{ns}) bpv=8'))
    fx = sorted(glob.glob(os.path.join(REPO, 'test_data', '*.sgz')))
    for f_ in (fx if thorough else rng.sample(fx, min(5, len(fx)))):
        paths.append((f_, 'fixture ' + os.path.basename(f_)))
    for path, label in paths:
        try:
            with SgzReader(path) as r:
                if r.is_2d:
                    continue
                V = r.read_volume()
                shape = (r.n_ilines, r.n_xlines, r.n_samples)
        except Exception as e:
            R.notes.append(f'{label} skipped: {type(e).__name__}: {e}')
            continue
        R.count('foreign file')
        for i in range(4):
            key = rnd_key(shape)
            want = expected(V, key)
            inp = {'file': label, 'entry': 'ds.data[key]' if i % 2 else '_raw_indexing_method', 'key': key_text(key)}
            R.case((label, i, key_text(key)), sample=inp)
            if i % 2:
                c = ControlArray(V)
                want = attempt(lambda: np.asarray(xr.DataArray(indexing.LazilyIndexedArray(c), dims=('il', 'xl', 'z'))[key].values))
                ds = xr.open_dataset(path, engine=SeismicZfpBackendEntrypoint)
                try:
                    got = attempt(lambda: ds.data[key].values)
                finally:
                    ds.close()
            else:
                with SgzReader(path) as r2:
                    got = attempt(lambda: SeismicZfpBackendArray(shape, np.float32, r2)._raw_indexing_method(key))
            if not same(got, want):
                R.violation('oracle', inp, f'expected {describe(want)} (that selection of read_volume()), the backend gives {describe(got)}')


def dask_case(d):
    """(d): chunked, threaded load of a whole variable and of a stepped selection"""
    try:
        import dask
    except ImportError:
        R.notes.append('dask is not installed: the chunked / threaded load (finding D51) was not exercised')
        return
    shape, bpv, bs, chunks = (40, 40, 200), 8, (8, 8, 64), {'il': 8, 'xl': 8, 'z': 64}
    p = os.path.join(d, 'dask.sgz')
    write_numpy_sgz(p, rnd_cube(rng, shape), bpv=bpv, blockshape=bs)
    with SgzReader(p) as r:
        V = r.read_volume()
        locked = hasattr(SeismicZfpBackendArray(shape, np.float32, r), 'lock')
    label = f'numpy {shape} bpv={bpv} bs={bs}'
    for sched, reps in (('synchronous', 1), ('threads', 3 if not thorough else 10)):
        wrong, detail = 0, ''
        for rep in range(reps):
            ds = xr.open_dataset(p, engine=SeismicZfpBackendEntrypoint, chunks=chunks)
            try:
                with dask.config.set(scheduler=sched, num_workers=8):
                    got = attempt(lambda: ds.data.values)
                    sub = attempt(lambda: ds.data[::2, 1::3, ::-1].values)
                if not same(got, ('val', V)) or not same(sub, ('val', V[::2, 1::3, ::-1])):
                    wrong += 1
                    detail = describe(got) if got[0] == 'err' else f'{int(np.sum(np.asarray(got[1]) != V)) if np.asarray(got[1]).shape == V.shape else "?"} of {V.size} samples differ'
            finally:
                ds.close()
        inp = {'file': label, 'entry': f'open_dataset(chunks={chunks}).data.values and [::2, 1::3, ::-1]', 'dask scheduler': sched, 'workers': 8}
        R.case(('dask', sched), sample=inp)
        R.count(f'dask {sched}')
        if wrong:
            msg = f'{wrong} of {reps} chunked loads are not read_volume() ({detail}); no exception was raised'
            if sched == 'threads' and not locked:
                R.violation('oracle', inp, msg + ' -- the backend array has no lock: finding D51', finding_key='D51-xarray-dask-race')
                if 'D51-xarray-dask-race' not in R.known:
                    R.known.append('D51-xarray-dask-race')
            else:
                R.violation('oracle', inp, msg)
    os.remove(p)


# ------------------------------------------------------------------------------------------------ main
def main():
    d = scratch_dir()
    try:
        configs = [
            # (bits per voxel, blockshape, candidate shapes, inline axis (start, step), crossline axis, sample axis)
            (4, (4, 4, -1), [(9, 11, 70), (5, 6, 130), (6, 5, 13)], (100, 1), (20, 2), (0.0, 4.0)),
            (8, (8, 8, 64), [(9, 11, 70), (17, 10, 65), (7, 9, 130)], (50, -3), (7, 5), (-12.0, 2.0)),
            (2, (64, 64, 4), [(66, 7, 9), (5, 65, 6), (70, 66, 5)], (1, 1), (1000, -10), (100.0, 0.5)),
            (4, (16, 16, 32), [(18, 33, 35), (35, 17, 66)], (-8, 4), (3, 3), (0.0, 1.0)),
            (16, (4, 4, -1), [(5, 7, 260), (4, 4, 131)], (1, 2), (1, 1), (4.0, 4.0)),
            (1, (16, 16, 128), [(17, 18, 130), (6, 33, 129)], (10, 10), (-5, 1), (0.0, 2.0)),
        ]
        if not thorough:
            configs = configs[:3] + [rng.choice(configs[3:])]
        n_raw, n_xr, n_sel = (70, 30, 12) if not thorough else (400, 150, 60)
        for bpv, bs, shapes, il0, xl0, z0 in configs:
            shape = rng.choice(shapes)
            label = f'numpy {shape} bpv={bpv} bs={bs}'
            fc = FileCase(d, label, shape, bpv, bs, il0, xl0, z0)
            R.count(f'layout {bs} rate {bpv}')
            check_volume(fc)
            for i in range(n_raw):
                key = rnd_key(shape, bad=0.08, zero=0.02)
                check_raw(fc, key, 'raw' if i % 4 else 'getitem')
            # corner keys: everything reversed, single voxel at both ends, steps larger than the axis, all empty
            n_il, n_xl, n_s = shape
            for key in [(slice(None, None, -1),) * 3, (0, 0, 0), (-1, -1, -1), (n_il - 1, slice(None, None, n_xl + 1), slice(-1, None, -n_s)),
                        (slice(0, 0), slice(None), slice(None)), (slice(None), slice(5, 2), 0), (slice(n_il, None), 0, slice(None, None, -1)),
                        (slice(None, None, 4), slice(3, None, 4), slice(None, None, bs[2] if bs[2] > 0 else 64))]:
                check_raw(fc, key, 'raw')
            for i in range(n_xr):
                key = rnd_key(shape, bad=0.05)
                check_xarray(fc, 'ds.data[key]', lambda A, key=key: A[key], key_text(key))
            for i in range(n_sel):
                isel_case(fc)
                sel_case(fc)
                if i % 2 == 0:
                    pointwise_case(fc)
                if i % 3 == 0:
                    chained_case(fc)
            if use_model:
                numpy_spec_cases(shape)
            os.remove(fc.path)
        foreign_files(d)
        if a.pid != 'C07':
            dask_case(d)
        if use_model and pending:
            vals = coq_eval(['SZ.Lib.Py', 'SZ.Model.Accessors', 'SZ.Model.Xarray'], [t for t, _, _ in pending])
            for (term, chk, inp), v in zip(pending, vals):
                try:
                    msg = chk(parse_value(v))
                except Exception as e:
                    msg = f'unreadable model value {v[:200]!r}: {type(e).__name__}: {e}'
                R.count('model evaluations')
                if msg:
                    R.violation('corr', inp, msg)
        elif not use_model:
            R.notes.append('model correspondence skipped (--no-model or Gen/STATUS.json missing)')
    finally:
        shutil.rmtree(d, ignore_errors=True)


main()
R.write(a.out)
