#!/usr/bin/env python3
"""Harness for the CLI package (Props/C19c.v, C11c.v, C06c.v): "a CLI invocation IS that API call".

A. Static correspondence: the parameter lists the Coq model derives from the GENERATED decorator stacks (Gen/Cli.v through
   Model/Cli.v: order, declaration, derived Python name, type, default, required) against the real click Command objects
   of seismic_zfp.cli (assumptions K1, K2 of Model/Cli.v); the model's token converters parse_int / show_int / parse_bool
   against click.INT / str() / click.BOOL on boundary tokens (K3).
B. Binding correspondence (cheap, many cases): the three converter classes in the namespace of seismic_zfp.cli are
   replaced by recorders; seeded command lines (options in any position, repeated options, omitted options, invalid
   tokens, missing / surplus / non-existing positional tokens, --version, zgy2sgz included) are run through
   click.testing.CliRunner and the recorded constructor / method calls -- or the refusal -- are compared with
   `cli_run (click_std exists) cmd invocation` evaluated inside Coq.
C. End to end on real files (the oracle): seeded option sets (windows incl. 0 bounds and partial windows, rates 1..32,
   reciprocal rates -2 -4, free parameters, every valid blockshape family, reduce-iops spellings, IBM / IEEE, 2D lines,
   omitted options, invalid settings) -> the SGZ written by `sgy2sgz` must be byte-identical to the SGZ written by
     (oracle) the API call the property texts name, spelled out HERE without the model, and
     (corr)   the API call the Coq model names for that command line (executed generically from the model's answer);
   refusals must be refusals on both sides with the same exception class and must leave no output when the setting is one
   the C19 model refuses; the header of an accepted file carries the rate / blockshape the C19 model resolves.
   `sgz2sgy` output must be byte-identical to SgzConverter(input).convert_to_segy(output).

ORACLE-ONLY MODE (--no-model, or automatically when the first model evaluation raises CoqEvalError, e.g. because a change to
cli.py made genx_cli fail closed so that Gen/Cli.v / SZ.Model.Cli no longer exist): every model evaluation and every 'corr'
comparison is skipped; the direct oracles still run: B with the hand-written reading of the command line below
(expected_outcome: each option value reaches its own keyword, defaults 4 / None / False / None x4, refusals call nothing),
C with the CLI's file byte-identical to the hand-spelled API call, refusals on both sides and no output left, sgz2sgy
byte-identical to the API export.  The result JSON is written in every case.
"""
import os, sys, re
sys.path.insert(0, os.path.dirname(os.path.abspath(__file__)))
from common import *
a = parse_args()
from hz import *
from coqeval import coq_eval, parse_value, zlit, CoqEvalError
import click
from click.testing import CliRunner
import seismic_zfp.cli as szcli
from seismic_zfp.cli import cli as sz_cli
import seismic_zfp.conversion as szconv

R = Result('one case = one command line of sgy2sgz / zgy2sgz / sgz2sgy: (B) run against recording converters and compared call by '
           'call with the Coq model, or (C) run on a real SEG-Y / SGZ file and compared byte by byte with the API call; '
           'non-trivial = distinct (command, option set, token spelling, positional shape) with at least one option or a refusal')
rng = random.Random(a.seed + 1923)
THOROUGH = a.tier == 'thorough' or a.search
REQ = ['SZ.Lib.Py', 'SZ.Lib.PyConfig', 'SZ.Gen.Config', 'SZ.Model.Config', 'SZ.Gen.Cli', 'SZ.Model.Cli']
PRE = '''Open Scope string_scope.
Definition enc_val (v : cli_val) : Z * Z * list Z * string :=
  match v with VNone => (0, 0, [], "") | VInt z => (1, z, [], "") | VBool b => (2, (if b then 1 else 0), [], "")
             | VInts l => (3, 0, l, "") | VStr s => (4, 0, [], s) end.
Definition enc_call (c : api_call) := (call_name c, map enc_val (call_pos c), map (fun kv => (fst kv, enc_val (snd kv))) (call_kw c)).
Definition enc_result (r : cli_result) :=
  match r with CliCalls x y => (0, [enc_call x; enc_call y]) | CliVersion => (1, []) | CliUsageError => (2, []) | CliTypeError => (3, []) end.
Definition enc_ty (t : cli_ty) : Z * Z :=
  match t with CInt => (0, 0) | CBool => (1, 0) | CIntTuple k => (2, Z.of_nat k) | CPath e => (3, if e then 1 else 0) end.
Definition enc_decl (d : cli_decl) :=
  match d with
  | DArgument decl ty rq => (0, decl, argument_name decl, enc_ty ty, enc_val (VBool rq))
  | DOption decl ty dflt => (1, decl, option_name decl, enc_ty ty, enc_val dflt)
  | DVersion => (2, "--version", "", (1, 0), enc_val VNone)
  end.
Definition mkopt (l : list (string * list string)) (flag : string) : option (list string) := assoc flag l.
Definition enc_oz (o : option Z) : Z * Z := match o with Some z => (1, z) | None => (0, 0) end.
Definition enc_ob (o : option bool) : Z := match o with Some true => 1 | Some false => 0 | None => 2 end.
'''
CMDS = {'sgy2sgz': 'cmd_sgy2sgz', 'zgy2sgz': 'cmd_zgy2sgz', 'sgz2sgy': 'cmd_sgz2sgy'}
MODEL = [not a.no_model]
if a.no_model:
    R.notes.append('oracle-only mode (--no-model): model evaluations and corr comparisons skipped')


def model_eval(terms):
    """values of the terms in the Coq model, or None in oracle-only mode (entered for good when an evaluation fails)"""
    if not MODEL[0] or not terms:
        return None if not MODEL[0] else []
    try:
        return coq_eval(REQ, terms, preamble=PRE)
    except CoqEvalError as e:
        MODEL[0] = False
        R.notes.append('oracle-only mode: the Coq model could not be evaluated (Gen/Cli.v or SZ.Model.Cli missing / not compiling?); '
                       'model evaluations and corr comparisons skipped: ' + str(e)[-400:].replace('\n', ' '))
        return None


def cq(s):
    assert '"' not in s and '\\' not in s and s.isascii() and s.isprintable(), s
    return f'"{s}"'


def unq(s):
    assert isinstance(s, str) and s.startswith('"') and s.endswith('"'), s
    return s[1:-1]


def dec_val(t):
    tag, z, l, s = t
    if tag == 0:
        return None
    if tag == 1:
        return z
    if tag == 2:
        return bool(z)
    if tag == 3:
        return tuple(l)
    return unq(s)


def dec_result(v):
    code, calls = v
    if code != 0:
        return {1: 'version', 2: 'usage', 3: 'typeerror'}[code]
    out = []
    for name, pos, kw in calls:
        out.append((unq(name), [dec_val(x) for x in pos], {unq(k): dec_val(x) for k, x in kw}))
    return out


def run_term(cmd, exists, args, opts):
    ex = '(fun s => mem s [' + '; '.join(cq(x) for x in exists) + '])'
    ol = '[' + '; '.join(f'({cq(f)}, [' + '; '.join(cq(t) for t in toks) + '])' for f, toks in opts.items()) + ']'
    return (f'enc_result (cli_run (click_std {ex}) {CMDS[cmd]} '
            f'{{| iv_args := [' + '; '.join(cq(x) for x in args) + f']; iv_opt := mkopt {ol} |}})')


def same_value(x, y):
    return type(x) is type(y) and x == y


def same_calls(m, got):
    if not isinstance(m, list) or len(m) != len(got):
        return False
    for (mn, mp, mk), (gn, gp, gk) in zip(m, got):
        if mn != gn or len(mp) != len(gp) or set(mk) != set(gk):
            return False
        if not all(same_value(x, y) for x, y in zip(mp, gp)) or not all(same_value(mk[k], gk[k]) for k in mk):
            return False
    return True


# ============================================================================================= A. static correspondence
def unset(x):
    return x is None or 'UNSET' in repr(x)


def describe_click(p):
    if isinstance(p, click.Argument):
        ty = p.type
        if not isinstance(ty, click.Path) or p.nargs != 1 or not p.expose_value or p.multiple or p.callback is not None \
                or p.envvar is not None or not unset(p.default):
            return ('unrecognised argument', repr(p.__dict__))
        return (0, p.opts[0] if len(p.opts) == 1 else repr(p.opts), p.name, (3, 1 if ty.exists else 0), bool(p.required))
    if isinstance(p, click.Option):
        if p.name == 'version' and p.is_flag and p.is_eager and not p.expose_value and p.opts == ['--version']:
            return (2, '--version', '', (1, 0), None)
        if p.is_flag or p.multiple or p.count or not p.expose_value or p.callback is not None or p.envvar is not None \
                or p.required or p.secondary_opts or p.is_eager or getattr(p, 'prompt', None) or len(p.opts) != 1:
            return ('unrecognised option', repr(p.__dict__))
        ty = p.type
        if isinstance(ty, click.types.IntParamType) and p.nargs == 1:
            t = (0, 0)
        elif isinstance(ty, click.types.BoolParamType) and p.nargs == 1:
            t = (1, 0)
        elif isinstance(ty, click.Tuple) and all(isinstance(x, click.types.IntParamType) for x in ty.types) and p.nargs == len(ty.types):
            t = (2, len(ty.types))
        else:
            return ('unrecognised option type', repr(ty))
        d = None if unset(p.default) else p.default
        return (1, p.opts[0], p.name, t, d)
    return ('unrecognised parameter', repr(p))


INT_OK = ['0', '-0', '4', '-2', '-4', '007', '-007', '32', '-1', '2147483648', '-99999999999999999999', '123456789012345678901234567890']
INT_BAD = ['', '-', 'abc', '4.0', '1e3', '0x10', '4-', '- 4', '--4', '4 4', '-+4', 'None', 'four']
INT_OUTSIDE = ['+4', ' 4', '4 ', '1_6', '  -2']              # Python int() accepts these; the model is silent (refuses)
BOOL_TOKENS = ['1', '0', 'yes', 'no', 'true', 'false', 'on', 'off', 't', 'f', 'y', 'n', '', 'TRUE', 'False', 'YES', 'On', 'oFF', 'T', 'N']
BOOL_BAD = ['maybe', '2', 'tru', 'yess', '-1', 'none', 'o', 'ff']
BOOL_OUTSIDE = [' yes', 'true ', ' ']                         # click strips white space; the model does not


def part_a():
    import inspect
    # oracle (no model): what click passes by keyword is exactly what each callback takes
    for c in sz_cli.commands:
        cmdobj = sz_cli.commands[c]
        sig = list(inspect.signature(cmdobj.callback).parameters)
        exposed = [p.name for p in cmdobj.params if p.expose_value]
        R.case(('A', 'signature', c))
        R.count('A/callback signatures')
        if sorted(sig) != sorted(exposed) or len(set(exposed)) != len(exposed):
            R.violation('oracle', {'command': c}, f'callback parameters {sig} but click passes {exposed}')
    if sorted(sz_cli.commands) != sorted(CMDS):
        R.violation('oracle', {'commands': sorted(sz_cli.commands)}, f'the commands of the group are not {sorted(CMDS)}')
    terms = [f'map enc_decl (cmd_params {CMDS[c]})' for c in CMDS] + ['cli_commands', 'forallb wired all_commands']
    ints = [int(x) for x in INT_OK] + [rng.randrange(-10 ** 12, 10 ** 12) for _ in range(20)]
    terms += [f'enc_oz (parse_int {cq(s)})' for s in INT_OK + INT_BAD + INT_OUTSIDE]
    terms += [f'show_int {zlit(z)}' for z in ints]
    terms += [f'enc_ob (parse_bool {cq(s)})' for s in BOOL_TOKENS + BOOL_BAD + BOOL_OUTSIDE]
    raw = model_eval(terms)
    if raw is None:
        return
    vals = [parse_value(v) for v in raw]
    k = 0
    real_names = list(sz_cli.commands)
    for c in CMDS:
        model = []
        for kind, decl, name, ty, dv in vals[k]:
            d = dec_val(dv)
            model.append((kind, unq(decl), unq(name), tuple(ty), d))
        k += 1
        real = [describe_click(p) for p in sz_cli.commands[c].params] if c in sz_cli.commands else None
        R.case(('A', 'params', c), sample={'command': c, 'model_params': [m[1] for m in model]})
        R.count('A/parameter-lists')
        if real is None or len(real) != len(model) or any(tuple(r) != m for r, m in zip(real, model)):
            R.violation('corr', {'command': c}, f'click parameters {real} but the model derives {model}')
    cmds = [unq(x) for x in vals[k]]
    k += 1
    if cmds != real_names:
        R.violation('corr', {'commands': real_names}, f'the model knows the commands {cmds}')
    if vals[k] is not True:
        R.violation('corr', {}, 'forallb wired all_commands is not true')
    k += 1
    for s in INT_OK + INT_BAD + INT_OUTSIDE:
        tag, z = vals[k]
        k += 1
        try:
            real = click.INT.convert(s, None, None)
        except click.BadParameter:
            real = None
        model = z if tag else None
        R.case(('A', 'int', s), nontrivial=True)
        R.count('A/int-tokens')
        if s in INT_OUTSIDE:
            R.count('A/int-tokens outside the modelled spellings')
            if model is not None:
                R.violation('corr', {'token': s}, f'parse_int accepts a spelling outside -?[0-9]+: {model}')
        elif model != real:
            R.violation('corr', {'token': s}, f'click.INT gives {real!r}, parse_int gives {model!r}')
    for z in ints:
        got = unq(vals[k])
        k += 1
        R.case(('A', 'show', z))
        if got != str(z):
            R.violation('corr', {'int': z}, f'show_int gives {got!r}, str() gives {str(z)!r}')
    for s in BOOL_TOKENS + BOOL_BAD + BOOL_OUTSIDE:
        code = vals[k]
        k += 1
        try:
            real = click.BOOL.convert(s, None, None)
        except click.BadParameter:
            real = None
        model = {1: True, 0: False, 2: None}[code]
        R.case(('A', 'bool', s))
        R.count('A/bool-tokens')
        if s in BOOL_OUTSIDE:
            if model is not None:
                R.violation('corr', {'token': s}, f'parse_bool accepts a token with white space: {model}')
        elif model is not real:
            R.violation('corr', {'token': s}, f'click.BOOL gives {real!r}, parse_bool gives {model!r}')


# ============================================================================================= B. recorded calls
calls = []


def recorder(name):
    class Rec:
        def __init__(self, *p, **k):
            calls.append((name, list(p), dict(k)))

        def __enter__(self):
            return self

        def __exit__(self, *x):
            return None

        def __getattr__(self, meth):
            if meth.startswith('__'):
                raise AttributeError(meth)
            return lambda *p, **k: calls.append((meth, list(p), dict(k)))
    Rec.__name__ = name
    return Rec


OPTS = {'sgy2sgz': [('--bits-per-voxel', 'int'), ('--blockshape', 'int3'), ('--reduce-iops', 'bool'), ('--min-il', 'int'),
                    ('--max-il', 'int'), ('--min-xl', 'int'), ('--max-xl', 'int')],
        'zgy2sgz': [('--bits-per-voxel', 'int')], 'sgz2sgy': []}


def int_token(bad_ok):
    r = rng.random()
    if bad_ok and r < 0.08:
        return rng.choice(INT_BAD)
    if r < 0.5:
        return str(rng.choice([0, 1, 2, 3, 4, 8, 16, 32, -1, -2, -4, -8, 5, 7, 64, 512, 1024]))
    if r < 0.6:
        return rng.choice(['007', '-0', '-002'])
    return str(rng.randrange(-3000, 3000))


def gen_invocation(cmd, d, inp, bad_ok=True):
    """-> argv (after the command name), positional tokens, {flag: tokens of the last occurrence}"""
    out = os.path.join(d, 'out.' + ('sgy' if cmd == 'sgz2sgy' else 'sgz'))
    r = rng.random()
    if not bad_ok or r < 0.86:
        pos = [inp, out]
    elif r < 0.90:
        pos = [os.path.join(d, 'missing.file'), out]
    elif r < 0.93:
        pos = [inp]
    elif r < 0.95:
        pos = []
    elif r < 0.97:
        pos = [inp, out, 'surplus']
    else:
        pos = [out, inp]                     # the output name first: it does not exist -> refused
    groups = []                              # each group is an indivisible run of tokens
    last = {}
    tail = None
    p_present = rng.choice([0.0, 0.3, 0.6, 1.0])
    for flag, kind in OPTS[cmd]:
        n = 0
        if rng.random() < p_present:
            n = 2 if rng.random() < 0.12 else 1
        for _ in range(n):
            if kind == 'int':
                toks = [int_token(bad_ok)]
            elif kind == 'bool':
                toks = [rng.choice(BOOL_TOKENS + (BOOL_BAD[:3] if bad_ok else []))]
            else:
                toks = [int_token(bad_ok) for _ in range(3)]
            groups.append([flag] + toks)
    if cmd != 'sgz2sgy' and bad_ok and rng.random() < 0.04 and cmd == 'sgy2sgz':
        tail = ['--blockshape', '4', '4']     # too few tokens: only at the very end (the tokeniser is not modelled)
    if bad_ok and tail is None and rng.random() < 0.05:      # (a parser error would precede the eager --version)
        groups.append(['--version'])
    # positional tokens keep their relative order; option groups go anywhere between / around them
    rng.shuffle(groups)
    seq = list(groups)
    at = sorted(rng.randrange(len(seq) + 1) for _ in pos)
    for k, (i, x) in enumerate(zip(at, pos)):
        seq.insert(i + k, [x])
    argv = [t for g in seq for t in g]
    for g in seq:
        if g[0].startswith('--'):
            last[g[0]] = g[1:]
    if tail:
        argv += tail
        last['--blockshape'] = tail[1:]
    return argv, pos, last


def part_b(d):
    inp = os.path.join(d, 'present.file')
    open(inp, 'wb').write(b'x')
    n = 2500 if THOROUGH else 260
    cases = []
    for i in range(n):
        cmd = rng.choice(['sgy2sgz'] * 6 + ['zgy2sgz'] * 2 + ['sgz2sgy'])
        argv, pos, last = gen_invocation(cmd, d, inp)
        cases.append((cmd, argv, pos, last))
    # fixed: nothing but the two files; everything given
    cases.append(('sgy2sgz', [inp, 'o.sgz'], [inp, 'o.sgz'], {}))
    cases.append(('sgy2sgz', [inp, 'o.sgz', '--min-il', '0', '--max-il', '0', '--min-xl', '0', '--max-xl', '0', '--bits-per-voxel', '-2',
                              '--blockshape', '-1', '16', '512', '--reduce-iops', 'TRUE'], [inp, 'o.sgz'],
                  {'--min-il': ['0'], '--max-il': ['0'], '--min-xl': ['0'], '--max-xl': ['0'], '--bits-per-voxel': ['-2'],
                   '--blockshape': ['-1', '16', '512'], '--reduce-iops': ['TRUE']}))
    terms = [run_term(cmd, [inp], pos, last) for cmd, argv, pos, last in cases] if MODEL[0] else []
    vals = model_eval(terms)
    if vals is None:
        vals = [None] * len(cases)
    saved = (szcli.SegyConverter, szcli.ZgyConverter, szcli.SgzConverter)
    szcli.SegyConverter, szcli.ZgyConverter, szcli.SgzConverter = (recorder(x) for x in ('SegyConverter', 'ZgyConverter', 'SgzConverter'))
    try:
        for (cmd, argv, pos, last), v in zip(cases, vals):
            model = dec_result(parse_value(v)) if v is not None else None
            del calls[:]
            res = quiet(CliRunner().invoke, sz_cli, [cmd] + argv)
            got = list(calls)
            if res.exit_code == 0 and got:
                real = got
            elif res.exit_code == 0:
                real = 'version'
            elif res.exit_code == 2 and isinstance(res.exception, SystemExit) and not got:
                real = 'usage'
            else:
                real = f'exit {res.exit_code}: {res.exception!r}, calls {got}'
            shape = (cmd, tuple(sorted(last)), tuple(tuple(x) for x in last.values()), len(pos), '--version' in last)
            R.case(('B',) + shape, nontrivial=bool(last) or real == 'usage',
                   sample={'argv': [cmd] + [os.path.basename(x) for x in argv], 'calls': str(real)[:300]})
            R.count(f'B/{cmd}/' + (real if isinstance(real, str) and real in ('version', 'usage') else 'calls' if isinstance(real, list) else 'other'))
            if v is not None:
                ok = same_calls(model, real) if isinstance(real, list) else model == real
                if not ok:
                    R.violation('corr', {'argv': [cmd] + argv}, f'click made {real}, the model says {model}')
            # oracle, without the model: what the documentation of the CLI says the command line means
            want = expected_outcome(cmd, pos, last, inp)
            ok = same_calls(want, real) if isinstance(want, list) else want == real
            if not ok:
                R.violation('oracle', {'argv': [cmd] + argv}, f'the CLI made {real}; this command line stands for {want}')
    finally:
        szcli.SegyConverter, szcli.ZgyConverter, szcli.SgzConverter = saved


def py_int(s):
    return int(s) if re.fullmatch(r'-?[0-9]+', s) else None


def py_bool(s):
    return {'1': True, 'yes': True, 'true': True, 'on': True, 't': True, 'y': True,
            '0': False, 'no': False, 'false': False, 'off': False, 'f': False, 'n': False, '': False}.get(s.lower())


def expected_outcome(cmd, pos, last, present):
    """the hand-written reading of a command line of part B (tokens as generated there): 'version' if --version occurs,
    'usage' (nothing called) for a missing / surplus / non-existing positional token or a token that is not an integer /
    boolean / triple, else the two API calls with every option value at its own keyword and the documented defaults"""
    if '--version' in last:
        return 'version'
    if len(pos) != 2 or pos[0] != present:
        return 'usage'
    for f, toks in last.items():
        if f == '--reduce-iops':
            if len(toks) != 1 or py_bool(toks[0]) is None:
                return 'usage'
        elif len(toks) != (3 if f == '--blockshape' else 1) or any(py_int(t) is None for t in toks):
            return 'usage'
    want = expected_calls(cmd, pos, last)
    return want if want is not None else 'unreadable'


def expected_calls(cmd, pos, last):
    """written from the documentation of the CLI only (help texts + README), for well-formed command lines; None otherwise"""
    if len(pos) != 2:
        return None
    g = lambda f: py_int(last[f][0]) if f in last else None
    if cmd == 'sgz2sgy':
        return [('SgzConverter', [pos[0]], {}), ('convert_to_segy', [pos[1]], {})]
    if any(py_int(t) is None for f in last if f not in ('--reduce-iops', '--version') for t in last[f]):
        return None
    bpv = g('--bits-per-voxel')
    run_kw = {'bits_per_voxel': 4 if bpv is None else bpv}
    if cmd == 'zgy2sgz':
        return [('ZgyConverter', [pos[0]], {}), ('run', [pos[1]], run_kw)]
    if '--blockshape' in last and len(last['--blockshape']) != 3:
        return None
    run_kw['blockshape'] = tuple(py_int(t) for t in last['--blockshape']) if '--blockshape' in last else None
    ri = py_bool(last['--reduce-iops'][0]) if '--reduce-iops' in last else False
    if ri is None:
        return None
    run_kw['reduce_iops'] = ri
    return [('SegyConverter', [pos[0]], {'min_il': g('--min-il'), 'max_il': g('--max-il'), 'min_xl': g('--min-xl'), 'max_xl': g('--max-xl')}),
            ('run', [pos[1]], run_kw)]


# ============================================================================================= C. end to end
API = {'SegyConverter': SegyConverter, 'SgzConverter': SgzConverter}
FAMILIES_3D = [  # (bits-per-voxel token or None, blockshape or None): every valid family, free parameters, defaults
    (None, None), ('4', None), ('4', (4, 4, -1)), ('4', (4, 4, 512)), ('2', (4, 4, 1024)), ('2', (64, 64, 4)), ('8', (4, 4, 256)),
    ('16', (4, 4, 128)), ('32', (4, 4, 64)), ('1', (4, 4, 2048)), ('1', (16, 16, 128)), ('-2', (4, 4, 4096)), ('-2', (8, 16, 512)),
    ('-2', (16, 16, 256)), ('-4', (4, 4, 8192)), ('-4', (32, 32, 128)), ('-4', None), ('-2', None), ('4', (8, 8, 128)),
    ('4', (4, 8, 256)), ('4', (4, 16, 128)), ('4', (16, 4, 128)), ('8', (16, 16, 16)), ('4', (-1, 16, 128)), ('4', (8, -1, 128)),
    ('-1', (4, 4, 256)), ('-1', (8, 8, 256)), ('2', (4, 4, -1)), ('16', None), ('1', None)]
REFUSED_3D = [('3', None), ('0', None), ('5', (4, 4, -1)), ('4', (3, 4, -1)), ('4', (-1, -1, 512)), ('4', (4, 4, 100)), ('-1', None),
              ('-3', None), ('64', None), ('4', (2, 4, -1)), ('-8', None)]
FAMILIES_2D = [(None, None), ('4', None), ('8', (1, 16, -1)), ('4', (1, 64, 128)), ('2', (1, 16, 1024)), ('1', (1, 256, -1)), ('16', (1, -1, 64)),
               ('-1', (1, 16, 512)), ('32', None)]
REFUSED_2D = [('-2', None), ('-4', (1, 16, -1)), ('4', (4, 4, -1)), ('3', None), ('4', (1, 16, 100))]
RI_TOKENS = [None, None, 'true', 'false', '1', '0', 'yes', 'False', 'on']


def window_choices(n_il, n_xl):
    full = (0, n_il, 0, n_xl)
    ws = [None, None, full, (0, min(3, n_il), 0, min(4, n_xl)), (1, n_il, 0, n_xl - 1), (0, n_il - 1, 1, n_xl),
          (n_il - 3, n_il, n_xl - 2, n_xl), (2, 5, 1, 4)]
    a_, c_ = rng.randrange(0, n_il - 2), rng.randrange(0, n_xl - 2)
    ws.append((a_, rng.randrange(a_ + 2, n_il + 1), c_, rng.randrange(c_ + 2, n_xl + 1)))
    return ws


def argv_of(sgy, out, bpv, bs, ri, win, partial):
    av = [sgy, out]
    grp = []
    if bpv is not None:
        grp.append(['--bits-per-voxel', bpv])
    if bs is not None:
        grp.append(['--blockshape'] + [str(x) for x in bs])
    if ri is not None:
        grp.append(['--reduce-iops', ri])
    if win is not None:
        for f, v, keep in zip(('--min-il', '--max-il', '--min-xl', '--max-xl'), win, partial):
            if keep:
                grp.append([f, str(v)])
    rng.shuffle(grp)
    k = rng.randrange(3)
    flat = [t for g in grp for t in g]
    return flat + av if k == 0 else av + flat if k == 1 else [sgy] + flat + [out]


def last_of(argv):
    flags = dict(OPTS['sgy2sgz'])
    last, pos, i = {}, [], 0
    while i < len(argv):
        if argv[i] in flags:
            n = 3 if flags[argv[i]] == 'int3' else 1
            last[argv[i]] = argv[i + 1:i + 1 + n]
            i += 1 + n
        else:
            pos.append(argv[i])
            i += 1
    return pos, last


def read_bytes(p):
    return open(p, 'rb').read() if os.path.exists(p) else None


def run_api_calls(model_calls, out_override):
    """execute the two calls the model names, generically, with the output path replaced"""
    (cn, cp, ck), (mn, mp, mk) = model_calls
    if cn not in API or len(mp) != 1:
        raise RuntimeError(f'the model names the unknown class / call shape {cn} {mn}{mp}')
    with quiet(API[cn], *cp, **ck) as conv:
        quiet(getattr(conv, mn), out_override, **mk)


def part_c(d):
    n3, n2 = (120, 30) if THOROUGH else (20, 7)
    plan = []
    fam3 = FAMILIES_3D[:]
    rng.shuffle(fam3)
    for i in range(n3):
        plan.append(('3d', fam3[i % len(fam3)], False))
    for i in range(5 if not THOROUGH else len(REFUSED_3D)):
        plan.append(('3d', REFUSED_3D[(i + a.seed) % len(REFUSED_3D)], True))
    fam2 = FAMILIES_2D[:]
    rng.shuffle(fam2)
    for i in range(n2):
        plan.append(('2d', fam2[i % len(fam2)], False))
    for i in range(2 if not THOROUGH else len(REFUSED_2D)):
        plan.append(('2d', REFUSED_2D[(i + a.seed) % len(REFUSED_2D)], True))
    sources = {}
    cases = []
    for k, (kind, (bpv, bs), refused) in enumerate(plan):
        if kind == '3d':
            key = ('3d', k % 3)
            if key not in sources:
                n_il, n_xl, ns = rng.randrange(6, 11), rng.randrange(5, 10), rng.randrange(20, 70)
                p = os.path.join(d, f'src3_{k % 3}.sgy')
                mk_segy(p, rnd_cube(rng, (n_il, n_xl, ns)), range(10, 10 + 2 * n_il, 2), range(300, 300 + n_xl),
                        fmt=(1 if k % 3 == 2 else 5), t0=(0 if k % 3 else 100))
                sources[key] = (p, n_il, n_xl)
            sgy, n_il, n_xl = sources[key]
            win = rng.choice(window_choices(n_il, n_xl))
            partial = (True,) * 4
            if win is not None and rng.random() < 0.2:
                partial = tuple(rng.random() < 0.6 for _ in range(4))
        else:
            key = ('2d', k % 2)
            if key not in sources:
                nt, ns = rng.randrange(9, 40), rng.randrange(20, 70)
                p = os.path.join(d, f'src2_{k % 2}.sgy')
                mk_segy_2d(p, rnd_cube(rng, (nt, ns)), fmt=(1 if k % 2 else 5))
                sources[key] = (p, nt, 0)
            sgy = sources[key][0]
            win, partial = None, (True,) * 4          # a window on an unstructured file is outside C11 (the API fails late there)
        ri = rng.choice(RI_TOKENS)
        out = os.path.join(d, f'cli_{k}.sgz')
        argv = argv_of(sgy, out, bpv, bs, ri, win, partial)
        cases.append({'k': k, 'kind': kind, 'sgy': sgy, 'out': out, 'argv': argv, 'bpv': bpv, 'bs': bs, 'ri': ri, 'win': win,
                      'partial': partial, 'expect_refusal': refused})
    terms = []
    for c in cases:
        pos, last = last_of(c['argv'])
        c['pos'], c['last'] = pos, last
        if not MODEL[0]:
            continue
        t = run_term('sgy2sgz', [c['sgy']], pos, last)
        terms.append(t)
        d2 = 'true' if c['kind'] == '2d' else 'false'
        terms.append(f'match the_calls (cli_run (click_std (fun _ => true)) cmd_sgy2sgz {{| iv_args := [{cq(pos[0])}; {cq(pos[1])}]; '
                     f'iv_opt := mkopt [' + '; '.join(f'({cq(f)}, [' + '; '.join(cq(x) for x in toks) + '])' for f, toks in last.items()) +
                     f'] |}}) with Some (_, run) => match cfg_of_call {d2} run with Some c => Some (resolve c) | None => None end | None => None end')
    vals = model_eval(terms)
    made_sgz = []
    for i, c in enumerate(cases):
        model = dec_result(parse_value(vals[2 * i])) if vals is not None else None
        res_txt = vals[2 * i + 1] if vals is not None else None
        inp = {'argv': ['sgy2sgz'] + [os.path.basename(x) if os.sep in x else x for x in c['argv']], 'kind': c['kind']}
        # ---- the CLI
        r = quiet(CliRunner().invoke, sz_cli, ['sgy2sgz'] + c['argv'])
        cli_bytes = read_bytes(c['out'])
        cli_exc = None if r.exit_code == 0 else (exc_class(r.exception) if not isinstance(r.exception, SystemExit) else 'Usage')
        # ---- oracle: the API call the property texts name, written here
        b = 4 if c['bpv'] is None else int(c['bpv'])
        ri = False if c['ri'] is None else py_bool(c['ri'])
        given = c['win'] is not None and all(c['partial'])
        kw = {}
        if c['win'] is not None:
            for nme, v, keep in zip(('min_il', 'max_il', 'min_xl', 'max_xl'), c['win'], c['partial']):
                if keep:
                    kw[nme] = v
        want = [('SegyConverter', [c['sgy']], {n_: kw.get(n_) for n_ in ('min_il', 'max_il', 'min_xl', 'max_xl')}),
                ('run', [c['out']], {'bits_per_voxel': b, 'blockshape': c['bs'], 'reduce_iops': ri})]
        api_out = os.path.join(d, f'api_{c["k"]}.sgz')
        api_exc = None
        try:
            write_segy_sgz(c['sgy'], api_out, bpv=b, blockshape=c['bs'], reduce_iops=ri,
                           window=c['win'] if given else None) if (given or not kw) else run_api_calls(want, api_out)
        except Exception as e:
            api_exc = exc_class(e)
        api_bytes = read_bytes(api_out)
        shape = ('C', c['kind'], c['bpv'], c['bs'], c['ri'], c['win'], c['partial'])
        R.case(shape, nontrivial=True, sample={'argv': inp['argv'], 'cli': cli_exc or f'{len(cli_bytes or b"")} bytes'})
        R.count(f'C/{c["kind"]}/' + ('refused' if cli_exc else 'written') + ('/window' if given else '/partial-window' if kw else ''))
        if (cli_exc is None) != (api_exc is None) or cli_exc != api_exc:
            R.violation('oracle', inp, f'CLI: {cli_exc or "file written"}; API call {want}: {api_exc or "file written"}')
        elif cli_exc is None and cli_bytes != api_bytes:
            R.violation('oracle', inp, f'the file written by the CLI differs from the file written by the API call {want} '
                                       f'({len(cli_bytes or b"")} vs {len(api_bytes or b"")} bytes)')
        if c['expect_refusal'] != (cli_exc is not None):
            R.violation('oracle', inp, f'setting expected to be {"refused" if c["expect_refusal"] else "accepted"}: CLI {cli_exc or "wrote a file"}')
        if cli_exc is not None and (os.path.exists(c['out']) or os.path.exists(api_out)) and \
                (c['expect_refusal'] or cli_exc == 'Usage'):
            R.violation('oracle', inp, 'a refused setting left an output file behind')
        # ---- corr: the calls the model names
        if vals is None:
            pass
        elif not isinstance(model, list):
            R.violation('corr', inp, f'the model says {model}; the CLI: {cli_exc or "file written"}')
        else:
            if not same_calls(model, want):
                m_out = os.path.join(d, f'model_{c["k"]}.sgz')
                m_exc = None
                try:
                    run_api_calls(model, m_out)
                except Exception as e:
                    m_exc = exc_class(e)
                if m_exc != cli_exc or (m_exc is None and read_bytes(m_out) != cli_bytes):
                    R.violation('corr', inp, f'the model names the calls {model}: they give {m_exc or "a different file"}, the CLI {cli_exc or "its file"}')
                else:
                    R.violation('corr', inp, f'the model names {model}, the property texts mean {want} (same file on this input)')
            # C19: accepted / refused / resolved exactly as the model resolves
            m = re.match(r'Some \(Return \(\{\| (?:QArith_base\.)?Qnum := (\d+); (?:QArith_base\.)?Qden := (\d+) \|\}, \((\d+), (\d+), (\d+)\)\)\)', res_txt)
            if m:
                if cli_exc is not None:
                    R.violation('corr', inp, f'the C19 model accepts the setting ({res_txt}); the CLI raised {cli_exc}')
                elif cli_bytes:
                    R.count('C/header rate and blockshape = the C19 model')
                    sf = SpecFile(c['out'])
                    from fractions import Fraction
                    if sf.rate != Fraction(int(m.group(1)), int(m.group(2))) or tuple(sf.bs) != tuple(int(re.sub(r'[^\d-]', '', m.group(j))) for j in (3, 4, 5)):
                        R.violation('corr', inp, f'file header: rate {sf.rate} blockshape {sf.bs}; the C19 model resolves {res_txt}')
            elif res_txt.startswith('Some (Raise'):
                cls = res_txt[len('Some (Raise '):-1]
                R.count('C/refusal class = the C19 model, no output left')
                if cli_exc != cls:
                    R.violation('corr', inp, f'the C19 model refuses with {cls}; the CLI: {cli_exc or "file written"}')
                if (os.path.exists(c['out']) or os.path.exists(api_out)) and not c['expect_refusal']:
                    R.violation('oracle', inp, 'a refused setting left an output file behind')
            else:
                R.violation('corr', inp, f'no configuration from the model: {res_txt}')
        if cli_exc is None and cli_bytes:
            made_sgz.append((c['kind'], c['out']))
        if os.path.exists(api_out):
            os.remove(api_out)
    # ---- sgz2sgy
    rng.shuffle(made_sgz)
    n3x, n2x = (9, 4) if THOROUGH else (4, 2)
    picks = [x for x in made_sgz if x[0] == '3d'][:n3x] + [x for x in made_sgz if x[0] == '2d'][:n2x]
    terms = [run_term('sgz2sgy', [sgz], [sgz, sgz[:-4] + '.cli.sgy'], {}) for _, sgz in picks] if MODEL[0] else []
    vals = model_eval(terms)
    if vals is None:
        vals = [None] * len(picks)
    for (kind, sgz), v in zip(picks, vals):
        model = dec_result(parse_value(v)) if v is not None else None
        o_cli, o_api = sgz[:-4] + '.cli.sgy', sgz[:-4] + '.api.sgy'
        inp = {'argv': ['sgz2sgy', os.path.basename(sgz), os.path.basename(o_cli)], 'kind': kind}
        r = quiet(CliRunner().invoke, sz_cli, ['sgz2sgy', sgz, o_cli])
        with SgzConverter(sgz) as conv:
            quiet(conv.convert_to_segy, o_api)
        R.case(('C', 'export', kind, os.path.basename(sgz)), sample={'argv': inp['argv'], 'exit': r.exit_code})
        R.count(f'C/export/{kind}')
        if r.exit_code != 0 or read_bytes(o_cli) != read_bytes(o_api) or not read_bytes(o_cli):
            R.violation('oracle', inp, f'sgz2sgy: exit {r.exit_code} {r.exception!r}; output differs from SgzConverter(input).convert_to_segy(output)')
        want = [('SgzConverter', [sgz], {}), ('convert_to_segy', [o_cli], {})]
        if v is None:
            pass
        elif not same_calls(model, want):
            R.violation('corr', inp, f'the model names {model}, expected {want}')
        else:
            o_m = sgz[:-4] + '.model.sgy'
            run_api_calls(model, o_m)
            if read_bytes(o_m) != read_bytes(o_cli):
                R.violation('corr', inp, 'the calls the model names write a different SEG-Y file than the CLI')
        for p in (o_cli, o_api, sgz[:-4] + '.model.sgy'):
            if os.path.exists(p):
                os.remove(p)


d = scratch_dir()
crash = None
try:
    part_a()
    part_b(d)
    part_c(d)
except BaseException as e:       # the result is written in every case; the crash is then re-raised
    import traceback
    crash = e
    R.notes.append('HARNESS CRASHED (results up to this point are reported): ' + traceback.format_exc()[-1500:])
finally:
    shutil.rmtree(d, ignore_errors=True)
R.notes.append('tokens outside -?[0-9]+ that Python int() accepts (leading +, white space, digit separators) and white space around '
               'booleans are outside the click model: the model refuses them, click accepts; checked only that the model is silent')
R.notes.append('zgy2sgz is exercised against recording converters only (ZGY cannot be read in this sandbox)')
R.notes.append('model evaluated: ' + ('yes' if MODEL[0] else 'NO (oracle-only mode)'))
R.write(a.out)
for v in R.violations:
    print(('KNOWN-FINDING ' if v.get('finding_key') else 'VIOLATION ') + json.dumps(v, default=str)[:1200])
if crash is not None:
    raise crash
