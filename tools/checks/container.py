#!/usr/bin/env python3
"""Harness for the container part of C03.

correspondence: the header fields the GENERATED writer model predicts (coq/Gen/Header.v mh_field_*, footer stride from
  footer_pad_*; evaluated inside Coq) vs the bytes of files written by the real converters.
direct oracle (decoder written from docs/file-specification.md only: hz.SpecFile): after every writer and every
  composition of writers the file (a) states the true dimensions / bit rate / blockshape / trace count, (b) has exactly
  the stated number of 4096-byte disk blocks = padded voxels x bits / 8, (c) has file length header + data + arrays x
  stride, (d) decodes, unit by unit at the specification's addresses, to the volume the library's reader returns, and
  (e) holds, at the footer offsets the specification derives, int32 arrays of the stated length whose values are those
  of the source trace headers (stored arrays identified through the reader's own table for the key names only).
"""
import os, sys
sys.path.insert(0, os.path.dirname(os.path.abspath(__file__)))
from common import *
a = parse_args()
from hz import *
from coqeval import coq_eval, parse_value

R = Result('one case = (writer or composition of writers, source shape incl. trace counts with 4n mod 512 in {0,4,508}, setting); non-trivial = '
           'distinct case whose writers all ran; every file is parsed with the specification decoder')
rng = random.Random(a.seed + 31)
thorough = a.tier == 'thorough' or a.search


def padto(n, m):
    return -(-n // m) * m


def check_file(p, inp, src=None, true_dims=None, headers_src=None):
    """oracle (a)-(e) on one SGZ file"""
    try:
        sp = SpecFile(p)
    except Exception as e:
        R.violation('oracle', inp, f'specification decoder cannot parse the file: {type(e).__name__}: {e}')
        return None
    size = os.path.getsize(p)
    if size != sp.expected_length():
        R.violation('oracle', inp, f'file length {size} != header {4096 * sp.nhb} + data {4096 * sp.ndb} + {sp.nha} arrays x stride {sp.stride} = {sp.expected_length()}')
    P = sp.shape_pad
    vox = (P[1] * P[2]) if sp.is2d else (P[0] * P[1] * P[2])
    if sp.ndb * 4096 * 8 != vox * sp.rate:
        R.violation('oracle', inp, f'stated disk blocks {sp.ndb} != padded voxels {vox} x rate {sp.rate} / 8 / 4096')
    if not sp.is2d and ((sp.bs[0] // 4) * (sp.bs[1] // 4) * (sp.bs[2] // 4) * sp.ub != 4096 or any(b % 4 for b in sp.bs)):
        R.violation('oracle', inp, f'one block is not 4096 bytes: blockshape {sp.bs} unit bytes {sp.ub}')
    if sp.hel != 4 * (sp.tracecount if sp.is2d else sp.n_il * sp.n_xl):
        R.violation('oracle', inp, f'header array length {sp.hel} != 4 bytes per grid trace')
    if true_dims is not None:
        got = (sp.n_il, sp.n_xl, sp.n_s) if not sp.is2d else (sp.tracecount, sp.n_s)
        if tuple(got) != tuple(true_dims):
            R.violation('oracle', inp, f'header dimensions {got} != true dimensions {true_dims}')
    try:
        with SgzReader(p) as r:
            if sp.is2d:
                vol = r.read_subplane(0, r.tracecount, 0, r.n_samples)
                ok = bits_equal(vol, sp.volume()[:r.tracecount, :r.n_samples])
            else:
                vol = r.read_volume()
                ok = bits_equal(vol, sp.volume()[:r.n_ilines, :r.n_xlines, :r.n_samples])
            if not ok:
                R.violation('oracle', inp, 'the volume decoded from the specification alone differs from the reader\'s volume')
            keys = list(r.stored_header_keys)
            vh = None
            if sp.nha and headers_src is not None:
                # stored arrays, in footer order: the table is consulted for the NAMES only
                r.read_variant_headers(include_padding=True)
                owners = [k for k in r.variant_headers if r.hw_info.table[k][1] == k] if hasattr(r, 'hw_info') else keys
                if len(owners) != sp.nha:
                    R.violation('oracle', inp, f'the table names {len(owners)} stored arrays, the header states {sp.nha}')
                for k_i, key in enumerate(owners[:sp.nha]):
                    arr = sp.footer_array(k_i)
                    want = headers_src(int(key))
                    if want is not None and not np.array_equal(arr, want):
                        R.violation('oracle', inp, f'footer array {k_i} (field {int(key)}) at the specification offset differs from the source headers')
                        break
    except Exception as e:
        R.violation('oracle', inp, f'reader failed on a written file: {type(e).__name__}: {e}')
    return sp


def main():
    d = scratch_dir()
    model_cases = []
    try:
        idx = 0
        configs = [(8, (4, 4, 256)), (4, (4, 4, -1)), (2, (4, 4, 1024)), (0.5, (4, 4, 4096)), (2, (64, 64, 4)), (2, (4, 8, 512)),
                   (4, (8, 8, 128)), (8, (16, 16, 16)), (0.25, (64, 64, 32)), (16, (8, 4, 64))]
        trace_shapes = [(8, 16), (3, 43), (15, 17), (5, 6), (2, 2), (9, 10), (16, 16), (4, 32), (7, 19)]
        n_cases = len(configs) if not thorough else 3 * len(configs)
        for ci in range(n_cases):
            bpv, bs = configs[ci % len(configs)]
            n_il, n_xl = trace_shapes[(ci * 2 + ci // len(configs)) % len(trace_shapes)]
            ns = rng.choice([5, 9, 17, 33])
            src = rnd_cube(rng, (n_il, n_xl, ns))
            idx += 1
            p = os.path.join(d, f'n{idx}.sgz')
            route = 'numpy' if ci % 2 == 0 else 'segy'
            inp = {'writer': route, 'shape': [n_il, n_xl, ns], 'bits_per_voxel': bpv, 'blockshape': list(bs)}
            il = list(range(3, 3 + 2 * n_il, 2)); xl = list(range(100, 100 + 3 * n_xl, 3))
            hsrc = None
            try:
                if route == 'numpy':
                    hdrs = {189: np.repeat(np.array(il, dtype=np.int32)[:, None], n_xl, 1), 193: np.repeat(np.array(xl, dtype=np.int32)[None, :], n_il, 0),
                            73: (np.arange(n_il * n_xl, dtype=np.int64).reshape(n_il, n_xl) * 7 - 50)}
                    given = dict(hdrs)
                    if ci % 4 == 0:
                        # a field ABOVE 193 supplied by the user while inline/crossline headers are left to the converter:
                        # the footer order must still be the ascending header-word order the table implies
                        hdrs[197] = (np.arange(n_il * n_xl, dtype=np.int32).reshape(n_il, n_xl) * 3 + 7000)
                        given = {73: hdrs[73], 197: hdrs[197]}
                        inp['numpy_headers'] = 'fields 73 and 197 given, 189/193 generated'
                    write_numpy_sgz(p, src, bpv=bpv, blockshape=bs, ilines=np.array(il), xlines=np.array(xl), trace_headers=given)
                    hsrc = lambda key, hdrs=hdrs: hdrs[key].astype(np.int32).reshape(-1) if key in hdrs else None
                    narr = 3
                else:
                    sgy = os.path.join(d, f'n{idx}.sgy')
                    mk_segy(sgy, src, il, xl)
                    mode = ['heuristic', 'thorough', 'exhaustive', 'strip'][ci % 4]
                    inp['header_detection'] = mode
                    write_segy_sgz(sgy, p, bpv=bpv, blockshape=bs, header_detection=mode)
                    with segyio.open(sgy) as f:
                        hsrc = lambda key, f_attr={int(k): f.attributes(int(k))[:].astype(np.int32) for k in segyio.tracefield.keys.values()}: f_attr.get(key)
                    narr = None
            except Exception as e:
                R.violation('oracle', inp, f'valid input: writer raised {type(e).__name__}: {e}')
                continue
            sp = check_file(p, inp, src, (n_il, n_xl, ns), hsrc)
            R.case(('conv', route, n_il, n_xl, ns, bpv) + tuple(bs), sample=inp)
            R.count('writer:' + route)
            if sp is not None:
                model_cases.append((inp, sp, n_il, n_xl, ns))
            # ---- compositions
            if sp is not None and bpv == 2 and tuple(sp.bs) == (4, 4, 1024):
                q = os.path.join(d, f'n{idx}_adv.sgz')
                inp2 = dict(inp, writer=route + ' -> re-block')
                try:
                    # what the converter object served before must not show in the file it writes: once on a fresh object,
                    # once after a query for the LAST stored field (it is then the first array in the object's memo)
                    for warm in (True, False):
                        with SgzConverter(p) as c:
                            if warm and len(c.stored_header_keys) >= 2:
                                c.get_tracefield_values(c.stored_header_keys[-1])
                                inp2 = dict(inp2, before='get_tracefield_values(last stored field) on the same converter')
                            else:
                                inp2 = {k_: v_ for k_, v_ in inp2.items() if k_ != 'before'}
                            quiet(c.convert_to_adv_sgz, q)
                        check_file(q, inp2, src, (n_il, n_xl, ns), hsrc)
                    R.case(('reblock', idx), sample=inp2)
                    R.count('writer:re-block')
                except Exception as e:
                    R.violation('oracle', inp2, f're-blocker raised {type(e).__name__}: {e}')
            if sp is not None and bpv == 2 and tuple(sp.bs) == (4, 4, 1024) and n_il >= 2:
                # length-3 compositions: convert -> crop -> re-block   and   convert -> re-block -> crop (whole inline blocks)
                q1 = os.path.join(d, f'n{idx}_c.sgz'); q2 = os.path.join(d, f'n{idx}_cr.sgz')
                inp4 = dict(inp, writer=route + ' -> crop -> re-block')
                try:
                    with SgzCropper(p) as c:
                        quiet(c.write_cropped_file_by_indexes, q1, iline_index_range=(1, n_il), xline_index_range=(0, n_xl), zslices_index_range=(0, ns))
                    with SgzConverter(q1) as c:
                        quiet(c.convert_to_adv_sgz, q2)
                    check_file(q2, inp4)
                    R.case(('crop-reblock', idx), sample=inp4)
                    R.count('writer:crop->re-block')
                except Exception as e:
                    R.violation('oracle', inp4, f'composition raised {type(e).__name__}: {e}')
                q3 = os.path.join(d, f'n{idx}_adv.sgz'); q4 = os.path.join(d, f'n{idx}_advc.sgz')
                inp5 = dict(inp, writer=route + ' -> re-block -> crop')
                try:
                    if os.path.exists(q3):
                        with SgzCropper(q3) as c:
                            quiet(c.write_cropped_file_by_indexes, q4, iline_index_range=(0, n_il), xline_index_range=(0, n_xl), zslices_index_range=(0, ns))
                        check_file(q4, inp5, src, (n_il, n_xl, ns), hsrc)
                        R.case(('reblock-crop', idx), sample=inp5)
                        R.count('writer:re-block->crop')
                except Exception as e:
                    R.violation('oracle', inp5, f'composition raised {type(e).__name__}: {e}')
            if sp is not None and tuple(sp.bs[:2]) == (4, 4) and n_il >= 5 and n_xl >= 6:
                q = os.path.join(d, f'n{idx}_crop.sgz')
                box = dict(iline_index_range=(4, min(n_il, 8)), xline_index_range=(0, 4 * (n_xl // 4) if n_xl >= 8 else n_xl), zslices_index_range=(0, ns))
                inp3 = dict(inp, writer=route + ' -> crop', box={k: list(v) for k, v in box.items()})
                try:
                    with SgzCropper(p) as c:
                        quiet(c.write_cropped_file_by_indexes, q, **box)
                    check_file(q, inp3)
                    R.case(('crop', idx), sample=inp3)
                    R.count('writer:crop')
                    # a crop whose stop lies strictly inside the last partial unit of an axis (the box is widened and CLIPPED)
                    if n_il % 4 != 1 and n_il >= 6:
                        qe = os.path.join(d, f'n{idx}_crope.sgz')
                        e_stop = 4 * ((n_il - 1) // 4) + 1
                        with SgzCropper(p) as c:
                            quiet(c.write_cropped_file_by_indexes, qe, iline_index_range=(4, e_stop), xline_index_range=(0, n_xl), zslices_index_range=(0, ns))
                        check_file(qe, dict(inp3, box=f'inlines 4..{e_stop} of {n_il}'), None, (n_il - 4, n_xl, ns))
                        R.case(('crope', idx))
                        R.count('writer:crop')
                    # whole-cube crop: same trace count as the source (hits 4n mod 512 = 0 when the source does)
                    q0 = os.path.join(d, f'n{idx}_crop0.sgz')
                    with SgzCropper(p) as c:
                        quiet(c.write_cropped_file_by_indexes, q0, iline_index_range=(0, n_il), xline_index_range=(0, n_xl), zslices_index_range=(0, ns))
                    check_file(q0, dict(inp3, box='whole cube'), src, (n_il, n_xl, ns), hsrc)
                    R.case(('crop0', idx))
                    R.count('writer:crop')
                except Exception as e:
                    R.notes.append(f'crop composition skipped ({type(e).__name__}: {str(e)[:80]})') if len(R.notes) < 5 else None
        # ---------------- NumPy conversions WITHOUT a header dict, one after the other: the header and the generated inline /
        # crossline arrays of each file are those of ITS OWN cube (explicit axes first, then the documented default axes 0,1,2,..)
        n_il, n_xl, ns = rng.choice([(5, 6, 9), (4, 7, 5)])
        for name, kw, w_il, w_xl in (('explicit axes', dict(ilines=np.arange(1000, 1000 + 2 * n_il, 2), xlines=np.arange(500, 500 + 3 * n_xl, 3)),
                                      list(range(1000, 1000 + 2 * n_il, 2)), list(range(500, 500 + 3 * n_xl, 3))),
                                     ('default axes', {}, list(range(n_il)), list(range(n_xl)))):
            idx += 1
            p = os.path.join(d, f'd{idx}.sgz')
            inp = {'writer': 'numpy, no header dict, ' + name, 'shape': [n_il, n_xl, ns]}
            try:
                src = rnd_cube(rng, (n_il, n_xl, ns))
                with NumpyConverter(src, **kw) as c:
                    quiet(c.run, p, bits_per_voxel=8)
            except Exception as e:
                R.violation('oracle', inp, f'valid input: writer raised {type(e).__name__}: {e}')
                continue
            hs = {189: np.repeat(np.array(w_il, dtype=np.int32)[:, None], n_xl, 1).reshape(-1), 193: np.repeat(np.array(w_xl, dtype=np.int32)[None, :], n_il, 0).reshape(-1)}
            check_file(p, inp, src, (n_il, n_xl, ns), lambda key, hs=hs: hs.get(key))
            with SgzReader(p) as r:
                if [int(v) for v in r.ilines] != w_il or [int(v) for v in r.xlines] != w_xl:
                    R.violation('oracle', inp, f'the header states axes {[int(v) for v in r.ilines][:3]}.. / {[int(v) for v in r.xlines][:3]}.., the cube has {w_il[:3]}.. / {w_xl[:3]}..')
            R.case(('numpy-defaults', name, n_il, n_xl, ns), sample=inp)
            R.count('writer:numpy (no header dict)')
        # ---------------- SEG-Y converted with an inline/crossline WINDOW: the container must be that of the sub-cube (header
        # arrays of 4 bytes per WINDOW trace).  Trace counts of source and window fall into different 512-byte strides.
        wcases = [((12, 12), (2, 10, 0, 8)), ((10, 6), (3, 10, 0, 6)), ((9, 15), (0, 9, 3, 12)), ((16, 16), (1, 9, 4, 16))]     # (the 2nd: an inline-only window, with reduce_iops)
        if thorough:
            wcases += [((11, 13), (3, 11, 0, 13)), ((20, 8), (4, 20, 0, 8)), ((8, 33), (0, 8, 1, 17)), ((17, 17), (0, 16, 0, 8))]
        for wi, ((n_il, n_xl), win) in enumerate(wcases):
            bpv, bs = [(8, (4, 4, 256)), (4, (8, 8, 128)), (2, (4, 4, 1024)), (16, (4, 4, -1))][wi % 4]
            ns = rng.choice([5, 9, 17])
            src = rnd_cube(rng, (n_il, n_xl, ns))
            idx += 1
            p = os.path.join(d, f'w{idx}.sgz'); sgy = os.path.join(d, f'w{idx}.sgy')
            il = list(range(3, 3 + 2 * n_il, 2)); xl = list(range(100, 100 + 3 * n_xl, 3))
            mode = ['heuristic', 'exhaustive', 'thorough', 'heuristic'][wi % 4]
            inp = {'writer': 'segy, window', 'shape': [n_il, n_xl, ns], 'window': list(win), 'bits_per_voxel': bpv, 'blockshape': list(bs),
                   'header_detection': mode, 'reduce_iops': bool(wi % 2)}
            try:
                mk_segy(sgy, src, il, xl)
                write_segy_sgz(sgy, p, bpv=bpv, blockshape=bs, header_detection=mode, window=win, reduce_iops=bool(wi % 2))
                with segyio.open(sgy) as f:
                    sel = np.array([i * n_xl + x for i in range(win[0], win[1]) for x in range(win[2], win[3])])
                    hsrc = lambda key, f_attr={int(k): f.attributes(int(k))[:].astype(np.int32)[sel] for k in segyio.tracefield.keys.values()}: f_attr.get(key)
            except Exception as e:
                R.violation('oracle', inp, f'valid input: windowed conversion raised {type(e).__name__}: {e}')
                continue
            check_file(p, inp, src[win[0]:win[1], win[2]:win[3]], (win[1] - win[0], win[3] - win[2], ns), hsrc)
            R.case(('conv-window', n_il, n_xl, ns, bpv) + tuple(win), sample=inp)
            R.count('writer:segy window')
        # ---------------- the cropper with a SAMPLE range strictly inside the sample axis (16 bit -> z-blocks of 128 samples), over
        # sources of every detection mode: with 'exhaustive' every field (the sample count 115 too) is a stored array, with
        # 'thorough' a field that varies (here also 115: a few traces state another count) is.  The cropped file must
        # conform like any other: table names == stated array count, file length, every array at its derived offset equal to
        # the source headers of the kept traces.
        zcases = [('exhaustive', (5, 6, 260), (0, 5), (0, 6), (128, 256), False), ('thorough', (8, 9, 300), (4, 8), (0, 8), (0, 128), True),
                  ('heuristic', (6, 5, 385), (0, 4), (0, 5), (256, 384), False)]
        if thorough:
            zcases += [('exhaustive', (9, 4, 300), (4, 9), (0, 4), (128, 300), True), ('thorough', (4, 4, 257), (0, 4), (0, 4), (128, 256), False),
                       ('heuristic', (5, 9, 260), (0, 5), (4, 8), (128, 256), True)]
        for zi, (mode, (n_il, n_xl, ns), ir, xr, zr, vary115) in enumerate(zcases):
            src = rnd_cube(rng, (n_il, n_xl, ns))
            idx += 1
            p = os.path.join(d, f'z{idx}.sgz'); sgy = os.path.join(d, f'z{idx}.sgy'); q = os.path.join(d, f'z{idx}_crop.sgz')
            il = list(range(3, 3 + 2 * n_il, 2)); xl = list(range(100, 100 + 3 * n_xl, 3))
            inp = {'writer': 'segy -> crop (sample range inside the sample axis)', 'shape': [n_il, n_xl, ns], 'bits_per_voxel': 16, 'header_detection': mode,
                   'box': {'iline_index_range': list(ir), 'xline_index_range': list(xr), 'zslices_index_range': list(zr)},
                   'TRACE_SAMPLE_COUNT (115)': 'differs in some traces' if vary115 else 'constant'}
            try:
                mk_segy(sgy, src, il, xl, hdr=(lambda t, i, x: {segyio.TraceField.TRACE_SAMPLE_COUNT: ns - (1 if (t % 3 == 1) else 0),
                                                                segyio.TraceField.SourceX: 40000 - 13 * t}) if vary115 else None)
                write_segy_sgz(sgy, p, bpv=16, blockshape=(4, 4, -1), header_detection=mode)
                with segyio.open(sgy) as f:
                    grids = {int(k): f.attributes(int(k))[:].astype(np.int32).reshape(n_il, n_xl) for k in segyio.tracefield.keys.values()}
                hsrc_all = lambda key, grids=grids: grids[key].reshape(-1) if key in grids else None
                hsrc_crop = lambda key, grids=grids: np.ascontiguousarray(grids[key][ir[0]:ir[1], xr[0]:xr[1]]).reshape(-1) if key in grids else None
            except Exception as e:
                R.violation('oracle', inp, f'valid input: conversion raised {type(e).__name__}: {e}')
                continue
            check_file(p, dict(inp, writer='segy'), src, (n_il, n_xl, ns), hsrc_all)
            try:
                with SgzCropper(p) as c:
                    quiet(c.write_cropped_file_by_indexes, q, iline_index_range=ir, xline_index_range=xr, zslices_index_range=zr)
            except Exception as e:
                R.violation('oracle', inp, f'valid crop (whole z-blocks, whole units): cropper raised {type(e).__name__}: {e}')
                continue
            spc = check_file(q, inp, None, (ir[1] - ir[0], xr[1] - xr[0], zr[1] - zr[0]), hsrc_crop)
            if spc is not None:
                try:
                    with SgzReader(p) as r0, SgzReader(q) as r1:
                        if not bits_equal(r1.read_volume(), r0.read_volume()[ir[0]:ir[1], xr[0]:xr[1], zr[0]:zr[1]]):
                            R.violation('oracle', inp, 'the cropped file does not decode to the box of the source file')
                except Exception as e:
                    R.violation('oracle', inp, f'reader failed on a cropped file: {type(e).__name__}: {e}')
            R.case(('crop-z', mode, n_il, n_xl, ns, vary115) + tuple(ir) + tuple(xr) + tuple(zr), sample=inp)
            R.count('writer:crop (sample range)')
        # ---------------- format versions on both sides of every gate (0.1.7: interval in microseconds; 0.2.2: padded footer +
        # trace count field), releases and development builds.  A file AS A LIBRARY OF VERSION v WROTE IT is built from a
        # current file by the specification alone (as_version below); the reader must report what was written, and whatever
        # the re-blocker and the cropper make of it must conform to the specification as of v (they keep the recorded version)
        def as_version(p_cur, q, v, dev):
            raw = open(p_cur, 'rb').read()
            u = lambda o: struct.unpack('<I', raw[o:o + 4])[0]
            nhb, ndb, hel, nha = u(0), u(56), u(60), u(64)
            hdr = bytearray(raw[:4096 * nhb])
            hdr[72:76] = struct.pack('<I', (v[0] * 1024 + v[1]) * 2048 + v[2] * 2 + (0 if dev else 1))
            foot = 4096 * (nhb + ndb)
            stride_cur = -(-hel // 512) * 512
            arrays = [raw[foot + k * stride_cur: foot + k * stride_cur + hel] for k in range(nha)]
            newer_footer = (v, 0 if dev else 1) > ((0, 2, 1), 1)
            if not newer_footer:
                hdr[68:72] = bytes(4)                                           # no trace-count field before 0.2.2
            if not (v, 0 if dev else 1) > ((0, 1, 6), 1):
                us = struct.unpack('<I', hdr[28:32])[0]
                assert us % 1000 == 0
                hdr[28:32] = struct.pack('<I', us // 1000)                      # milliseconds before 0.1.7
            with open(q, 'wb') as f:
                f.write(bytes(hdr) + raw[4096 * nhb: foot])
                for arr in arrays:
                    f.write(arr + (bytes(stride_cur - hel) if newer_footer else b''))
        vers = [((0, 1, 6), False), ((0, 1, 7), True), ((0, 1, 7), False), ((0, 2, 1), False), ((0, 2, 2), True), ((0, 2, 2), False)]
        for v, dev in (vers if thorough else vers[:5]):
            vname = '.'.join(map(str, v)) + ('.dev' if dev else '')
            n_il, n_xl, ns = rng.choice([(5, 5, 9), (6, 7, 12), (3, 9, 5)])            # header arrays of 100 / 168 / 108 bytes: not a multiple of 512
            src = rnd_cube(rng, (n_il, n_xl, ns))
            dt = 4.0 if (v, 0 if dev else 1) <= ((0, 1, 6), 1) else 2.5                # 2500 us: not a whole number of ms
            samples = 100.0 + dt * np.arange(ns)
            idx += 1
            p0 = os.path.join(d, f'v{idx}_cur.sgz'); p = os.path.join(d, f'v{idx}.sgz')
            il = list(range(3, 3 + 2 * n_il, 2)); xl = list(range(100, 100 + 3 * n_xl, 3))
            hdrs = {189: np.repeat(np.array(il, dtype=np.int32)[:, None], n_xl, 1), 193: np.repeat(np.array(xl, dtype=np.int32)[None, :], n_il, 0),
                    73: (np.arange(n_il * n_xl, dtype=np.int32).reshape(n_il, n_xl) * 7 - 50)}
            inp = {'writer': 'file as written by library version ' + vname, 'shape': [n_il, n_xl, ns], 'bits_per_voxel': 2, 'samples': f'start 100 ms, interval {dt} ms'}
            write_numpy_sgz(p0, src, bpv=2, blockshape=(4, 4, -1), ilines=np.array(il), xlines=np.array(xl), samples=samples, trace_headers=dict(hdrs))
            as_version(p0, p, v, dev)
            hsrc = lambda key, hdrs=hdrs: hdrs[key].astype(np.int32).reshape(-1) if key in hdrs else None
            R.case(('version', vname), sample=inp)
            R.count('file of version ' + vname)
            outs = [(p, inp)]
            for name, fn in (('re-block', lambda c_, q_: c_.convert_to_adv_sgz(q_)),):
                q_ = os.path.join(d, f'v{idx}_adv.sgz')
                try:
                    with SgzConverter(p) as c_:
                        quiet(fn, c_, q_)
                    outs.append((q_, dict(inp, writer=inp['writer'] + ' -> ' + name)))
                except Exception as e:
                    R.violation('oracle', dict(inp, writer=inp['writer'] + ' -> ' + name), f'{name} raised {type(e).__name__}: {e}')
            q_ = os.path.join(d, f'v{idx}_crop.sgz')
            try:
                with SgzCropper(p) as c_:
                    quiet(c_.write_cropped_file_by_indexes, q_, iline_index_range=(0, n_il), xline_index_range=(0, n_xl), zslices_index_range=(0, ns))
                outs.append((q_, dict(inp, writer=inp['writer'] + ' -> crop (whole cube)')))
            except Exception as e:
                R.violation('oracle', dict(inp, writer=inp['writer'] + ' -> crop'), f'cropper raised {type(e).__name__}: {e}')
            for q_, inp_ in outs:
                check_file(q_, inp_, src, (n_il, n_xl, ns), hsrc)
                try:
                    with SgzReader(q_) as r:
                        zs = np.asarray(r.zslices, dtype=np.float64)
                    if zs.shape != samples.shape or not np.allclose(zs, samples, rtol=0, atol=1e-9):
                        R.violation('oracle', inp_, f'the reader reports the sample axis {zs[:3].tolist()}.., the file was written with {samples[:3].tolist()}..')
                except Exception as e:
                    R.violation('oracle', inp_, f'reader failed on a file of version {vname}: {type(e).__name__}: {e}')
        # 2D
        for k in range(2 if not thorough else 8):
            nt, ns = rng.choice([5, 17, 21, 33]), rng.choice([9, 40])
            src = rnd_cube(rng, (nt, ns))
            idx += 1
            sgy = os.path.join(d, f't{idx}.sgy'); p = os.path.join(d, f't{idx}.sgz')
            # every other line carries distinct OFFSET values per trace (segyio then counts n offsets on 1 inline x 1 crossline)
            mk_segy_2d(sgy, src, hdr=(lambda t: {segyio.TraceField.offset: 50 + 25 * t}) if k % 2 == 1 else None)
            bs = rng.choice([(1, 16, -1), (1, 4, -1), (1, 64, 64)])
            bpv = 8 if bs != (1, 64, 64) else 8
            inp = {'writer': 'segy-2d' + (', distinct offsets' if k % 2 == 1 else ''), 'shape': [nt, ns], 'blockshape': list(bs), 'bits_per_voxel': bpv}
            try:
                write_segy_sgz(sgy, p, bpv=bpv, blockshape=bs)
                check_file(p, inp, src, (nt, ns))
                R.case(('2d', nt, ns) + bs, sample=inp)
                R.count('writer:segy-2d')
            except Exception as e:
                R.violation('oracle', inp, f'valid 2D input: writer raised {type(e).__name__}: {e}')
        # ---------------- correspondence of the generated header model
        if not a.no_model and model_cases:
            terms = []
            for inp, sp, n_il, n_xl, ns in model_cases:
                from fractions import Fraction
                rt = Fraction(inp['bits_per_voxel']).limit_denominator(8)
                args = f'{rt.numerator} {rt.denominator} {ns} {n_il} {n_xl} 0 {n_il * n_xl} {sp.bs[0]} {sp.bs[1]} {sp.bs[2]} {sp.nha} {sp.ver} false false'
                terms.append('[' + '; '.join(f'mh_field_{o} {args}' for o in (0, 4, 8, 12, 40, 44, 48, 52, 56, 60, 64, 68, 72)) + f'; footer_stride_written {sp.hel}]')
            try:
                vals = coq_eval(['SZ.Gen.Header', 'SZ.Model.HeaderW'], terms)
            except Exception as e:
                R.violation('corr', {}, 'the generated header model does not evaluate: ' + str(e)[-400:])
                vals = []
            for (inp, sp, n_il, n_xl, ns), v in zip(model_cases, vals):
                m = parse_value(v)
                b = sp.raw
                u = lambda o: struct.unpack('<I', b[o:o + 4])[0]
                s = lambda o: struct.unpack('<i', b[o:o + 4])[0]
                got = [u(0), u(4), u(8), u(12), s(40), u(44), u(48), u(52), u(56), u(60), u(64), u(68), u(72), sp.stride]
                if m != got:
                    R.violation('corr', inp, f'generated header model {m} != bytes of the written file {got}')
                R.count('header_model_compared')
    finally:
        shutil.rmtree(d, ignore_errors=True)
    R.write(a.out)


main()
