#!/usr/bin/env python3
"""Harness for the version part of C03: correspondence of the generated codec and the string-parser hand model
with seismic_zfp.version.SeismicZfpVersion; direct oracle: bijection and order on sampled + boundary versions."""
import os, sys
sys.path.insert(0, os.path.dirname(os.path.abspath(__file__)))
from common import *
a = parse_args()
from hz import *
from modelclient import Model
from seismic_zfp.version import SeismicZfpVersion as V

R = Result('one case = a version tuple, an encoded integer, a pair around a gate, or a version string; non-trivial = distinct '
           'case with major/minor/patch not all zero; boundary values 0, 1, 1022, 1023 per component, both dev flags, plus seeded random')
rng = random.Random(a.seed + 101)
model = None if a.no_model else Model()
comps = [0, 1, 2, 6, 7, 9, 511, 1022, 1023]
tuples = [(M, m, p, d) for M in (0, 1, 3, 4, 17) for m in comps for p in comps for d in (False, True)]
tuples += [(rng.randrange(0, 50), rng.randrange(1024), rng.randrange(1024), rng.random() < 0.5) for _ in range(2000 if a.tier == 'quick' else 20000)]
prev = None
for t in tuples:
    v = V(t[:3] + (('.dev',) if t[3] else ()))
    e = v.encoding
    # oracle: round trip through the integer constructor, and order
    w = V(e)
    if (w.major, w.minor, w.patch, w.changes_exist) != t:
        R.violation('oracle', {'version': t}, f'decode(encode) = {(w.major, w.minor, w.patch, w.changes_exist)}')
    if model:
        m1 = model.call('ver_enc', None, [t[0], t[1], t[2], t[3]])['ints'][0]
        m2 = model.call('ver_dec', None, [e])['ints']
        if m1 != e or m2 != [t[0], t[1], t[2], 1 if t[3] else 0]:
            R.violation('corr', {'version': t}, f'model enc {m1} dec {m2}, implementation enc {e}')
    R.case(('t',) + t, nontrivial=any(t[:3]), sample={'version': list(t), 'encoding': e})
    R.count('tuple')
# order: sort by release order and check encodings are strictly increasing
key = lambda t: (t[0], t[1], t[2], 0 if t[3] else 1)
st = sorted(set(tuples), key=key)
for x, y in zip(st, st[1:]):
    ex, ey = V(x[:3] + (('.dev',) if x[3] else ())), V(y[:3] + (('.dev',) if y[3] else ()))
    R.case(('o',) + x + y)
    if not (ey > ex) or (ex > ey) or (ex == ey):
        R.violation('oracle', {'a': x, 'b': y}, 'release order not preserved by the encoding')
R.count('ordered_pairs', len(st) - 1)
# gates
for g in ((0, 2, 1), (0, 1, 6)):
    for t in [(g[0], g[1], g[2], True), (g[0], g[1], g[2], False), (g[0], g[1], g[2] + 1, True), (g[0], g[1], g[2] + 1, False),
              (g[0], g[1], g[2] - 1, False), (g[0], g[1] + 1, 0, True), (g[0], g[1] - 1, 1023, False)]:
        v = V(t[:3] + (('.dev',) if t[3] else ()))
        want = key(t) > key(g + (False,))
        got = v > V('.'.join(map(str, g)))
        R.case(('g',) + g + t)
        R.count('gate')
        if want != got:
            R.violation('oracle', {'gate': g, 'version': t}, f'gate says {got}, release order says {want}')
# strings
strings = ['0.2.9', '0.2.1', '0.1.6', '0.1.7', '1.0.0', '0.2.5.dev3+g45bcf96', '0.2.5.dev3+g45bcf96.d20240101', '0.1.7rc2',
           '0.2.10', '10.20.30', '0.2.4.post1', '0.2.4.dev0']
bad_strings = ['0.1.dev1+g45bcf9689', '0.2.4+d20240101', '0.2', '0.2.x']
known_d19 = False
for s in strings + bad_strings:
    try:
        v = V(s)
        got = [v.major, v.minor, v.patch, 1 if v.changes_exist else 0]
    except Exception as e:
        got = exc_class(e)
    R.case(('s', s), sample={'string': s, 'parsed': got})
    R.count('string')
    if model:
        mo = model.call('ver_parse', None, [])
        mo = parse = model.ask(f'ver_parse A {s}')
        exp = ('OK V ' + ' '.join(map(str, got))) if isinstance(got, list) else f'ERR {got}'
        if parse.strip() != exp:
            R.violation('corr', {'string': s}, f'model {parse!r} implementation {exp!r}')
    if s in bad_strings[:2] and not isinstance(got, list):
        known_d19 = True
if known_d19:
    R.known.append('D19-version-string-without-patch')
if model:
    model.close()
R.write(a.out)
