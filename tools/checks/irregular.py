#!/usr/bin/env python3
"""Harness for C08 (irregular 3D surveys).

Per generated irregular SEG-Y (segyio, hz.mk_segy with a `present` mask) converted with the real SegyConverter:
  CLASSIFICATION: D27 guard = the real segyio reports the file unstructured (else the converter does not take the irregular
    route: known finding D27, the harness confirms it still reproduces and checks only the model of the route); D20 guard = no
    source trace has inline number 0 (else trace/header identity fails: known finding D20, everything else still checked).
  ORACLE (segyio / numpy / zfpy only, never the Coq model):
    * reported ilines / xlines / tracecount / structured / n_ilines / n_xlines
    * every volume-style read (volume, every inline, crossline, z-slice, sub-volumes, every correlated and anticorrelated
      diagonal) bitwise = the ZFP fixed-rate image (whole-array zfpy compress/decompress at the file's rate) of the
      zero-filled grid zero-extended to the padded shape, restricted to the request
    * get_tracefield_values(f) = the grid of the source values with zeros at holes, for each of the 89 fields (fields kept
      as constants need the D20 guard; under heuristic detection only the fields that mode represents faithfully)
    * get_trace(i) bitwise = that image at the grid position of source trace i; gen_trace_header(i) = source header i
      (all 89 fields)                       -- guarded by D20 (no inline number 0 in the source)
  CORRESPONDENCE (the Coq model Model/Irregular.v evaluated by coqc on the same survey, against the REAL objects):
    * ev_route     vs the route the real SegyConverter takes and the geometry the real segyio infers
    * ev_geometry  vs utils.InferredGeometry3d(traces_ref) built as conversion.infer_geometry does, and vs bytes 8..40, 60, 68
    * ev_axes      vs SgzReader.ilines / xlines
    * ev_footer    vs the raw footer arrays of the file (inline-number array and one other stored field)
    * ev_mask_map  vs np.arange(N)[reader.mask != 0] after get_unstructured_mask(), and the exception class of
                   get_trace(-1) / get_trace(n)
    * ev_headers   vs gen_trace_header(i)[field] (value or exception class) for i in [0, n]
    * ev_plane     vs the plane-set buffers filled by the real conversion_utils.unstructured_io_thread_func
  Fresh readers are used for gen_trace_header and for get_tracefield_values (D18, sticky include_padding, is C15's)."""
import os, sys, json
sys.path.insert(0, os.path.dirname(os.path.abspath(__file__)))
from common import *
a = parse_args()
from hz import *
from coqeval import coq_eval, parse_value, zlit, zlist, CoqEvalError
from seismic_zfp import conversion_utils as cu
from seismic_zfp.utils import InferredGeometry3d, Geometry2d, Geometry3d

D20 = 'D20-inline-zero-masked'
D27 = 'D27-irregular-taken-as-regular'
R = Result('one case = one irregular SEG-Y (grid n_il x n_xl in 2..9, hole pattern, inline/crossline start and increment, '
           'trace length, rate, blockshape, header-detection mode, header content) x the reads listed in the docstring; '
           'non-trivial = distinct canonical case with at least one hole, at least 2 lines per axis and every line carried; '
           'patterns: each corner, several corners, whole row but one, whole column but one, both checkerboards, interior '
           'hole, random densities; starts negative/zero-crossing/positive, increments 1..7 with il step != xl step mostly')
rng = random.Random(a.seed * 1009 + 8)
d = scratch_dir()
FIELDS4 = [1, 9, 21, 73, 81, 181, 185]          # 4-byte trace header fields given arbitrary content
ALL_FIELDS = [int(f) for f in segyio.TraceField.enums()[0:89]]


# ------------------------------------------------------------------------------------------------ case generation
def patterns(n_il, n_xl, rng):
    full = np.ones((n_il, n_xl), bool)
    out = []
    for name, (i, x) in (('corner00', (0, 0)), ('corner0n', (0, n_xl - 1)), ('cornern0', (n_il - 1, 0)),
                         ('cornernn', (n_il - 1, n_xl - 1))):
        p = full.copy(); p[i, x] = False
        out.append((name, p))
    p = full.copy(); p[0, 0] = p[0, -1] = p[-1, 0] = p[-1, -1] = False
    if n_il > 2 or n_xl > 2:
        out.append(('corners4', p))
    for r in sorted({0, n_il // 2, n_il - 1}):
        p = full.copy(); p[r, :] = False; p[r, rng.randrange(n_xl)] = True
        out.append((f'row{r}_but_one', p))
    for c in sorted({0, n_xl - 1}):
        p = full.copy(); p[:, c] = False; p[rng.randrange(n_il), c] = True
        out.append((f'col{c}_but_one', p))
    for par in (0, 1):
        p = np.fromfunction(lambda i, x: (i + x) % 2 == par, (n_il, n_xl))
        out.append((f'checker{par}', p))
    if n_il > 2 and n_xl > 2:
        p = full.copy(); p[rng.randrange(1, n_il - 1), rng.randrange(1, n_xl - 1)] = False
        out.append(('interior', p))
    for dens in (0.3, 0.6, 0.85):
        p = np.array([[rng.random() < dens for _ in range(n_xl)] for _ in range(n_il)])
        out.append((f'random{dens}', p))
    good = []
    for name, p in out:
        p = p.copy()
        for i in range(n_il):           # repair: every inline and crossline carries a trace
            if not p[i].any():
                p[i, rng.randrange(n_xl)] = True
        for x in range(n_xl):
            if not p[:, x].any():
                p[rng.randrange(n_il), x] = True
        if p.all():
            p[rng.randrange(n_il), rng.randrange(n_xl)] = False
            for i in range(n_il):
                if not p[i].any():
                    p[i, (np.argmin(p[i]) + 1) % n_xl] = True
        if p.all() or not all(p[i].any() for i in range(n_il)) or not all(p[:, x].any() for x in range(n_xl)):
            continue
        good.append((name, p))
    return good


def axis_params(rng, n, other_step=None, zero_prob=0.1):
    """(start, step) of an axis; with probability zero_prob the axis contains line number 0"""
    step = rng.choice([1, 2, 3, 4, 5, 7])
    if other_step is not None and step == other_step and rng.random() < 0.85:
        step = step % 7 + 1
    if rng.random() < zero_prob:
        return -step * rng.randrange(0, n), step              # 0 is one of the lines (first, inner or last)
    kind = rng.choice(['neg', 'neg', 'cross', 'cross', 'pos', 'pos', 'pos', 'big'])
    if kind == 'cross' and step == 1:
        kind = 'neg'
    if kind == 'neg':
        start = -rng.randrange(n * step + 1, n * step + 50)
    elif kind == 'cross':
        start = -step * rng.randrange(1, n) + rng.randrange(1, step)      # changes sign, never hits 0
    elif kind == 'pos':
        start = rng.randrange(1, 300)
    else:
        start = rng.randrange(10 ** 4, 10 ** 6)
    return start, step


LAYOUTS = [(16, None), (8, None), (16, (4, 4, -1)), (8, (8, 4, -1)), (16, (4, 8, -1)), (8, (8, 8, -1)), (4, None), (16, (16, 4, -1))]
MODES = ['heuristic', 'thorough', 'exhaustive']


def gen_cases(rng, tier, search):
    cases = []
    sizes = [(2, 2), (2, 3), (3, 2), (3, 3), (2, 9), (9, 2), (4, 4), (4, 5), (5, 4), (5, 5), (5, 8), (8, 5), (7, 9), (9, 7),
             (8, 8), (9, 9), (6, 3), (3, 6)]
    if tier == 'quick' and not search:
        per_size = 8
    else:
        per_size = 10 ** 6
    k = 0
    for (n_il, n_xl) in sizes:
        pats = patterns(n_il, n_xl, rng)
        if per_size > 100:
            for _ in range(3):          # thorough / search: more random hole sets per size
                pats += [q for q in patterns(n_il, n_xl, rng) if q[0].startswith('random')]
        if len(pats) > per_size:
            # rotate through the pattern kinds so that every kind appears over the sizes
            pats = [pats[(k + j * 5) % len(pats)] for j in range(per_size)]
        for name, p in pats:
            il0, ils = axis_params(rng, n_il)
            xl0, xls = axis_params(rng, n_xl, ils, zero_prob=0.25)
            bpv, bs = LAYOUTS[k % len(LAYOUTS)] if k % 3 else LAYOUTS[0]
            cases.append(dict(n_il=n_il, n_xl=n_xl, pattern=name, present=[''.join('1' if v else '0' for v in row) for row in p],
                              il0=il0, ils=ils, xl0=xl0, xls=xls, ns=rng.choice([2, 3, 4, 5, 7, 8, 9, 13]), bpv=bpv, bs=bs,
                              mode=MODES[k % 3], hseed=rng.randrange(10 ** 6)))
            k += 1
    # the recorded D20 witness (Props/C08.v C08_mask_refuted) and a zero-crossing inline axis with a full middle
    cases.append(dict(n_il=2, n_xl=2, pattern='d20_witness', present=['10', '11'], il0=0, ils=1, xl0=1, xls=1, ns=5, bpv=16,
                      bs=None, mode='heuristic', hseed=1))
    cases.append(dict(n_il=5, n_xl=6, pattern='d20_zero_inside', present=['011111', '111111', '111011', '111111', '111110'],
                      il0=-6, ils=3, xl0=-100, xls=2, ns=9, bpv=16, bs=None, mode='thorough', hseed=2))
    cases += rerun_cases(rng)
    return cases


# the SAME converter object run twice: key 'first' = (bits per voxel, blockshape) of an earlier run() of the converter that
# then writes the file under test with (bpv, bs).  The file must be what a fresh converter writes: the whole oracle (and the
# correspondence) of run_case applies to it unchanged.  More than 8 inlines, so that the two block shapes (first dimension
# 4 / 8 / 16) cut the inline axis into different plane sets.
RERUNS = [((9, 4), (16, (4, 4, -1)), (8, (8, 4, -1))), ((12, 3), (8, None), (16, (16, 4, -1))),
          ((10, 5), (16, (4, 8, -1)), (8, (8, 8, -1))), ((17, 3), (8, (8, 4, -1)), (16, (16, 4, -1))),
          ((13, 2), (4, None), (4, (16, 16, -1)))]


def rerun_cases(rng):
    out = []
    for k, ((n_il, n_xl), first, (bpv, bs)) in enumerate(RERUNS):
        pats = patterns(n_il, n_xl, rng)
        for name, p in (pats[rng.randrange(len(pats))], [q for q in pats if q[0].startswith('random')][-1]):
            il0, ils = axis_params(rng, n_il, zero_prob=0)
            xl0, xls = axis_params(rng, n_xl, ils, zero_prob=0.25)
            out.append(dict(n_il=n_il, n_xl=n_xl, pattern=name, present=[''.join('1' if v else '0' for v in row) for row in p],
                            il0=il0, ils=ils, xl0=xl0, xls=xls, ns=rng.choice([2, 3, 5, 8, 9]), bpv=bpv, bs=bs,
                            mode=MODES[k % 3], hseed=rng.randrange(10 ** 6), first=[first[0], first[1]]))
    return out


# ------------------------------------------------------------------------------------------------ one case
def canon(c):
    return json.dumps({k: c[k] for k in sorted(c)}, sort_keys=True)


def model_outcome(v):
    """printed coq value of an `outcome X` -> ('val', x) | ('err', name)"""
    v = v.replace('Py.', '').strip()
    if v.startswith('Raise'):
        return ('err', v.split()[1])
    if v.startswith('Return'):
        return ('val', parse_value(v[len('Return'):].strip()))
    raise ValueError('not an outcome: ' + v[:80])


TERMS = []      # (term, callback(parsed outcome))
N_ORACLE = [0]
LISTED = set()


def want(term, cb, raw=False):
    TERMS.append((term, cb, raw))


EMULATOR_BLOB = [None]      # can seismic_zfp.open() take a blob client at all?  (decided on the first file; if not: skipped)


def remote_headers(sgz, n, src_hd, faithful, bad):
    """header i of a REMOTE reader (the file served by a blob client: hz.CountingBlob) is source header i, for every trace
    ordinal, in file order and for single headers asked of fresh readers (no header array loaded by an earlier call)"""
    def diff(got, t):
        got = {int(k): int(v) for k, v in got.items()}
        return [(f, got.get(f), src_hd[t][f]) for f in ALL_FIELDS if f in faithful and got.get(f) != src_hd[t][f]]
    try:
        with SgzReader(CountingBlob(sgz)) as rb:
            if rb.local:
                bad('oracle', 'remote reader', 'a reader opened on a blob client reports local = True')
            for t in range(n):
                dd = diff(rb.gen_trace_header(t), t)
                if dd:
                    bad('oracle', f'remote gen_trace_header({t})', f'reader on a blob client: gen_trace_header({t}) differs from source '
                        f'header {t} (field, got, source): {dd[:4]}')
                    break
        for t in sorted({n - 1, n // 2}):
            with SgzReader(CountingBlob(sgz)) as rb:
                dd = diff(rb.gen_trace_header(t), t)
                if dd:
                    bad('oracle', f'remote gen_trace_header({t}) first call', f'fresh reader on a blob client: gen_trace_header({t}) differs '
                        f'from source header {t} (field, got, source): {dd[:4]}')
                    break
        R.count('remote_header_reads', n + 2)
    except Exception as e:
        bad('oracle', 'remote gen_trace_header', f'reader on a blob client raised {type(e).__name__}: {str(e)[:160]}')
    if EMULATOR_BLOB[0] is not False:
        try:
            f = seismic_zfp.open(CountingBlob(sgz))
        except Exception as e:
            if EMULATOR_BLOB[0] is None:
                EMULATOR_BLOB[0] = False
                R.notes.append('seismic_zfp.open() does not take a blob client: remote header[i] not checked')
            else:
                bad('oracle', 'remote header[i]', f'seismic_zfp.open on a blob client raised {type(e).__name__}: {str(e)[:160]}')
            return
        EMULATOR_BLOB[0] = True
        try:
            with f:
                for t in range(n):
                    dd = diff(f.header[t], t)
                    if dd:
                        bad('oracle', f'remote header[{t}]', f'seismic_zfp.open on a blob client: header[{t}] differs from source header {t} '
                            f'(field, got, source): {dd[:4]}')
                        break
            R.count('remote_emulator_header_reads', n)
        except Exception as e:
            bad('oracle', 'remote header[i]', f'seismic_zfp.open on a blob client raised {type(e).__name__}: {str(e)[:160]}')


def run_case(c):
    n_il, n_xl, ns = c['n_il'], c['n_xl'], c['ns']
    present = np.array([[ch == '1' for ch in row] for row in c['present']])
    il = [c['il0'] + i * c['ils'] for i in range(n_il)]
    xl = [c['xl0'] + x * c['xls'] for x in range(n_xl)]
    inp = dict(c)

    per_case = {'oracle': 0}

    def bad(kind, what, detail, key=None):
        # Result keeps 50 violations: at most 3 alarms per case and 34 in all from the oracle, so that the correspondence
        # (evaluated in one batch at the end) is never crowded out; suppressed ones are counted
        if key is not None:
            R.count(f'known_finding_cases {key}')
            if key in LISTED:
                return            # one witness per known finding is listed, the rest are counted
            LISTED.add(key)
        if kind == 'oracle' and key is None:
            per_case['oracle'] += 1
            N_ORACLE[0] += 1
            if per_case['oracle'] > 3 or N_ORACLE[0] > 34:
                R.count('alarms_not_listed')
                return
        R.violation(kind, dict(inp, check=what), detail, finding_key=key)
    hr = random.Random(c['hseed'])
    data = rnd_cube(hr, (n_il, n_xl, ns))
    n = int(present.sum())
    # arbitrary header content; constant fields, varying fields; (heuristic detection compares first and last trace:
    # a varying field gets different first/last values so that the mode keeps it -- what it may miss is C04's)
    hv = {}
    for f in FIELDS4:
        kind = hr.choice(['const', 'vary', 'vary', 'zeros_some'])
        if kind == 'const':
            v = hr.choice([0, 7, -3, 2 ** 31 - 1])
            hv[f] = [v] * n
        else:
            hv[f] = [hr.choice([0, 0, hr.randrange(-2 ** 31, 2 ** 31)]) if kind == 'zeros_some' else hr.randrange(-10 ** 6, 10 ** 6)
                     for _ in range(n)]
            if hv[f][0] == hv[f][-1]:
                hv[f][-1] = hv[f][0] - 1 if hv[f][0] > 0 else hv[f][0] + 1

    def hdr(t, i, x):
        return {f: hv[f][t] for f in FIELDS4}
    sgy = os.path.join(d, 'c.sgy'); sgz = os.path.join(d, 'c.sgz')
    idx = mk_segy(sgy, data, il, xl, present=present, hdr=hdr)
    assert len(idx) == n
    # ---- the source, through segyio only
    with segyio.open(sgy, ignore_geometry=True) as f:
        src_tr = np.array([np.asarray(f.trace[t]).copy() for t in range(f.tracecount)], dtype=np.float32)
        src_hd = [{int(k): int(v) for k, v in f.header[t].items()} for t in range(f.tracecount)]
    survey = [(h[189], h[193]) for h in src_hd]
    assert survey == [(il[i], xl[x]) for i, x in idx]
    S = '[' + '; '.join(f'({zlit(p)}, {zlit(q)})' for p, q in survey) + ']'
    # ---- which route does the converter take?  (D27 guard: segyio reports the file unstructured)
    with segyio.open(sgy, strict=False) as f:
        seg = None if f.unstructured else (len(f.ilines), len(f.xlines))
    with quiet(SegyConverter, sgy) as conv:
        real_route = 1 if conv.geom is None else (2 if isinstance(conv.geom, Geometry2d) else 0)
    if not a.no_model:
        def cb_route(o, seg=seg, real_route=real_route):
            exp = (real_route, seg[0] if seg else -1, seg[1] if seg else -1)
            if o != exp:
                bad('corr', 'ev_route', f'model (route, segyio il count, xl count) = {o}, real converter route / segyio geometry = {exp}')
        want(f'ev_route {S}', cb_route, raw=True)
    if seg is not None:
        R.count('outside_guard(D27)')
        R.case(canon(c), nontrivial=True, sample=None)
        # the finding must still reproduce: the conversion fails or the file does not describe the survey
        try:
            write_segy_sgz(sgy, sgz, bpv=c['bpv'], blockshape=c['bs'] if real_route != 2 else None, header_detection=c['mode'])
            with SgzReader(sgz) as r:
                okd = (r.is_3d and [int(v) for v in r.ilines] == il and [int(v) for v in r.xlines] == xl and r.tracecount == n
                       and not r.structured)
            what = 'file written as ' + ('a 2D line' if real_route == 2 else 'a structured cube') + ' with wrong geometry'
        except Exception as e:
            okd, what = False, f'conversion fails with {type(e).__name__}'
        if okd:
            bad('oracle', 'D27 classification', 'segyio reports the file structured but the SGZ describes the irregular survey: '
                'finding D27 no longer reproduces (remove the guard and the known finding)')
        else:
            bad('oracle', 'route', f'segyio infers a regular {seg[0]} x {seg[1]} geometry from the trace count: irregular route not taken; {what}', key=D27)
            if D27 not in R.known:
                R.known.append(D27)
        return
    if real_route != 1:
        bad('oracle', 'route', f'segyio reports the file unstructured but the converter route is {real_route} (1 = irregular)')
        return
    if c.get('first'):
        # one converter object, two runs: the file under test is written by the SECOND run() (another block shape)
        fb = c['first'][1]
        with quiet(SegyConverter, sgy) as conv2:
            quiet(conv2.run, os.path.join(d, 'c_first.sgz'), bits_per_voxel=c['first'][0], blockshape=tuple(fb) if fb is not None else None,
                  header_detection=c['mode'])
            quiet(conv2.run, sgz, bits_per_voxel=c['bpv'], blockshape=tuple(c['bs']) if c['bs'] is not None else None,
                  header_detection=c['mode'])
        R.count('second run of one converter')
    else:
        write_segy_sgz(sgy, sgz, bpv=c['bpv'], blockshape=c['bs'], header_detection=c['mode'])
    # ---- heuristic detection sees only the first and last trace (documented; what it may miss is C04's): the fields it
    # represents faithfully are the constant ones, the varying ones with first != last, and aliases of identical arrays
    faithful = set(ALL_FIELDS)
    if c['mode'] == 'heuristic':
        first, last = src_hd[0], src_hd[-1]
        variant = [f for f in ALL_FIELDS if first[f] != last[f]]
        for f in ALL_FIELDS:
            col = [h[f] for h in src_hd]
            if f not in variant:
                if any(v != first[f] for v in col):
                    faithful.discard(f)
            else:
                for g in variant[:variant.index(f)]:
                    if (first[g], last[g]) == (first[f], last[f]):
                        if [h[g] for h in src_hd] != col:
                            faithful.discard(f)
                        break
        R.count('heuristic_blind_fields', len(ALL_FIELDS) - len(faithful))
        if 189 not in faithful:
            R.notes.append('case skipped: heuristic detection aliases the inline field')
            return
    guard = all(s[0] != 0 for s in survey)
    R.count('guard_ok' if guard else 'outside_guard(D20)')
    R.count('pattern ' + c['pattern'].rstrip('0123456789.'))
    R.count(f"mode {c['mode']}")
    spec = SpecFile(sgz)
    bs = spec.bs
    R.count(f'blockshape0 {bs[0]}')
    rate = float(spec.rate)
    P = spec.shape_pad
    # ---- oracle: image of the zero-filled, zero-extended grid
    grid = np.zeros(P, dtype=np.float32)
    for t, (i, x) in enumerate(idx):
        grid[i, x, :ns] = src_tr[t]
    comp = zfpy.compress_numpy(grid, rate=rate, write_header=False)
    image = zfpy._decompress(comp, zfpy.dtype_to_ztype(np.dtype('float32')), grid.shape, rate=rate)

    def same(got, exp, what):
        got = np.asarray(got)
        if got.dtype != np.float32:
            g32 = got.astype(np.float32)
            if not np.array_equal(g32.astype(got.dtype), got):
                bad('oracle', what, f'result of dtype {got.dtype} is not float32-valued')
                return
            got = g32
        if not bits_equal(got, exp):
            nd = int((np.asarray(got).reshape(-1).view(np.uint32) != np.ascontiguousarray(exp, dtype=np.float32).reshape(-1).view(np.uint32)).sum()) \
                if got.shape == np.asarray(exp).shape else -1
            bad('oracle', what, f'differs from the image of the zero-filled grid: shapes {got.shape} / {np.asarray(exp).shape}, {nd} samples differ')

    with SgzReader(sgz) as r:
        if [int(v) for v in r.ilines] != il or [int(v) for v in r.xlines] != xl:
            bad('oracle', 'axes', f'ilines {list(map(int, r.ilines))} xlines {list(map(int, r.xlines))} expected {il} {xl}')
        if (r.tracecount, r.structured, r.n_ilines, r.n_xlines, r.n_samples) != (n, False, n_il, n_xl, ns):
            bad('oracle', 'counts', f'tracecount/structured/n_il/n_xl/ns = {(r.tracecount, r.structured, r.n_ilines, r.n_xlines, r.n_samples)} expected {(n, False, n_il, n_xl, ns)}')
        same(r.read_volume(), image[:n_il, :n_xl, :ns], 'read_volume')
        for i in range(n_il):
            same(r.read_inline(i), image[i, :n_xl, :ns], f'read_inline({i})')
        for x in range(n_xl):
            same(r.read_crossline(x), image[:n_il, x, :ns], f'read_crossline({x})')
        for z in sorted({0, ns - 1, hr.randrange(ns)}):
            same(r.read_zslice(z), image[:n_il, :n_xl, z], f'read_zslice({z})')
        for _ in range(4):
            a0 = hr.randrange(n_il); a1 = hr.randrange(a0 + 1, n_il + 1)
            b0 = hr.randrange(n_xl); b1 = hr.randrange(b0 + 1, n_xl + 1)
            z0 = hr.randrange(ns); z1 = hr.randrange(z0 + 1, ns + 1)
            same(r.read_subvolume(a0, a1, b0, b1, z0, z1), image[a0:a1, b0:b1, z0:z1], f'read_subvolume{(a0, a1, b0, b1, z0, z1)}')
        for cd in range(-n_xl + 1, n_il):
            cells = [(i, i - cd) for i in range(n_il) if 0 <= i - cd < n_xl]
            same(r.read_correlated_diagonal(cd), np.array([image[i, x, :ns] for i, x in cells]), f'read_correlated_diagonal({cd})')
        for ad in range(n_il + n_xl - 1):
            cells = [(i, ad - i) for i in range(n_il) if 0 <= ad - i < n_xl]
            same(r.read_anticorrelated_diagonal(ad), np.array([image[i, x, :ns] for i, x in cells]), f'read_anticorrelated_diagonal({ad})')
        R.count('volume_reads', 1 + n_il + n_xl + 3 + 4 + (n_il + n_xl - 1) * 2)
        # ---- trace identity and header identity (guard: no inline 0)
        d20_seen = False
        tr_out, hd_out = [], []
        for t in range(-1, n + 1):
            try:
                tr_out.append(('val', r.get_trace(t)))
            except Exception as e:
                tr_out.append(('err', exc_class(e)))
        for t in range(0, n + 1):
            try:
                hd_out.append(('val', {int(k): int(v) for k, v in r.gen_trace_header(t).items()}))
            except Exception as e:
                hd_out.append(('err', exc_class(e)))
        for t, (i, x) in enumerate(idx):
            o = tr_out[t + 1]
            ok_t = (o[0] == 'val' and bits_equal(o[1], image[i, x, :ns]))
            o2 = hd_out[t]
            ok_h = (o2[0] == 'val' and all(o2[1].get(f) == src_hd[t][f] for f in ALL_FIELDS if f in faithful))
            if not (ok_t and ok_h):
                if guard:
                    what = 'get_trace' if not ok_t else 'gen_trace_header'
                    det = (f'get_trace({t}) ' + ('raised ' + o[1] if o[0] == 'err' else 'is not the image of source trace ' + str(t))) if not ok_t else \
                        (f'gen_trace_header({t}) ' + ('raised ' + o2[1] if o2[0] == 'err' else 'differs from source header: ' +
                         str([(f, o2[1].get(f), src_hd[t][f]) for f in ALL_FIELDS if f in faithful and o2[1].get(f) != src_hd[t][f]][:4])))
                    bad('oracle', f'{what}({t})', det)
                    break
                d20_seen = True
        if not guard:
            if d20_seen:
                bad('oracle', 'trace/header identity', 'source contains inline number 0: traces of that inline are masked out, later ordinals shift',
                    key=D20)
                if D20 not in R.known:
                    R.known.append(D20)
            else:
                bad('oracle', 'D20 classification', 'source contains inline 0 but trace and header identity hold: finding D20 no longer reproduces '
                    '(remove the guard and the known finding)')
        if hd_out[n] != ('err', 'IndexErr') or tr_out[n + 1][0] != 'err':
            bad('oracle', 'ordinal n', f'get_trace({n}) / gen_trace_header({n}) must be refused: {tr_out[n + 1][0]} / {hd_out[n]}')
        R.count('trace_and_header_reads', 2 * n + 3)
        stored = [int(k) for k in r.stored_header_keys]
        offsets = {int(k): int(r.segy_traceheader_template[k]) for k in stored}
        # the real mask object
        r.get_unstructured_mask()
        real_positions = [int(v) for v in np.arange(r.mask.shape[0])[r.mask != 0]]
    if guard:
        remote_headers(sgz, n, src_hd, faithful, bad)
    if 189 not in stored:
        bad('oracle', 'stored fields', f'inline-number array not stored in mode {c["mode"]}: {stored}')
        return
    # ---- tracefield values: fresh reader (D18).  Stored arrays: no guard needed.  Fields kept as a constant in the
    # header template (heuristic detection; D30 fix) are zeroed outside the mask: these need the D20 guard.
    with SgzReader(sgz) as r2:
        nread = 0
        for f in ALL_FIELDS:
            if f not in faithful or (f not in stored and not guard):
                continue
            exp = np.zeros((n_il, n_xl), dtype=np.int64)
            for t, (i, x) in enumerate(idx):
                exp[i, x] = src_hd[t][f]
            got = r2.get_tracefield_values(f)
            nread += 1
            if got.shape != exp.shape or not np.array_equal(got.astype(np.int64), exp):
                bad('oracle', f'get_tracefield_values({f})', f'{"stored" if f in stored else "constant"} field: not the grid with zeros at holes: '
                    f'got {got.tolist()} expected {exp.tolist()}')
        R.count('tracefield_reads', nread)
    # ---- the same on ONE reader in a mixed order (header i, grids of several fields, header j, 1-d arrays): what is held
    # from an earlier call (arrays in the other padding mode, a partly filled memo) must not leak into a later answer
    hrng = random.Random(a.seed * 7919 + n * 31 + n_il)
    grid_fields = [f for f in ALL_FIELDS if f in faithful and (f in stored or guard)]
    if grid_fields and guard:          # (sources with inline number 0 are the known finding D20: their mask is wrong anyway)
        with SgzReader(sgz) as r3:
            ops = []
            for _ in range(8):
                k = hrng.randrange(3)
                ops.append(('hdr', hrng.choice([0, n - 1, hrng.randrange(n)])) if k == 0 else
                           ('grid', hrng.choice(grid_fields[-4:] + [hrng.choice(grid_fields)])) if k == 1 else
                           ('1d', hrng.choice([f for f in grid_fields if f in stored] or grid_fields)))
            if not any(o[0] == 'hdr' for o in ops[:3]):
                ops.insert(0, ('hdr', n - 1))
            done = []
            for op, arg in ops:
                done.append(f'{op}({arg})')
                try:
                    if op == 'hdr':
                        got = {int(k): int(v) for k, v in r3.gen_trace_header(arg).items()}
                        expd = {f: src_hd[arg][f] for f in got if f in faithful}
                        if {f: got[f] for f in expd} != expd:
                            bad('oracle', 'mixed order on one reader', f'after {done[:-1]}: gen_trace_header({arg}) differs from source header in '
                                f'{sorted(f for f in expd if got[f] != expd[f])[:6]}')
                            break
                    else:
                        exp = np.zeros((n_il, n_xl), dtype=np.int64)
                        for t, (i, x) in enumerate(idx):
                            exp[i, x] = src_hd[t][arg]
                        got = r3.get_tracefield_values(arg) if op == 'grid' else r3.get_tracefield_1d(arg)
                        if op == '1d':
                            exp = exp.flatten() if got.shape[0] == n_il * n_xl else np.array([src_hd[t][arg] for t in range(n)], dtype=np.int64)
                        if got.shape != exp.shape or not np.array_equal(np.asarray(got).astype(np.int64), exp):
                            bad('oracle', 'mixed order on one reader', f'after {done[:-1]}: {done[-1]} is not the source values '
                                f'(shape {got.shape}, expected {exp.shape})')
                            break
                except Exception as e:
                    bad('oracle', 'mixed order on one reader', f'after {done[:-1]}: {done[-1]} raised {type(e).__name__}: {str(e)[:120]}')
                    break
            R.count('mixed-order header sequences')
    nontriv = (n < n_il * n_xl)
    R.case(canon(c), nontrivial=nontriv, sample={k: c[k] for k in ('n_il', 'n_xl', 'pattern', 'il0', 'ils', 'xl0', 'xls', 'ns', 'bpv', 'bs', 'mode')})
    if a.no_model:
        return
    # ------------------------------------------------------------------ correspondence with the Coq model
    bs0 = bs[0]
    # the real geometry object, built as conversion.infer_geometry builds it
    traces_ref = {(h[189], h[193]): i for i, h in enumerate(src_hd)}
    geom = InferredGeometry3d(traces_ref)
    real_geom = [geom.min_il, geom.max_il, geom.il_step, geom.min_xl, geom.max_xl, geom.xl_step, len(geom.ilines), len(geom.xlines)]
    raw = spec.raw
    sI = lambda o: struct.unpack('<i', raw[o:o + 4])[0]
    uI = lambda o: struct.unpack('<I', raw[o:o + 4])[0]
    hdr_geom = [sI(24), None, sI(36), sI(20), None, sI(32), uI(12), uI(8)]

    def cb_geom(o):
        if o != ('val', real_geom):
            bad('corr', 'ev_geometry', f'model {o} real InferredGeometry3d {real_geom}')
        elif any(hv_ is not None and hv_ != m for hv_, m in zip(hdr_geom, o[1])) or uI(68) != n or uI(60) != 4 * o[1][6] * o[1][7]:
            bad('corr', 'header fields', f'model geometry {o[1]} file header {hdr_geom} tracecount {uI(68)} footer bytes {uI(60)}')
    want(f'ev_geometry {S}', cb_geom)

    def cb_axes(o):
        if o != ('val', (il, xl)):
            bad('corr', 'ev_axes', f'model {o} reader {(il, xl)}')
    want(f'ev_axes {S}', cb_axes)
    # footer arrays: the inline array and one other stored field
    others = [f for f in stored if f != 189 and f in faithful]
    fsel = [189] + ([others[c['hseed'] % len(others)]] if others else [])
    for f in fsel:
        vals = [src_hd[t][f] for t in range(n)]
        real = [int(v) for v in np.frombuffer(raw[offsets[f]: offsets[f] + spec.hel], dtype='<i4')]

        def cb_footer(o, f=f, real=real):
            if o != ('val', real):
                bad('corr', f'ev_footer field {f}', f'model {o} file footer {real}')
        want(f'ev_footer {S} {bs0} {zlist(vals)}', cb_footer)
        real_h = [('val', o[1][f]) if o[0] == 'val' else ('err', o[1]) for o in hd_out]

        def cb_hdrs(o, f=f, real_h=real_h):
            if o[0] != 'val' or [model_outcome(v) for v in o[1]] != real_h:
                bad('corr', f'ev_headers field {f}', f'model {o} gen_trace_header {real_h}')
        want(f'ev_headers {S} {bs0} {zlist(vals)} 0 {n + 1}', cb_hdrs)
    real_map = [('val', p) for p in real_positions]

    def cb_mask(o):
        if o[0] != 'val':
            bad('corr', 'ev_mask_map', f'model {o}')
            return
        m = [model_outcome(v) for v in o[1]]
        # m[0] is ordinal -1, m[1..n] ordinals 0..n-1, m[n+1] ordinal n
        k = len(real_positions)
        exp = [('val', real_positions[-1]) if k else ('err', 'IndexErr')] + \
              [('val', real_positions[t]) if t < k else ('err', 'IndexErr') for t in range(n + 1)]
        if m != exp:
            bad('corr', 'ev_mask_map', f'model {m} reader mask positions {real_positions}')
        # and the real get_trace agrees in outcome class at the two ends
        # ordinal n: model and implementation must both refuse; ordinal -1: get_trace checks the ordinal against the trace
        # count BEFORE the mask lookup (theorem C08_get_trace_ordinal_out_of_range), so it must refuse whatever numpy's
        # negative indexing of the mask would give
        if (m[n + 1][0] == 'val') != (tr_out[n + 1][0] == 'val'):
            bad('corr', f'get_trace({n}) outcome', f'model {m[n + 1]} implementation {tr_out[n + 1][0]}')
        if tr_out[0][0] == 'val':
            bad('oracle', 'get_trace(-1) outcome', 'a negative ordinal returned a trace instead of raising IndexError')
    want(f'ev_mask_map {S} {bs0} (-1) {n + 1}', cb_mask)
    # plane-set buffers filled by the REAL unstructured_io_thread_func
    with segyio.open(sgy, ignore_geometry=True) as f:
        for ps in range(P[0] // bs0):
            buf = np.zeros((bs0, P[1], P[2]), dtype=np.float32)
            cu.unstructured_io_thread_func(bs, False, {}, geom, ps, buf, f, ns)
            real_plane = []
            for i in range(bs0):
                for x in range(P[1]):
                    cell = buf[i, x]
                    if not cell.any():
                        real_plane.append(-1)       # (random source traces are never all zero)
                        continue
                    hits = [t for t in range(n) if bits_equal(cell[:ns], src_tr[t]) and not cell[ns:].any()]
                    real_plane.append(hits[0] if len(hits) == 1 else -2)

            def cb_plane(o, ps=ps, real_plane=real_plane):
                if o != ('val', real_plane):
                    bad('corr', f'ev_plane set {ps}', f'model {o} real buffer {real_plane}')
            want(f'ev_plane {S} {bs0} {ps} {P[1]}', cb_plane)


# ------------------------------------------------------------------------------------------------ main
try:
    if a.replay:
        rep = json.load(open(a.replay))
        cases = [{k: v for k, v in rep['input'].items() if k != 'check'}]
    else:
        cases = gen_cases(rng, a.tier, a.search)
    for c in cases:
        try:
            run_case(c)
        except Exception as e:
            import traceback
            R.violation('oracle', dict(c, check='conversion/read'), f'{type(e).__name__}: {e} :: {traceback.format_exc()[-400:]}')
    if TERMS and not a.no_model:
        try:
            vals = coq_eval(['SZ.Lib.Py', 'SZ.Model.Irregular'], [t[0] for t in TERMS], shard=150, jobs=12)
            for (t, cb, raw), v in zip(TERMS, vals):
                cb(parse_value(v) if raw else model_outcome(v))
            R.count('model_terms', len(TERMS))
        except CoqEvalError as e:
            R.violation('corr', {'check': 'model evaluation'}, str(e)[-1500:])
finally:
    shutil.rmtree(d, ignore_errors=True)
R.write(a.out)
