#!/usr/bin/env python3
"""Harness for C13 (segyio emulation).

For small regular cubes (ascending / descending axes, non-unit increments, sizes in every residue class mod 4) a SEG-Y is
written with segyio and converted to SGZ at a high bit rate.  An expression grammar then generates programs of the
documented interface; each is evaluated on seismic_zfp.open(sgz) and on segyio.open(sgy) and reduced to an observation:
    ('lines', [line numbers, in order], item shape)   iline / xline expressions (the line is recognised from its samples)
    ('ords',  [ordinals, in order], item shape)       trace / header / depth_slice expressions
    ('value', ...)                                    len, ilines, xlines, samples, tracecount, attributes, bin, text, dt, cube
    ('rejected',)                                     KeyError / IndexError / ValueError
 * direct oracle (R.violation 'oracle'): observation(emulator) == observation(segyio); every sample array the emulator
   returns is bit-identical to the corresponding slice of the SGZ's own decoded volume (SgzReader.read_volume());
   header dictionaries are equal to segyio's; subvolume[a:b:c, ...] (axes of either direction, explicit bounds, the
   one-past-the-end stop, steps that are multiples of the increment in axis order, bounds that are exactly 0 on axes
   running through zero) equals the numpy slice of the decoded volume selected by coordinates AND, to within this file's
   codec error, segyio's own lines iline[k] for k in range(start, stop, step) cut at the crossline / sample coordinates;
   bounds that are no coordinates of the axis are rejected.
 * correspondence (R.violation 'corr'): the Coq terms (Gen/Accessors.v = emulator, Model/Accessors.v = hand model of
   segyio) evaluated by vm_compute on the same axis and slice give the same key lists as the two implementations;
   this validates the hand model of segyio on every run (also outside the documented grammar).
 * guards: line slices are classified with the same predicates as the theorem (line_slice_ok, oracle_ok, evaluated
   in Coq); outside the grammar only the correspondence is demanded.  Known findings: D25 (integer subscript of
   attributes()), D24 residue (EBCDIC table).  (D27-subvolume, explicit bounds on a descending axis refused, is repaired:
   such expressions are checked like every other one.)
"""
import os, sys, itertools
sys.path.insert(0, os.path.dirname(os.path.abspath(__file__)))
from common import *
a = parse_args()
from hz import *
import seismic_zfp
import seismic_zfp.tools
import segyio.tools
from coqeval import coq_eval, parse_value, zlit

R = Result('one case = (cube: inline axis, crossline axis, samples; expression of the documented interface); non-trivial = '
           'distinct (cube, expression) whose expected outcome is data or an out-of-range rejection; expressions: every '
           'start/stop/step presence combination x existing bounds x step multiples (both signs) for line slices, boundary '
           'and seeded random ordinal slices/integers (negative, beyond both ends, step 0), iteration, len, attributes '
           'with slices/lists/integers, bin, text, dt, cube, subvolume with coordinate slices')
rng = random.Random(a.seed * 104729 + 13)
quick = a.tier == 'quick' and not a.search
d = scratch_dir()
REJ = ('rejected',)
corr_terms = []        # (coq term, expected observation, description dict, which side)


_known_seen = {}


def known(key, inp, detail):
    """a sampled input outside a guard: reported under its finding key, at most twice per key (R.violations is capped)"""
    _known_seen[key] = _known_seen.get(key, 0) + 1
    R.count('finding_' + key)
    if _known_seen[key] <= 2:
        R.violation('oracle', inp, detail, finding_key=key)
    if key not in R.known and not key.startswith('D28'):
        R.known.append(key)


def canon_exc(e):
    if isinstance(e, (KeyError, IndexError, ValueError)):
        return REJ
    return ('error', type(e).__name__, str(e)[:80])


def osl(t):
    """python slice from a triple with None"""
    return slice(t[0], t[1], t[2])


def slstr(t):
    return ':'.join('' if v is None else str(v) for v in t)


def coq_opt(v):
    return 'None' if v is None else f'(Some {zlit(int(v))})'


def coq_slice(t):
    return f'(mkslice {coq_opt(t[0])} {coq_opt(t[1])} {coq_opt(t[2])})'


def coq_list(xs):
    return '[' + '; '.join(zlit(int(x)) for x in xs) + ']'


def parse_outcome(s):
    s = s.strip()
    if s.startswith('Raise'):
        return REJ
    assert s.startswith('Return'), s
    return parse_value(s[len('Return'):].strip())


class Cube:
    def __init__(self, k, il, xl, ns, t0, dt_us):
        self.il, self.xl, self.ns, self.t0, self.dt_us = il, xl, ns, t0, dt_us
        # segyio reads negative line numbers in slices / iteration Python-style (from the end): for a cube with negative
        # line numbers only the expressions whose oracle does not go through segyio's slicing are run (subvolume, dt, cube)
        self.sub_only = min(il[0], il[0] + (il[2] - 1) * il[1], xl[0], xl[0] + (xl[2] - 1) * xl[1]) < 0
        self.ilines = [il[0] + i * il[1] for i in range(il[2])]
        self.xlines = [xl[0] + i * xl[1] for i in range(xl[2])]
        self.name = f'il{il[0]}:{il[1]}x{il[2]}_xl{xl[0]}:{xl[1]}x{xl[2]}_ns{ns}_t{t0}_dt{dt_us}'
        self.data = rnd_cube(rng, (il[2], xl[2], ns))
        self.sgy = os.path.join(d, f'c{k}.sgy')
        self.sgz = os.path.join(d, f'c{k}.sgz')
        # every varying field differs between the first and the last trace (the default header detection looks at those)
        mk_segy(self.sgy, self.data, self.ilines, self.xlines, dt_us=dt_us, t0=t0,
                hdr=lambda t, i, x: {segyio.TraceField.TRACE_SEQUENCE_FILE: t + 1, segyio.TraceField.CDP: 100 + 3 * t,
                                     segyio.TraceField.SourceX: 1000 * i - x, segyio.TraceField.ShotPoint: ((t * 37) % 11) * 1000 + t})
        write_segy_sgz(self.sgy, self.sgz, bpv=16, header_detection=self.detection())
        with SgzReader(self.sgz) as r:
            self.vol = r.read_volume()
        self.n_il, self.n_xl = il[2], xl[2]
        self.ntr = self.n_il * self.n_xl

    def detection(self):
        """the default 'heuristic' header detection is documented to look at the first and the last trace only: it is used
        when that is enough to tell this file's varying fields apart, 'thorough' otherwise"""
        with segyio.open(self.sgy) as s:
            arrs = {int(k): np.array(s.attributes(int(k))[:]) for k in dict(s.header[0]).keys()}
        vary = {k: v for k, v in arrs.items() if len(set(v.tolist())) > 1}
        ok = all(v[0] != v[-1] for v in vary.values())
        for k1, k2 in itertools.combinations(sorted(vary), 2):
            if (vary[k1][0], vary[k1][-1]) == (vary[k2][0], vary[k2][-1]) and not np.array_equal(vary[k1], vary[k2]):
                ok = False
        R.count('header_detection_heuristic' if ok else 'header_detection_thorough')
        return 'heuristic' if ok else 'thorough'

    def keys(self, name):
        return self.ilines if name == 'iline' else self.xlines

    def ax(self, name):
        return self.il if name == 'iline' else self.xl


def match_plane(x, vol, axis):
    hits = [i for i in range(vol.shape[axis]) if bits_equal(x, np.take(vol, i, axis=axis))]
    return hits[0] if len(hits) == 1 else None


def match_trace(x, vol):
    flat = vol.reshape(-1, vol.shape[2])
    hits = [i for i in range(flat.shape[0]) if bits_equal(x, flat[i])]
    return hits[0] if len(hits) == 1 else None


def evaluate(f, c, prog, vol):
    """-> (observation, payload).  vol: the volume the returned samples must come from (source data for segyio, decoded
    SGZ volume for the emulator).  payload: things compared separately (header dicts)."""
    kind = prog[0]
    try:
        if kind in ('line_int', 'line_slice', 'line_iter'):
            name = prog[1]
            axis = 0 if name == 'iline' else 1
            acc = getattr(f, name)
            if kind == 'line_int':
                res = [np.array(acc[prog[2]], copy=True)]
                single = True
            elif kind == 'line_slice':
                res = [np.array(x, copy=True) for x in acc[osl(prog[2])]]
                single = False
            else:
                res = [np.array(x, copy=True) for x in acc]
                single = False
            idx = [match_plane(x, vol, axis) for x in res]
            if any(i is None for i in idx):
                return ('nomatch', name, [None if i is None else c.keys(name)[i] for i in idx]), None
            shapes = sorted({x.shape for x in res})
            dt = sorted({str(x.dtype) for x in res})
            return ('lines', 'one' if single else 'many', [c.keys(name)[i] for i in idx], shapes, dt), None
        if kind in ('ord_int', 'ord_slice', 'ord_iter'):
            name = prog[1]
            acc = getattr(f, name)
            if kind == 'ord_int':
                raw = [acc[prog[2]]]
                single = True
            elif kind == 'ord_slice':
                it = acc[osl(prog[2])]
                raw = [dict(x) if name == 'header' else np.array(x, copy=True) for x in it]
                single = False
            else:
                raw = [dict(x) if name == 'header' else np.array(x, copy=True) for x in acc]
                single = False
            if name == 'header':
                hs = [dict(x) for x in raw]
                idx = []
                for h in hs:
                    key = (h[segyio.TraceField.INLINE_3D], h[segyio.TraceField.CROSSLINE_3D])
                    idx.append(c.ilines.index(key[0]) * c.n_xl + c.xlines.index(key[1])
                               if key[0] in c.ilines and key[1] in c.xlines else None)
                return ('ords', 'one' if single else 'many', idx, [len(h) for h in hs][:1], ['dict']), \
                    [{int(k): int(v) for k, v in h.items()} for h in hs]
            res = [np.array(x, copy=True) for x in raw]
            if name == 'trace':
                idx = [match_trace(x, vol) for x in res]
            else:
                idx = [match_plane(x, vol, 2) for x in res]
            if any(i is None for i in idx):
                return ('nomatch', name, idx), None
            return ('ords', 'one' if single else 'many', idx, sorted({x.shape for x in res}), sorted({str(x.dtype) for x in res})), None
        if kind == 'len':
            return ('value', int(len(getattr(f, prog[1])))), None
        if kind == 'attr':
            v = getattr(f, prog[1])
            if prog[1] == 'tracecount':
                return ('value', int(v)), None
            v = np.asarray(v)
            return ('value', v.ndim, [float(x) for x in v]), None
        if kind == 'attributes':
            v = f.attributes(prog[1])[prog[2] if not isinstance(prog[2], tuple) else osl(prog[2])]
            v = np.asarray(v)
            return ('value', 'array' if v.ndim == 1 else f'{v.ndim}-d', [int(x) for x in np.atleast_1d(v)]), None
        if kind == 'bin':
            return ('value', {int(k): int(v) for k, v in dict(f.bin).items()}), None
        if kind == 'text':
            t = f.text[0]
            return ('value', type(t).__name__, len(t)), bytes(t)
        if kind == 'text_len':
            return ('value', int(len(f.text))), None
    except Exception as e:
        return canon_exc(e), None
    raise AssertionError(prog)


def show(prog):
    k = prog[0]
    if k == 'line_int':
        return f'{prog[1]}[{prog[2]}]'
    if k == 'line_slice':
        return f'{prog[1]}[{slstr(prog[2])}]'
    if k == 'line_iter':
        return f'list({prog[1]})'
    if k == 'ord_int':
        return f'{prog[1]}[{prog[2]}]'
    if k == 'ord_slice':
        return f'{prog[1]}[{slstr(prog[2])}]'
    if k == 'ord_iter':
        return f'list({prog[1]})'
    if k == 'len':
        return f'len({prog[1]})'
    if k == 'attr':
        return prog[1]
    if k == 'attributes':
        return f'attributes({prog[1]})[{slstr(prog[2]) if isinstance(prog[2], tuple) else prog[2]}]'
    return k


# ------------------------------------------------------------------ expression grammar
def line_programs(c, name):
    keys = c.keys(name)
    a0, s, n = c.ax(name)
    progs = []
    # single line numbers: every existing one, neighbours, ends, 0, negative
    cand = set(keys) | {k + 1 for k in keys} | {min(keys) - abs(s), max(keys) + abs(s), 0, -1, -keys[0], min(keys) - 1, max(keys) + 1}
    for k in sorted(cand):
        progs.append(('line_int', name, k))
    # slices of the grammar: presence combinations x existing bounds x step multiples (axis order and against it)
    steps = [None] + [m * s for m in (1, 2, 3)] + [-m * s for m in (1, 2)]
    bounds = [None] + keys
    combos = [(st, sp, k) for st in bounds for sp in bounds for k in steps]
    if quick and len(combos) > 90:
        must = [t for t in combos if t[0] is None or t[1] is None]
        rest = [t for t in combos if t not in must]
        combos = must[:70] if len(must) > 70 else must + rng.sample(rest, min(len(rest), 90 - len(must)))
    for t in combos:
        progs.append(('line_slice', name, t))
    # outside the grammar (correspondence only): bounds that are no line numbers, steps that are no multiples
    off = [min(keys) - 1, max(keys) + 1, max(keys) + 5 * abs(s), 0, keys[0] + 1 if abs(s) > 1 else keys[0] - s * 100]
    for _ in range(6 if quick else 30):
        t = (rng.choice(bounds + off), rng.choice(bounds + off), rng.choice(steps + [1, -1, 2, s + 1, 0]))
        progs.append(('line_slice', name, t))
    progs.append(('line_iter', name))
    progs.append(('len', name))
    return progs


def ordinal_programs(c, name):
    n = {'depth_slice': c.ns, 'trace': c.ntr, 'header': c.ntr}[name]
    progs = []
    ints = {0, 1, n - 1, n, n + 1, -1, -2, -n, -n - 1, -n - 2, n // 2, 3 * n}
    for i in sorted(ints):
        progs.append(('ord_int', name, i))
    bvals = [None, 0, 1, 2, n - 1, n, n + 1, n + 7, -1, -2, -n, -n - 1, -n - 5, n // 2]
    svals = [None, 1, 2, 3, 4, -1, -2, -3, n, -n, n + 1]
    sl = {(None, None, None), (None, None, -1), (None, None, 0), (1, None, 0), (-1, None, -1), (None, -1, None),
          (n - 1, None, -2), (-2, 0, -1), (0, n, 1), (n, 0, -1), (n + 3, -n - 3, -2), (-n - 3, n + 3, 3)}
    # steps that are a whole number of compression blocks / footer sectors: consecutive items of ONE slice that are a block apart
    for per in (4, 64, 128, 256, 512):
        if per < n:
            sl |= {(None, None, per), (5 % n, None, per), (None, None, -per), (n - 1, None, -per)}
    for _ in range(40 if quick else 400):
        sl.add((rng.choice(bvals), rng.choice(bvals), rng.choice(svals)))
    for t in sorted(sl, key=str):
        progs.append(('ord_slice', name, t))
    progs.append(('ord_iter', name))
    progs.append(('len', name))
    return progs


def attribute_programs(c):
    n = c.ntr
    progs = []
    for fld in (189, 193, 181, 185, 5, 21, 17, 73, 115, 117):
        subs = [(None, None, None), (1, 5, None), (None, None, -1), (-3, None, None), (None, None, 2), (n - 2, n + 5, None),
                (rng.randrange(-n, n), rng.randrange(-n, n + 3), rng.choice([1, 2, -1, -2, 3]))]
        subs += [[0, n - 1], [1, 2, 2], sorted(rng.sample(range(n), min(4, n)))]
        subs += [0, n - 1, n // 2, -1, n]
        for sb in subs:
            progs.append(('attributes', fld, sb))
    return progs


# ------------------------------------------------------------------ per cube
def text_agree_set():
    """EBCDIC codes on which cp037 (the emulator) and segyio's table give the same ASCII byte: measured on segyio itself"""
    p = os.path.join(d, 'tab.sgy')
    arr = rnd_cube(rng, (2, 2, 4))
    mk_segy(p, arr, [1, 2], [1, 2])
    with open(p, 'r+b') as fh:
        fh.seek(0)
        fh.write(bytes(range(256)) * 12 + bytes([0x40] * 128))
    with segyio.open(p) as s:
        tab = bytes(s.text[0])[:256]
    cp = bytes(range(256)).decode('cp037')
    return {i for i in range(256) if ord(cp[i]) < 128 and ord(cp[i]) == tab[i]}, tab


AGREE, SEGYIO_E2A = text_agree_set()


def gen_valid_axis(ax):
    """a slice of the documented form on one axis (either direction): start a coordinate, stop a later coordinate or the
    one-past-the-end value, step a multiple of the increment in axis order (negative on a descending axis)"""
    inc = ax[1] - ax[0]
    past = ax[-1] + inc
    i0 = rng.randrange(0, len(ax))
    i1 = rng.randrange(i0 + 1, len(ax) + 1)
    m = rng.choice([None, 1, 1, 2, 3])
    st = None if (rng.random() < 0.3) else ax[i0]
    sp = None if (rng.random() < 0.3) else (ax[i1] if i1 < len(ax) else past)
    return (st, sp, None if m is None else m * inc)


def gen_sub(axes):
    """a coordinate-slice triple for subvolume[...]: mostly valid coordinates, sometimes one axis out of range"""
    t3 = []
    for ax in axes:
        inc = ax[1] - ax[0]
        past = ax[-1] + inc
        if rng.random() < 0.88:                     # valid coordinates
            t3.append(gen_valid_axis(ax))
        else:                                       # a bound that is no coordinate of the axis / outside / a bad step
            which = rng.choice(['start_out', 'stop_out', 'step_bad', 'start_off'])
            lo, hi = min(ax), max(ax)
            if which == 'start_out':
                t3.append((rng.choice([lo - abs(inc), hi + abs(inc), lo - 1]), None, None))
            elif which == 'stop_out':               # the first coordinate, before it, beyond the one-past-the-end value
                t3.append((None, rng.choice([ax[0], ax[0] - inc, past + inc]), None))
            elif which == 'step_bad' and abs(inc) > 1:
                t3.append((None, None, inc + 1))
            else:
                t3.append((ax[0] + 1 if abs(inc) > 1 else lo - 1, None, None))
    return t3


def systematic_axis(ax):
    """the slices that matter on ONE axis, whatever its direction: every presence combination of start / stop / step on
    boundary ordinal pairs, bounds that are exactly 0 (an explicit 0 is a bound, not "absent"), and the rejections"""
    n = len(ax)
    inc = ax[1] - ax[0]
    past = ax[-1] + inc
    sgn = 1 if inc > 0 else -1
    out = []
    pairs = {(0, n), (0, 1), (n - 1, n), (1, n), (0, n - 1), (n // 2, n), (rng.randrange(0, n - 1), None)}
    for i0, i1 in sorted(pairs, key=str):
        if i1 is None:
            i1 = rng.randrange(i0 + 1, n + 1)
        if not i0 < i1:
            continue
        sp_val = ax[i1] if i1 < n else past
        for st, sp in ((ax[i0], sp_val), (ax[i0], None), (None, sp_val)):
            for m in (None, 1, 2, 3):
                out.append(((st, sp, None if m is None else m * inc), 'valid'))
    # an explicit bound of 0: start 0 (also when 0 is not the first coordinate), stop 0 (a coordinate or the
    # one-past-the-end value), each with the step given and omitted
    if 0 in ax:
        z = ax.index(0)
        later = [ax[q] for q in range(z + 1, n)] + [past]
        for sp in (None, later[0], later[-1]):
            for k in (None, inc, 2 * inc):
                out.append(((0, sp, k), 'zero'))
        if z > 0:
            for st in (None, ax[0], ax[z - 1]):
                for k in (None, inc, 2 * inc):
                    out.append(((st, 0, k), 'zero'))
    if past == 0:
        for st in (None, ax[0], ax[-1]):
            for k in (None, inc, 2 * inc):
                out.append(((st, 0, k), 'zero'))
    # rejections: a start before the first / at or beyond the one-past-the-end value, a stop at or before the first
    # coordinate / beyond the one-past-the-end value, coordinates between the lines, a step that is no multiple
    for st in (ax[0] - inc, past, past + inc):
        out.append(((st, None, None), 'reject'))
        out.append(((st, ax[-1], inc), 'reject'))
    for sp in (ax[0], ax[0] - inc, past + inc):
        out.append(((None, sp, None), 'reject'))
        out.append(((ax[0], sp, inc), 'reject'))
    if abs(inc) > 1:
        out.append(((ax[0] + sgn, None, None), 'reject'))
        out.append(((ax[1] + sgn, ax[-1], inc), 'reject'))
        out.append(((None, ax[-1] + sgn, None), 'reject'))
        out.append(((ax[0], ax[1] + sgn, inc), 'reject'))
        out.append(((None, None, inc + sgn), 'reject'))
        out.append(((ax[0], past, 2 * inc + sgn), 'reject'))
    return out


def systematic_sub(axes, per_axis):
    """subvolume triples that vary one axis systematically (the other two take random slices of the documented form)"""
    cases = []
    for which, ax in enumerate(axes):
        alls = systematic_axis(ax)
        keep = [t for t in alls if t[1] != 'valid']
        val = [t for t in alls if t[1] == 'valid']
        if per_axis is not None and len(val) > per_axis:
            val = rng.sample(val, per_axis)
        for t, tag in keep + val:
            t3 = [gen_valid_axis(o) for o in axes]
            t3[which] = t
            cases.append(t3)
    return cases


def classify_sub(t3, axes):
    """the documented meaning of subvolume[a:b:c] per axis, for an axis of either direction: coordinates a (default
    first) up to b exclusive (default one increment past the last), every c/increment-th (c a multiple of the increment
    in axis order: negative on a descending axis).
    -> (numpy slices into the decoded volume or None, expected rejection, the coordinates selected per axis)"""
    want, expect_rej, sel = [], False, []
    for (st, sp, k), ax in zip(t3, axes):
        inc = ax[1] - ax[0]
        past = ax[-1] + inc
        ok = (st is None or st in ax) and (sp is None or sp in ax or sp == past) and \
             (k is None or (k % inc == 0 and k // inc > 0))
        i0 = 0 if st is None else (ax.index(st) if st in ax else None)
        i1 = len(ax) if sp is None or sp == past else (ax.index(sp) if sp in ax else None)
        if not ok or i0 is None or i1 is None or i0 >= i1:
            expect_rej = True
            want.append(None)
            sel.append(None)
            continue
        want.append(slice(i0, i1, 1 if k is None else k // inc))
        # Python's range over COORDINATES: independent of the ordinal arithmetic above
        sel.append(list(range(ax[0] if st is None else st, past if sp is None else sp, inc if k is None else k)))
    return want, expect_rej, sel


def segyio_subvolume(s, sel):
    """segyio's equivalent of subvolume[...]: its own inlines with the selected NUMBERS, cut at the selected crossline
    numbers and sample times, located on segyio's own axes"""
    xl_ax = [int(v) for v in s.xlines]
    z_ax = [int(round(float(v))) for v in s.samples]
    planes = np.stack([np.array(s.iline[int(k)], copy=True) for k in sel[0]])
    xi = [xl_ax.index(x) for x in sel[1]]
    zi = [z_ax.index(t) for t in sel[2]]
    return planes[:, xi][:, :, zi]


def parse_int_or_none(x):
    x = x.strip()
    return None if x == '' else int(x)


def parse_triple(x):
    parts = x.split(':')
    assert len(parts) == 3, x
    return tuple(parse_int_or_none(q) for q in parts)


def parse_sub(expr):
    inner = expr[len('subvolume['):-1]
    return [parse_triple(q) for q in inner.split(',')]


def parse_expr(expr):
    """inverse of show() (replay)"""
    import re, ast as _ast
    m = re.fullmatch(r'(iline|xline)\[(.*)\]', expr)
    if m:
        return ('line_slice', m.group(1), parse_triple(m.group(2))) if ':' in m.group(2) else ('line_int', m.group(1), int(m.group(2)))
    m = re.fullmatch(r'(depth_slice|trace|header)\[(.*)\]', expr)
    if m:
        return ('ord_slice', m.group(1), parse_triple(m.group(2))) if ':' in m.group(2) else ('ord_int', m.group(1), int(m.group(2)))
    m = re.fullmatch(r'list\((\w+)\)', expr)
    if m:
        return ('line_iter' if m.group(1) in ('iline', 'xline') else 'ord_iter', m.group(1))
    m = re.fullmatch(r'len\((\w+)\)', expr)
    if m:
        return ('len', m.group(1))
    m = re.fullmatch(r'attributes\((\d+)\)\[(.*)\]', expr)
    if m:
        sb = m.group(2)
        return ('attributes', int(m.group(1)), parse_triple(sb) if ':' in sb else _ast.literal_eval(sb))
    if expr in ('ilines', 'xlines', 'samples', 'tracecount'):
        return ('attr', expr)
    if expr in ('bin', 'text', 'text_len'):
        return (expr,)
    return None


def run_cube(k, c, only=None):
    nviol0 = len(R.violations)
    with segyio.open(c.sgy) as s, seismic_zfp.open(c.sgz) as z:
        cube = {'ilines': c.ilines, 'xlines': c.xlines, 'ns': c.ns, 't0': c.t0, 'dt_us': c.dt_us}
        progs = []
        for name in ('iline', 'xline'):
            progs += line_programs(c, name)
        for name in ('depth_slice', 'trace', 'header'):
            progs += ordinal_programs(c, name)
        progs += attribute_programs(c)
        progs += [('attr', x) for x in ('ilines', 'xlines', 'samples', 'tracecount')] + [('bin',), ('text',), ('text_len',)]
        if c.sub_only:
            progs = []
            R.count('cube_with_negative_line_numbers_subvolume_only')
        if only is not None:
            progs = [q for q in (parse_expr(e) for e in only) if q is not None]
        for prog in progs:
            os_, ps = evaluate(s, c, prog, c.data)
            oz, pz = evaluate(z, c, prog, c.vol)
            inp = {'cube': cube, 'expr': show(prog)}
            kind = prog[0]
            R.count(kind)
            nontrivial = True
            # ---- classification
            if kind == 'line_slice':
                a0, st, n = c.ax(prog[1])
                keys = c.keys(prog[1])
                t = prog[2]
                in_grammar = (t[0] is None or t[0] in keys) and (t[1] is None or t[1] in keys) and \
                             (t[2] is None or (t[2] != 0 and t[2] % st == 0))
                oracle_ok = not (t[2] is not None and t[2] < 0 and t[1] is None and min(keys) < 1)
                axis_ok = min(keys) >= 0
                # correspondence: both models on this axis and slice
                ax = f'(axis {zlit(a0)} {zlit(st)} {n})'
                corr_terms.append((f'segyio_line_slice {ax} {coq_slice(t)}', os_, inp, 'segyio'))
                corr_terms.append((f'bind (sla_getitem_slice {ax} {coq_slice(t)}) (fun l => mapM (fun k => bind '
                                   f'(coord_to_index k {ax}) (fun _ => Return k)) l)', oz, inp, 'emulator'))
                corr_terms.append((f'(axis_ok {zlit(a0)} {zlit(st)} {n}, line_slice_ok {zlit(a0)} {zlit(st)} {n} {coq_slice(t)}, '
                                   f'oracle_ok {zlit(a0)} {zlit(st)} {n} {coq_slice(t)})',
                                   (axis_ok, in_grammar, oracle_ok), inp, 'guard'))
                if not (in_grammar and axis_ok):
                    R.count('line_slice_outside_grammar')
                    R.case((c.name, show(prog)), nontrivial=False)
                    continue
                if not oracle_ok:
                    R.count('line_slice_outside_oracle_guard')
                    if os_ == oz:
                        R.notes.append(f'segyio no longer wraps a stop below zero: {inp}')
                    R.case((c.name, show(prog)), nontrivial=False)
                    continue
                R.count('line_slice_in_grammar')
                if oz == REJ:
                    R.violation('oracle', inp, 'a slice of the documented grammar is rejected by the emulator')
            elif kind == 'line_int':
                a0, st, n = c.ax(prog[1])
                ax = f'(axis {zlit(a0)} {zlit(st)} {n})'
                corr_terms.append((f'bind (segyio_line_int {ax} {zlit(prog[2])}) (fun k => Return [k])', os_, inp, 'segyio'))
                corr_terms.append((f'bind (sla_getitem_int {ax} {zlit(prog[2])}) (fun k => bind (coord_to_index k {ax}) '
                                   f'(fun _ => Return [k]))', oz, inp, 'emulator'))
            elif kind == 'line_iter':
                a0, st, n = c.ax(prog[1])
                ax = f'(axis {zlit(a0)} {zlit(st)} {n})'
                corr_terms.append((f'segyio_line_iter {ax}', os_, inp, 'segyio'))
                corr_terms.append((f'acc_iter (sla_getitem_slice {ax})', oz, inp, 'emulator'))
            elif kind in ('ord_slice', 'ord_int', 'ord_iter'):
                n = {'depth_slice': c.ns, 'trace': c.ntr, 'header': c.ntr}[prog[1]]
                if kind == 'ord_slice':
                    corr_terms.append((f'segyio_seq_slice {n} {coq_slice(prog[2])}', os_, inp, 'segyio'))
                    corr_terms.append((f'acc_getitem_slice {n} {coq_slice(prog[2])}', oz, inp, 'emulator'))
                elif kind == 'ord_int':
                    corr_terms.append((f'bind (segyio_wrapindex {n} {zlit(prog[2])}) (fun j => Return [j])', os_, inp, 'segyio'))
                    corr_terms.append((f'bind (acc_getitem_int {n} {zlit(prog[2])}) (fun j => if (0 <=? j) && (j <? {n}) '
                                       f'then Return [j] else Raise IndexErr)', oz, inp, 'emulator'))
                else:
                    corr_terms.append((f'acc_iter (acc_getitem_slice {n})', oz, inp, 'emulator'))
                if prog[1] == 'header' and ps is not None and pz is not None and ps != pz:
                    bad = [(i, kk, x[kk], y.get(kk)) for i, (x, y) in enumerate(zip(ps, pz)) for kk in x if x[kk] != y.get(kk)]
                    R.violation('oracle', inp, f'header values differ from segyio (item, field, segyio, emulator): {bad[:4]}')
            elif kind == 'attributes':
                sb = prog[2]
                if isinstance(sb, int):
                    corr_terms.append((f'segyio_attr_int {c.ntr} {zlit(sb)}', ('attrlen', os_), inp, 'segyio'))
                    # D25: an integer subscript -- scalar (or IndexError) instead of a 1-element / empty array
                    R.count('attributes_int')
                    if os_ != oz:
                        known('D25-attributes-int-subscript', inp, f'segyio {os_} emulator {oz}')
                    R.case((c.name, show(prog)), nontrivial=False)
                    continue
                if oz == REJ and os_ != REJ and len(set(os_[2])) <= 1:
                    # D28: a field with one value in every trace is not stored as an array; get_tracefield_1d raises KeyError
                    R.count('attributes_constant_field_rejected')
                    known('D28-attributes-constant-field', inp, f'segyio {str(os_)[:80]} emulator rejects: the field is constant in the file')
                    R.case((c.name, show(prog)), nontrivial=False)
                    continue
            elif kind == 'text':
                raw = open(c.sgy, 'rb').read(3200)
                if ps is not None and pz is not None and os_ == oz:
                    diff = [i for i in range(3200) if ps[i] != pz[i]]
                    out = [i for i in diff if raw[i] in AGREE]
                    if out:
                        R.violation('oracle', inp, f'text[0] differs from segyio at columns {out[:5]} although cp037 and '
                                                   f'segyio translate these codes alike')
                    elif diff:
                        i = diff[0]
                        known('D24-text-ebcdic-table', inp, f'text[0][{i}]: EBCDIC code {raw[i]:#x} is {ps[i]:#x} for segyio and '
                                                             f'{pz[i]:#x} for the emulator ({len(diff)} columns)')
            # ---- the direct oracle: same observation
            if os_ != oz:
                R.violation('oracle', inp, f'segyio {str(os_)[:300]} emulator {str(oz)[:300]}')
            if os_ == REJ:
                R.count('rejected_by_segyio')
            R.case((c.name, show(prog)), nontrivial=nontrivial,
                   sample={'cube': c.name, 'expr': show(prog), 'observation': str(oz)[:120]} if kind == 'line_slice' and rng.random() < 0.02 else None)

        # ---- tools.dt, tools.cube
        inp = {'cube': cube, 'expr': 'tools.dt'}
        try:
            ds_ = float(segyio.tools.dt(s))
        except Exception as e:
            ds_ = canon_exc(e)
        try:
            dz_ = float(seismic_zfp.tools.dt(z))
        except Exception as e:
            dz_ = canon_exc(e)
        R.count('dt')
        R.case((c.name, 'dt'))
        if ds_ != dz_:
            R.violation('oracle', inp, f'segyio.tools.dt {ds_} seismic_zfp.tools.dt {dz_}')
        inp = {'cube': cube, 'expr': 'tools.cube'}
        cs_ = segyio.tools.cube(c.sgy)
        cz_ = seismic_zfp.tools.cube(c.sgz)
        R.count('cube')
        R.case((c.name, 'cube'))
        if cs_.shape != cz_.shape or cs_.dtype != cz_.dtype or not bits_equal(cz_, c.vol):
            R.violation('oracle', inp, f'shape/dtype {cs_.shape} {cs_.dtype} vs {cz_.shape} {cz_.dtype}; equal to decoded volume: {bits_equal(cz_, c.vol)}')
        # high bit rate: the decoded volume is the source to within the codec's error (sanity of the set-up, not the property)
        err = float(np.max(np.abs(c.vol - c.data))) / (float(np.max(np.abs(c.data))) + 1e-30)
        if err > 1e-2:
            R.notes.append(f'{c.name}: decoded volume differs from the source by {err:.3g} relative')

        # ---- an ordinary sweep on ONE open file: every inline in axis order, with a read through ANOTHER accessor in between
        # (the accessors of one emulator share the file handle); every plane must be that of the decoded volume
        if only is None:
            inp = {'cube': cube, 'expr': 'for n in ilines: iline[n]; header[k]; xline[m]; trace[t]'}
            R.count('interleaved_sweep')
            R.case((c.name, 'interleaved sweep'))
            try:
                for i_, n_ in enumerate(c.ilines):
                    pl = np.asarray(z.iline[int(n_)])
                    if not bits_equal(pl, c.vol[i_]):
                        R.violation('oracle', inp, f'iline[{int(n_)}] in the sweep is not the inline of the decoded volume')
                        break
                    _ = z.header[(7 * i_) % c.ntr]
                    if i_ % 2:
                        xv = np.asarray(z.xline[int(c.xlines[i_ % len(c.xlines)])])
                        if not bits_equal(xv, c.vol[:, i_ % len(c.xlines)]):
                            R.violation('oracle', inp, f'xline[{int(c.xlines[i_ % len(c.xlines)])}] in the sweep is not the crossline of the decoded volume')
                            break
                    else:
                        tv = np.asarray(z.trace[(5 * i_) % c.ntr])
                        t_ = (5 * i_) % c.ntr
                        if not bits_equal(tv, c.vol[t_ // len(c.xlines), t_ % len(c.xlines)]):
                            R.violation('oracle', inp, f'trace[{t_}] in the sweep is not the trace of the decoded volume')
                            break
            except Exception as e:
                R.violation('oracle', inp, f'the sweep raised {type(e).__name__}: {e}')

        # ---- subvolume (oracle: the decoded volume sliced by coordinates; segyio's own lines at those coordinates)
        zs = [int(v) for v in np.asarray(z.samples)]
        axes = [c.ilines, c.xlines, zs]
        tol = float(np.max(np.abs(c.vol - c.data))) * 1.0001 + 1e-30
        if only is None:
            sub_cases = systematic_sub(axes, 10 if quick else None) + [gen_sub(axes) for _ in range(25 if quick else 250)]
        else:
            sub_cases = [parse_sub(e) for e in only if e.startswith('subvolume[')]
        if len(zs) > 1 and zs[1] == zs[0]:
            # a sample interval below 1 ms: the accessor's integer sample axis has increment 0; subvolume[...] by sample coordinate
            # is not defined on it (outside the documented grammar: "steps being multiples of the increment")
            sub_cases = []
            R.count('cube_with_sub_millisecond_interval_no_subvolume')
        for t3 in sub_cases:
            want, expect_rej, sel = classify_sub(t3, axes)
            expr = 'subvolume[' + ', '.join(slstr(t) for t in t3) + ']'
            inp = {'cube': cube, 'expr': expr}
            try:
                got = np.array(z.subvolume[osl(t3[0]), osl(t3[1]), osl(t3[2])], copy=True)
                og = ('value', got.shape)
            except Exception as e:
                got, og = None, canon_exc(e)
            R.count('subvolume')
            term = f'sub_getitem {coq_list(c.ilines)} {coq_list(c.xlines)} {coq_list(zs)} {coq_slice(t3[0])} {coq_slice(t3[1])} {coq_slice(t3[2])}'
            corr_terms.append((term, ('subvol', og), inp, 'emulator'))
            for (st, sp, kk), ax in zip(t3, axes):
                if ax[1] - ax[0] < 0 and (st is not None or sp is not None):
                    R.count('subvolume_descending_explicit' + ('_rejected' if expect_rej else ''))
                    if kk is not None and kk < 0 and not expect_rej:
                        R.count('subvolume_descending_explicit_negative_step')
                if (st == 0 or sp == 0) and not expect_rej:
                    R.count('subvolume_bound_exactly_zero')
                    if sp == 0 or ax.index(0) > 0:
                        R.count('subvolume_bound_exactly_zero_not_first_coordinate')
            if expect_rej:
                R.case((c.name, expr))
                R.count('subvolume_rejected')
                if og != REJ:
                    R.violation('oracle', inp, f'coordinates outside the axes accepted: {og}')
                continue
            R.case((c.name, expr))
            exp = c.vol[want[0], want[1], want[2]]
            if got is None or not bits_equal(got, exp):
                R.violation('oracle', inp, f'got {og}, expected the decoded volume sliced {want} (shape {exp.shape})')
                continue
            # segyio has no subvolume; its equivalent is built from its lines at the same coordinates
            try:
                seg = segyio_subvolume(s, sel)
            except Exception as e:
                R.violation('oracle', inp, f'segyio has no lines / samples at the coordinates {sel}: {type(e).__name__} {e}')
                continue
            R.count('subvolume_vs_segyio')
            if seg.shape != got.shape or not np.all(np.abs(seg.astype(np.float64) - got.astype(np.float64)) <= tol):
                R.violation('oracle', inp, f'differs from segyio\'s lines at the coordinates {sel}: shapes {seg.shape} {got.shape}, '
                                           f'codec error bound of this file {tol:.3g}')
    return len(R.violations) - nviol0


def cubes():
    cfg = [((1, 1, 5), (20, 1, 5), 8, 0, 4000),            # the shape of the repository's fixture
           ((9, -2, 5), (10, 3, 4), 12, 0, 4000),          # descending inlines, stepped crosslines
           ((2, 4, 6), (40, -5, 5), 9, 100, 2000),         # stepped inlines, descending crosslines
           ((8, -1, 4), (12, -3, 5), 5, 0, 1000),          # both descending; crosslines end at line number 0
           ((0, 2, 3), (7, 1, 7), 16, 8, 4000),            # inline number 0 on an ascending axis
           ((100, 10, 2), (3, -1, 2), 4, 0, 4000),         # two lines per axis
           ((5, 1, 3), (30, 2, 3), 150, 0, 2000),          # traces longer than one z-block (16 bit: 128 samples per block)
           ((3, 2, 16), (50, -1, 8), 5, 0, 4000),          # 128 traces: every stored header array is exactly 512 bytes (footer stride boundary)
           ((-6, 3, 6), (-4, 4, 5), 12, -16, 4000),        # axes running through 0 (0 not first): lines -6..9, -4..12, samples -16..28 ms
           ((6, -3, 5), (8, -4, 3), 7, -8, 2000)]          # descending through 0: lines 6..-6, 8,4,0 ; samples -8..4 ms
    # sample intervals that are not exactly representable in binary, with the sample counts for which a float arange would
    # come out one element long (0.8 ms x 48, 0.4 ms x 24, 0.1 ms x 12): `samples`, len(depth_slice), trace lengths
    cfg += [((1, 1, 4), (20, 1, 5), 48, 0, 800), ((3, 2, 3), (9, -1, 4), 24, 0, 400)] + ([] if quick else [((2, 1, 3), (5, 1, 3), 12, 0, 100), ((2, 1, 3), (5, 1, 3), 96, 0, 800)])
    nrand = 3 if quick else 24
    for _ in range(nrand):
        def axis():
            n = rng.choice([2, 3, 4, 5, 6, 7, 8, 9])
            s = rng.choice([1, 1, 2, 3, 5, -1, -1, -2, -3, -4])
            lo = rng.choice([0, 1, 2, 10, 100, 1000])
            return (lo, s, n) if s > 0 else (lo + (n - 1) * (-s), s, n)
        cfg.append((axis(), axis(), rng.choice([4, 5, 6, 7, 8, 11, 13, 16]), rng.choice([0, 0, 4, 100]), rng.choice([4000, 2000, 1000])))
    return cfg


try:
    if a.replay:
        rp = json.load(open(a.replay))
        cu = rp['input']['cube']
        il = (cu['ilines'][0], cu['ilines'][1] - cu['ilines'][0], len(cu['ilines']))
        xl = (cu['xlines'][0], cu['xlines'][1] - cu['xlines'][0], len(cu['xlines']))
        run_cube(0, Cube(0, il, xl, cu['ns'], cu['t0'], cu['dt_us']), only=[rp['input']['expr']])
    else:
        for k, (il, xl, ns, t0, dt_us) in enumerate(cubes()):
            c = Cube(k, il, xl, ns, t0, dt_us)
            run_cube(k, c)

    # ------------------------------------------------------------------ correspondence with the Coq model
    if not a.no_model and corr_terms:
        vals = coq_eval(['SZ.Lib.Py', 'SZ.Model.Accessors', 'SZ.Gen.Accessors'], [t for t, _, _, _ in corr_terms])
        for (term, obs, inp, side), v in zip(corr_terms, vals):
            R.count('corr_' + side)
            if side == 'guard':
                got = parse_value(v)
                if tuple(got) != tuple(obs):
                    R.violation('corr', inp, f'guards (axis_ok, line_slice_ok, oracle_ok): Coq {got}, harness {obs}')
                continue
            m = parse_outcome(v)
            if side == 'emulator' and isinstance(obs, tuple) and obs and obs[0] == 'subvol' and m != REJ:
                # Coq prints ((a, b, c), t2, t3) as (a, b, c, t2, t3)
                m = (tuple(m[:3]), tuple(m[3]), tuple(m[4]))
            if isinstance(obs, tuple) and obs and obs[0] == 'attrlen':
                o = obs[1]
                want = REJ if o == REJ else (o[2] if o[0] == 'value' else o)
                # the model yields ordinals; segyio yields the field values at those ordinals: compare the count
                if (m == REJ) != (want == REJ) or (m != REJ and len(m) != len(want)):
                    R.violation('corr', inp, f'{side}: model {m}, implementation {o}')
                continue
            if isinstance(obs, tuple) and obs and obs[0] == 'subvol':
                o = obs[1]
                if m == REJ or o == REJ:
                    # the accessor model ends where read_subvolume begins: an empty ordinal range is rejected there (C14)
                    if m != REJ and o == REJ:
                        (i0, i1, _), (x0, x1, _), (z0, z1, _) = m
                        if i0 < i1 and x0 < x1 and z0 < z1:
                            R.violation('corr', inp, f'emulator rejects, model {m}')
                    elif m == REJ and o != REJ:
                        R.violation('corr', inp, f'model rejects, emulator {o}')
                    continue
                shape = tuple(len(range(p, q)[::r]) for (p, q, r) in m)
                if shape != tuple(o[1]):
                    R.violation('corr', inp, f'model ordinal ranges {m} give shape {shape}, emulator {o[1]}')
                continue
            if obs == REJ or (isinstance(obs, tuple) and obs and obs[0] in ('error', 'nomatch')):
                if m != REJ or obs != REJ:
                    if not (m == REJ and obs == REJ):
                        R.violation('corr', inp, f'{side}: model {m}, implementation {obs}')
                continue
            keys = obs[2]
            if m == REJ or list(m) != list(keys):
                R.violation('corr', inp, f'{side}: model {m}, implementation {keys}')
    R.notes.append(f'cp037 and segyio\'s EBCDIC table agree on {len(AGREE)} of 256 codes')
finally:
    shutil.rmtree(d, ignore_errors=True)
R.write(a.out)
