#!/usr/bin/env python3
"""Harness for C10 (cropping).

For sources of several shapes (each horizontal dimension over the residues mod 4, the sample axis over 1..3 blocks of
the layout's block length), bit rates 16 .. 1/2, default and other layouts, 0..6 stored header arrays (NumPy and SEG-Y
routes, fixtures of older format versions), ascending / descending / negative axes, and boxes from the boundary set of
every axis (None, whole, aligned, unaligned, touching the end, single line; empty, inverted, outside), by index and by
coordinate; and sources CONVERTED FROM ZGY (small cubes written with pyzgy, > 1 block along z, first sample times that are
zero / negative / between two milliseconds, intervals of 4, 2.5, 2, 0.5, 0.25 ms), whose sample axis lives in the doubles at header
bytes 84:100 (D55):

  correspondence  the model (Model/Cropper.v over Gen/Cropping.v and Gen/Reader.v, evaluated inside Coq through
                  tools/coqeval.py) against the real cropper: same outcome (served / IndexError / packing error); the
                  output header equals the source header patched with the model's fields; the output data section
                  equals the source byte ranges the model's reads place; every footer array equals the source array
                  permuted by the model's index function, followed by the model's padding.  The header comparison
                  includes the double patch (bytes 84:92): the model's binary64 value (Coq's SpecFloat, evaluated on the
                  doubles of the source header) is packed and compared byte for byte.
  oracle          (specification decoder hz.SpecFile + the reader, never the model) the cropped file conforms
                  (length = expected_length()), its decoded volume is bitwise the source's decoded volume restricted
                  to the box widened outward to block boundaries and clipped, every read method and header accessor
                  of the cropped file equals the source's restricted to that box, axes are the sub-ranges (sample axis:
                  atol 1e-9), it is structured with trace count = the box; header bytes 76:100 (source / detection codes,
                  the two doubles): the double interval and the codes are the source's, the double start is the source's
                  sample time at the first sample of the box when the double interval is non-zero, else untouched;
                  refusals raise IndexError and leave no file.
"""
import os, sys, glob, struct, atexit, math
sys.path.insert(0, os.path.dirname(os.path.abspath(__file__)))
from common import *
a = parse_args()
from hz import *
import coqeval
from coqeval import coq_eval, parse_value, zlit
if os.environ.get('VERIF_COQ'):          # development only: a private copy of the compiled Coq tree
    coqeval.COQ = os.environ['VERIF_COQ']

R = Result('one case = (source file: route/shape/rate/layout/axes/header arrays, by index or by coordinate, three ranges); '
           'non-trivial = distinct canonical case that is served (a file is written and compared) or refused because of its '
           'ranges / layout; ranges per axis from the boundary set {None, whole, first block, interior block, unaligned, '
           'block +-1, last line, last block; empty, inverted, negative, past the end}, combined by seeded sampling')
rng = random.Random(a.seed * 7919 + 31)
d = scratch_dir()
atexit.register(lambda: shutil.rmtree(d, ignore_errors=True))
QUICK = a.tier == 'quick'
TF = segyio.TraceField
KNOWN_Z = 'D7h-crop-start-time-not-whole-ms'


# ------------------------------------------------------------------------------------------------ sources
def axis(n, first, step):
    return first + step * np.arange(n)


def build_source(desc, path):
    """desc: dict. kind numpy|segy|fixture|irregular|2d|zgy"""
    g = random.Random(desc['seed'])
    k = desc['kind']
    if k == 'fixture':
        shutil.copy(desc['file'], path)
        return
    if k == 'zgy':
        # a cube written with pyzgy and converted by the ZGY route: the sample axis is stored in the doubles at 84:100
        from pyzgy.write import SeismicWriter
        from seismic_zfp.conversion import ZgyConverter
        shape = tuple(desc['shape'])
        zp = path + '.zgy'
        n_il, n_xl = shape[:2]
        a0, ai = desc.get('annot', ((10, 100), (2, 3)))
        with SeismicWriter(zp, size=shape, zstart=float(desc['zstart']), zinc=float(desc['zinc']), annotstart=tuple(a0), annotinc=tuple(ai),
                           corners=[(0.0, 0.0), (100.0 * n_il, 0.0), (0.0, 50.0 * n_xl), (100.0 * n_il, 50.0 * n_xl)]) as w:
            w.write_volume(rnd_cube(g, shape))

        def conv():
            with ZgyConverter(zp) as cv:
                cv.run(path, bits_per_voxel=desc['bpv'])
        quiet(conv)
        os.remove(zp)
        return
    shape = tuple(desc['shape'])
    il = axis(shape[0], *desc.get('il', (1, 1))) if k != '2d' else None
    xl = axis(shape[1], *desc.get('xl', (1, 1))) if k != '2d' else None
    dt_us, t0 = desc.get('dt_us', 4000), desc.get('t0', 0)
    if k == 'numpy':
        data = rnd_cube(g, shape)
        th = None
        nh = desc.get('nhdr', 2)
        if nh != 2:
            th = {TF.INLINE_3D: np.broadcast_to(il[:, None], shape[:2]).astype(np.int32),
                  TF.CROSSLINE_3D: np.broadcast_to(xl[None, :], shape[:2]).astype(np.int32)}
            extra = [TF.CDP_X, TF.CDP_Y, TF.SourceX, TF.offset]
            for j in range(nh - 2):
                th[extra[j]] = (np.arange(shape[0] * shape[1], dtype=np.int32).reshape(shape[:2]) * (j + 3) - 7 * j).astype(np.int32)
        write_numpy_sgz(path, data, bpv=desc['bpv'], blockshape=tuple(desc.get('bs', (4, 4, -1))), ilines=il, xlines=xl,
                        samples=t0 + np.arange(shape[2]) * (dt_us / 1000.0), trace_headers=th)
    elif k in ('segy', 'irregular'):
        data = rnd_cube(g, shape)
        sgy = path + '.sgy'
        nh = desc.get('nhdr', 4)
        present = None
        if k == 'irregular':
            present = np.ones(shape[:2], bool)
            present[0, 0] = present[shape[0] // 2, shape[1] // 2] = False

        def hdr(t, i, x):
            h = {}
            if desc.get('dup'):
                # words 5 duplicates word 1, 81 duplicates 21, 181 duplicates 73; unique varying words interleaved
                h.update({TF.TRACE_SEQUENCE_LINE: 3 * t + 1, TF.TRACE_SEQUENCE_FILE: 3 * t + 1, TF.CDP: 7 * x - i,
                          TF.SourceX: 1000 + 7 * i + x, TF.GroupX: 7 * x - i})
            if nh <= 3:
                h[TF.CDP_Y] = 77
            if nh <= 2:
                h[TF.CDP_X] = 55
            if nh >= 5:
                h[TF.SourceX] = 3 * t - 100
            if nh >= 6:
                h[TF.ShotPoint] = -5 * i + x * x
            return h
        mk_segy(sgy, data, il, xl, dt_us=dt_us, t0=t0, present=present, hdr=hdr)
        write_segy_sgz(sgy, path, bpv=desc['bpv'], blockshape=desc.get('bs'), header_detection=desc.get('hd', 'heuristic'))
        os.remove(sgy)
    elif k == '2d':
        sgy = path + '.sgy'
        mk_segy_2d(sgy, rnd_cube(g, shape))
        write_segy_sgz(sgy, path, bpv=desc['bpv'])
        os.remove(sgy)
    else:
        raise ValueError(k)


def catalogue():
    S = []
    n = [0]

    def add(**kw):
        n[0] += 1
        kw['seed'] = 1000 * a.seed + n[0]
        S.append(kw)
    # default layout, NumPy route: horizontal dimensions over the residues mod 4 (1..3 units), 1..3 blocks along z
    add(kind='numpy', shape=(5, 8, 300), bpv=8, il=(100, 1), xl=(200, 1))
    add(kind='numpy', shape=(8, 13, 600), bpv=8, il=(-20, 2), xl=(-6, 3), dt_us=2000)
    add(kind='numpy', shape=(9, 6, 130), bpv=16, il=(50, -2), xl=(10, 3), dt_us=500, t0=100, nhdr=3)
    add(kind='numpy', shape=(10, 11, 300), bpv=16, il=(5, 1), xl=(-100, -5), nhdr=5)
    add(kind='numpy', shape=(12, 7, 1100), bpv=4, il=(0, 1), xl=(0, 1), dt_us=1000, t0=-200)
    add(kind='numpy', shape=(13, 10, 2100), bpv=2, il=(1000, 10), xl=(3, 7))
    add(kind='numpy', shape=(2, 3, 40), bpv=8)
    # line numbers that are large compared with their increment (a coordinate lookup with a RELATIVE tolerance would take a
    # neighbouring line, or accept a value off the axis)
    add(kind='numpy', shape=(12, 9, 40), bpv=8, il=(200000, 1), xl=(3000000, -2))
    add(kind='numpy', shape=(4, 4, 256), bpv=8, il=(-4, 1), xl=(-1, 1))
    add(kind='numpy', shape=(6, 5, 4200), bpv=0.5, dt_us=2000)
    add(kind='numpy', shape=(4, 4, 300), bpv=16, dt_us=333)                       # D7h: start time between milliseconds
    # SEG-Y route: 2..6 stored header arrays, arrays of < 512, = 512 and > 512 bytes
    add(kind='segy', shape=(8, 12, 300), bpv=8, il=(1, 1), xl=(10, 1), nhdr=4)
    add(kind='segy', shape=(5, 9, 130), bpv=16, il=(-3, 1), xl=(7, 2), nhdr=2, dt_us=2000)
    add(kind='segy', shape=(9, 5, 300), bpv=8, il=(30, -1), xl=(100, 4), nhdr=6, t0=40)
    add(kind='segy', shape=(16, 8, 40), bpv=4, il=(1, 1), xl=(1, 1), nhdr=3)
    add(kind='segy', shape=(13, 11, 260), bpv=8, il=(2, 3), xl=(-50, 5), nhdr=5, dt_us=500)
    # duplicated varying header words interleaved with unique ones (fewer stored arrays than stored keys: D39), many arrays
    add(kind='segy', shape=(6, 9, 130), bpv=16, il=(1, 1), xl=(10, 1), nhdr=4, dup=True)
    add(kind='segy', shape=(9, 7, 300), bpv=8, il=(40, -3), xl=(-8, 2), nhdr=5, dup=True, dt_us=2000)
    add(kind='segy', shape=(5, 6, 40), bpv=8, il=(1, 1), xl=(1, 1), nhdr=4, hd='exhaustive')
    for f in ('padding_7x6.sgz', 'padding_5x8.sgz', 'padding_6x5.sgz'):
        p = os.path.join(REPO, 'test_data', 'padding', f)
        if os.path.exists(p):
            add(kind='fixture', file=p)
    # other layouts: only whole inline blocks can be served
    add(kind='numpy', shape=(20, 20, 40), bpv=8, bs=(8, 8, 64), il=(1, 1), xl=(1, 1))
    add(kind='numpy', shape=(70, 65, 9), bpv=2, bs=(64, 64, 4), il=(-10, 1), xl=(5, 2))
    add(kind='numpy', shape=(9, 17, 300), bpv=8, bs=(4, 8, 128), il=(1, 2), xl=(1, 1))
    add(kind='segy', shape=(17, 9, 20), bpv=4, bs=(16, 16, 32), il=(1, 1), xl=(1, 1), nhdr=4)
    # fixtures: older format versions (no padding / no trace-count field), legacy blockshape, 0 stored arrays
    for f in ('small_8bit.sgz', 'small_4bit.sgz', 'small_v0.0.1.sgz', 'small-dec_8bit.sgz', 'small_8bit-8x8.sgz',
              'small_2bit-64x64.sgz', 'small_05bit.sgz'):
        p = os.path.join(REPO, 'test_data', f)
        if os.path.exists(p):
            add(kind='fixture', file=p)
    # sources that must be refused
    add(kind='irregular', shape=(8, 12, 40), bpv=8, il=(1, 1), xl=(10, 1))
    add(kind='2d', shape=(21, 60), bpv=8)
    for f in ('small-irregular.sgz', 'small-2d.sgz'):
        p = os.path.join(REPO, 'test_data', f)
        if os.path.exists(p):
            add(kind='fixture', file=p, refuse=True)
    # converted from ZGY (D55): > 1 block along z so that sample crops with z0 > 0 exist; start times negative / zero / positive /
    # between two milliseconds (also negative: truncation toward zero), intervals 2.5, 0.5, 2, 0.25, 4 ms (exact in float32, as
    # ZGY stores them); line numbers with increments 1..3
    add(kind='zgy', shape=(5, 6, 300), bpv=8, zstart=-100.0, zinc=2.5)                        # 2 blocks of 256
    add(kind='zgy', shape=(6, 9, 130), bpv=16, zstart=7.5, zinc=0.5, annot=((1, 1), (1, 1)))  # 2 blocks of 128
    add(kind='zgy', shape=(8, 5, 520), bpv=4, zstart=1000.25, zinc=2.0, annot=((7, 300), (3, 2)))    # 2 blocks of 512
    add(kind='zgy', shape=(4, 4, 300), bpv=16, zstart=-100.5, zinc=0.25, annot=((2, 1), (1, 2)))     # 3 blocks of 128
    add(kind='zgy', shape=(9, 7, 600), bpv=8, zstart=0.0, zinc=4.0, annot=((1000, 5), (10, 1)))      # 3 blocks of 256
    if not QUICK:
        add(kind='numpy', shape=(7, 9, 4200), bpv=1, il=(1, 1), xl=(1, 1))
        add(kind='numpy', shape=(11, 12, 700), bpv=8, il=(9, -1), xl=(9, -1), nhdr=4)
        add(kind='numpy', shape=(6, 6, 8300), bpv=0.25)
        add(kind='segy', shape=(3, 7, 600), bpv=8, il=(-9, 4), xl=(-70, 10), nhdr=4, dt_us=250, t0=12)
        add(kind='segy', shape=(7, 3, 150), bpv=16, il=(1, 1), xl=(1, 1), nhdr=2)
        add(kind='numpy', shape=(130, 70, 5), bpv=2, bs=(64, 64, 4))
        add(kind='numpy', shape=(12, 12, 300), bpv=4, bs=(8, 4, 256))
        for _ in range(6):
            sh = (rng.randrange(2, 14), rng.randrange(2, 14), rng.choice([60, 130, 300, 520]))
            add(kind=rng.choice(['numpy', 'segy']), shape=sh, bpv=rng.choice([8, 16]), il=(rng.randrange(-50, 50), rng.choice([1, 2, -1, -3])),
                xl=(rng.randrange(-50, 50), rng.choice([1, 5, -2])), nhdr=rng.choice([2, 3, 4, 5]), dt_us=rng.choice([4000, 2000, 1000, 500]))
        add(kind='zgy', shape=(3, 10, 1100), bpv=2, zstart=-2000.0, zinc=1.0)                          # 2 blocks of 1024
        add(kind='zgy', shape=(7, 7, 400), bpv=16, zstart=-0.75, zinc=0.125, annot=((5, 5), (2, 2)))   # 4 blocks of 128
        for _ in range(3):
            add(kind='zgy', shape=(rng.randrange(2, 10), rng.randrange(2, 10), rng.choice([260, 300, 520])), bpv=rng.choice([8, 16]),
                zstart=rng.choice([-512.5, -3.25, 0.0, 0.5, 12.0, 250.75]), zinc=rng.choice([0.5, 1.0, 2.0, 2.5, 4.0]),
                annot=((rng.randrange(1, 50), rng.randrange(1, 50)), (rng.choice([1, 2, 3]), rng.choice([1, 2, 3]))))
    return S


# ------------------------------------------------------------------------------------------------ boxes
def axis_ranges(n, m):
    """(valid, invalid) candidate ranges of an axis of length n with block length m"""
    V = [None, (0, n), (0, min(m, n)), (n - 1, n), (0, 1)]
    if n > 2:
        V += [(1, n - 1), (1, 2)]
    if 2 * m <= n:
        V += [(m, 2 * m), (m - 1, m + 1), (m, m + 1), (m - 1, m), (0, 2 * m)]
    if m < n:
        V += [(m, n), ((n - 1) // m * m, n), (m - 1, n), (1, m)]
    if 2 * m < n:
        V += [(m + 1, 2 * m + 1), (2 * m, n)]
    V = [v for k, v in enumerate(V) if v not in V[:k] and (v is None or 0 <= v[0] < v[1] <= n)]
    I = [(0, 0), (n, n), (min(m, n), min(m, n)), (n, 0), (n - 1, 1) if n > 2 else (1, 0), (-1, n), (0, n + 1), (n, n + m), (-m, 0),
         (-1, 1), (n - 1, n + 1)]
    I = [v for k, v in enumerate(I) if v not in I[:k]]
    return V, I


def make_cases(n3, m3, nvalid, ninvalid, rows_only):
    Vs, Is = zip(*[axis_ranges(n, m) for n, m in zip(n3, m3)])
    cases = [(None, None, None), ((0, n3[0]), (0, n3[1]), (0, n3[2]))]
    # every valid candidate of every axis at least once, the other axes sampled
    for ax in range(3):
        for v in Vs[ax]:
            c = [rng.choice(Vs[0]), rng.choice(Vs[1]), rng.choice(Vs[2])]
            c[ax] = v
            if rows_only and rng.random() < 0.6:        # other layouts: mostly requests that can be served
                c[1], c[2] = rng.choice([None, (0, n3[1])]), rng.choice([None, (0, n3[2])])
            cases.append(tuple(c))
    while len(cases) < nvalid:
        cases.append((rng.choice(Vs[0]), rng.choice(Vs[1]), rng.choice(Vs[2])))
    for ax in range(3):
        for v in Is[ax]:
            c = [rng.choice(Vs[0]), rng.choice(Vs[1]), rng.choice(Vs[2])]
            c[ax] = v
            cases.append(tuple(c))
    inv = []
    while len(inv) < ninvalid:
        c = [rng.choice(Vs[k] + Is[k]) for k in range(3)]
        inv.append(tuple(c))
    cases += inv
    out = []
    for c in cases:
        if c not in out:
            out.append(c)
    return out


# ------------------------------------------------------------------------------------------------ model side
PREAMBLE = '''
From Coq Require Import Floats.SpecFloat.
Definition pk_code (p : packer) : Z := match p with PkU32 => 0 | PkI32 => 1 | PkBE16 => 2 end.
Definition exn_code (e : exn) : Z := match e with IndexErr => 1 | OtherErr => 2 | _ => 3 end.
(* binary64 = Coq.Floats.SpecFloat at prec 53, emax 1024 (axiom-free); a value is shown as (class, sign, mantissa, exponent) *)
Definition b64_add := SFadd 53 1024.
Definition b64_mul := SFmul 53 1024.
Definition b64_div := SFdiv 53 1024.
Definition b64 (m e : Z) : spec_float := binary_normalize 53 1024 m e false.
Definition b64_of_Z (z : Z) : spec_float := b64 z 0.
Definition b64_is0 (x : spec_float) : bool := SFeqb x (S754_zero false).
Definition sgn (b : bool) : Z := if b then 1 else 0.
Definition show_f (x : spec_float) : Z * Z * Z * Z :=
  match x with
  | S754_zero s => (0, sgn s, 0, 0) | S754_infinity s => (1, sgn s, 0, 0) | S754_nan => (2, 0, 0, 0)
  | S754_finite s m e => (3, sgn s, Zpos m, e)
  end.
(* the double patch of regenerate_header on the doubles D of the source header, for the box of a served crop:
   [(executed, first byte, last byte + 1, value)]; [(-1, 0, 0, _)] when the model is undefined *)
Definition show_f64 (H : hdr) (D : zdbl spec_float) (o : outcome crop_out) : list (Z * Z * Z * (Z * Z * Z * Z)) :=
  match o with
  | Raise _ => []
  | Return R =>
    match crop_f64_fields spec_float b64_add b64_mul b64_div b64_of_Z b64_is0 H D (co_i0 R) (co_i1 R) (co_x0 R) (co_x1 R) (co_z0 R) (co_z1 R) with
    | Some ps => map (fun p => match p with (en, lo, hi, v) => (sgn en, lo, hi, show_f v) end) ps
    | None => [(-1, 0, 0, (2, 0, 0, 0))]
    end
  end.
Definition show (T : list (Z * Z)) (o : outcome crop_out) : Z * list Z * list (Z * Z * Z * Z) * list (Z * Z * Z) * list Z * list Z :=
  match o with
  | Raise e => (exn_code e, [], [], [], [], [])
  | Return R =>
    let c := footer_count (co_foot_shape R) (co_foot_win R) in
    (0, [co_i0 R; co_i1 R; co_x0 R; co_x1 R; co_z0 R; co_z1 R; co_data_len R; co_foot_pad R; c;
         if co_foot_reshape_ok R then 1 else 0],
     map (fun f => match f with (en, lo, hi, p, v) => (lo, hi, pk_code p, v) end)
         (filter (fun f => match f with (en, _, _, _, _) => en end) (co_fields R)), co_reads R,
     map (footer_src_index (co_foot_shape R) (co_foot_win R))
         (if c <=? 400 then zrange 0 c else [0; 1; c / 3; c / 2; c - 2; c - 1]),
     footer_arrays T)
  end.
'''


def opt(r):
    return 'None' if r is None else f'(Some ({zlit(int(r[0]))}, {zlit(int(r[1]))}))'


def coq_f64(x):
    """a Python float as a SpecFloat term (exact)"""
    if math.isnan(x):
        return 'S754_nan'
    sg = 'true' if math.copysign(1.0, x) < 0 else 'false'
    if math.isinf(x):
        return f'(S754_infinity {sg})'
    if x == 0:
        return f'(S754_zero {sg})'
    m, e = math.frexp(x)
    return f'(b64 {zlit(int(m * (1 << 53)))} {zlit(e - 53)})'


def py_f64(v):
    """(class, sign, mantissa, exponent) as shown by the model -> Python float (exact)"""
    cls, sg, m, e = v
    x = 0.0 if cls == 0 else math.inf if cls == 1 else math.nan if cls == 2 else math.ldexp(m, e)
    return -x if sg else x


def model_term(src, mode, ranges):
    H = 'hdr_of_list ' + coqeval.zlist(src['hfields'])
    A = '{| ax_z0_ms := %s; ax_dt_us := %s; ax_xl0 := %s; ax_xl_step := %s; ax_il0 := %s; ax_il_step := %s; ax_z0_sub_us := %s |}' % tuple(
        zlit(v) for v in src['afields'])
    f = 'crop_by_indexes' if mode == 'idx' else 'crop_by_coords'
    T = '[' + '; '.join(f'({k}, {ref})' for k, ref in src.get('table', [])) + ']'
    D = '{| zd84 := %s; zd92 := %s |}' % tuple(coq_f64(x) for x in src['dbl'])
    o = f'({f} ({H}) {A} {opt(ranges[0])} {opt(ranges[1])} {opt(ranges[2])})'
    return f'let o := {o} in (show {T} o, show_f64 ({H}) {D} o)'


# ------------------------------------------------------------------------------------------------ real side
def load_source(desc, path):
    raw = open(path, 'rb').read()
    u = lambda o: struct.unpack('<I', raw[o:o + 4])[0]
    s = lambda o: struct.unpack('<i', raw[o:o + 4])[0]
    src = {'desc': desc, 'path': path, 'raw': raw,
           'hfields': [u(0), u(4), u(8), u(12), s(40), u(44), u(48), u(52), u(56), u(60), u(64), u(68), u(72)],
           'afields': [s(16), s(28), s(20), s(32), s(24), s(36), 0],
           # the doubles at header bytes 84:92 (first sample time, ms) and 92:100 (interval * 1000): non-zero only in files
           # converted from ZGY; the reader takes its sample axis from them whenever the second is non-zero
           'dbl': struct.unpack('<dd', raw[84:100])}
    src['f64_axis'] = src['dbl'][1] != 0
    sp = SpecFile(path)
    src['spec'] = sp
    src['refuse'] = desc.get('refuse') or desc['kind'] in ('irregular', '2d')
    with SgzReader(path) as r:
        src['is2d'] = r.is_2d
        src['bs'] = tuple(int(b) for b in r.blockshape)
        if not r.is_2d:
            src['n3'] = (r.n_ilines, r.n_xlines, r.n_samples)
            src['ilines'], src['xlines'], src['zslices'] = np.array(r.ilines), np.array(r.xlines), np.array(r.zslices)
            src['structured'] = bool(r.structured)
            # modelling assumptions of the generator: axis lengths are the stated counts; structured as modelled
            src['assume_ok'] = (len(r.ilines), len(r.xlines), len(r.zslices)) == src['n3']
            st = lambda ax: int(ax[1] - ax[0]) if len(ax) > 1 else 1
            dt = int(round((r.zslices[1] - r.zslices[0]) * 1000)) if len(r.zslices) > 1 else 1000
            # first sample time = 1000 * z0_ms + sub_us microseconds (sub_us = 0 unless a ZGY source started between milliseconds)
            z0_ms = int(r.zslices[0])
            sub_us = int(round(float(r.zslices[0]) * 1000)) - 1000 * z0_ms
            src['afields'] = [z0_ms, dt, int(r.xlines[0]), st(r.xlines), int(r.ilines[0]), st(r.ilines), sub_us]
            if sub_us != 0 and not src['f64_axis']:
                R.notes.append(f'{desc}: first sample time {r.zslices[0]} is not an integer although the axis comes from the integer fields')
            # modelling convention of the generator (np.int32(self.zslices[k]) = the exact microsecond axis truncated): checked
            # where the cropper can use it, i.e. at every block boundary of the sample axis
            zq = lambda v: -((-v) // 1000) if v < 0 else v // 1000
            for k in range(0, r.n_samples, src['bs'][2]):
                if int(np.int32(r.zslices[k])) != zq(1000 * z0_ms + sub_us + k * dt):
                    R.notes.append(f'{desc}: sample time {r.zslices[k]} at index {k} does not truncate like the exact microsecond axis')
                    src['assume_ok'] = False
            if not src['refuse']:
                src['vol'] = r.read_volume()
                src['keys'] = list(r.stored_header_keys)
                # stored keys with the word each takes its array from; modelling assumption: distinct words, every entry an
                # owner (ref = word) or a reference to an earlier owner, owners = the stated number of arrays
                T = [(int(k), int(r.hw_info.table[int(k)][1])) for k in r.stored_header_keys]
                src['table'] = T
                own = [k for k, ref in T if ref == k]
                seen, okT = [], len({k for k, _ in T}) == len(T)
                for k, ref in T:
                    okT = okT and (ref == k or ref in seen)
                    if ref == k:
                        seen.append(k)
                if not okT or len(own) != r.n_header_arrays:
                    R.notes.append(f'{desc}: header-word table outside the modelled form: {T}, {r.n_header_arrays} arrays')
                    src['assume_ok'] = False
                R.count('sources_with_duplicate_words', 1 if len(own) < len(T) else 0)
                src['hdrs'] = {k: np.array(r.get_tracefield_values(k)) for k in src['keys']}
                nt = r.n_ilines * r.n_xlines
                src['th_idx'] = sorted({0, nt - 1, nt // 2, min(nt - 1, r.n_xlines)})
                src['th'] = {t: dict(r.gen_trace_header(t)) for t in range(nt)} if nt <= 200 else None
                src['padded'] = sp.volume()
                src['text'] = bytes(r.get_file_text_header()[0])
                if not bits_equal(src['padded'][:r.n_ilines, :r.n_xlines, :r.n_samples], src['vol']):
                    R.notes.append(f'source {desc}: reader volume differs from the specification decoder (C01/C02 territory); '
                                   'the specification decoder is used as the reference')
        else:
            src['n3'] = None
    return src


def do_crop(src, out, mode, ranges):
    if os.path.exists(out):
        os.remove(out)
    try:
        with SgzCropper(src['path']) as c:
            # the crop must not depend on what the same cropper object was asked before (a user looks at a tracefield grid or
            # a header to choose the box): every third crop is preceded by such a query
            if True:
                # (a function of the request itself, so that a replayed input takes the same route)
                hsum = sum(int(v) for r_ in ranges if r_ is not None for v in r_ if isinstance(v, (int, np.integer))) + (mode == 'idx')
                hist = hsum % 3
                if (hsum // 3) % 2 == 1:
                    # ... or by a request the cropper must REFUSE (a box far outside the cube, by index): the refusal must
                    # leave nothing behind on the object that changes how the next request is served
                    try:
                        quiet(c.write_cropped_file_by_indexes, out + '.refused', iline_index_range=(10 ** 6, 10 ** 6 + 4))
                    except Exception:
                        pass
                    if os.path.exists(out + '.refused'):
                        os.remove(out + '.refused')
                try:
                    if hist == 1 and c.stored_header_keys:
                        c.get_tracefield_values(c.stored_header_keys[-1])
                    elif hist == 2 and c.tracecount > 0:
                        c.gen_trace_header(c.tracecount - 1)
                except Exception:
                    pass                # (queries a source does not support are not the cropper's concern)
            f = c.write_cropped_file_by_indexes if mode == 'idx' else c.write_cropped_file_by_coords
            quiet(f, out, *ranges)
        return 'ok'
    except struct.error:
        return 'OtherErr'
    except Exception as e:
        return exc_class(e)


def to_coords(src, ranges, bad_axis=None):
    """index ranges -> coordinate ranges on the source axes (the stop may be one step past the end)"""
    out = []
    for k, (r, ax) in enumerate(zip(ranges, (src['ilines'], src['xlines'], src['zslices']))):
        if r is None:
            out.append(None)
            continue
        step = ax[1] - ax[0] if len(ax) > 1 else 1
        c = []
        for v in r:
            c.append(ax[v] if v < len(ax) else ax[-1] + (ax[-1] - ax[-2]) if v == len(ax) and len(ax) > 1 else ax[-1] + 5 * step)
        if bad_axis == k:
            c[0] = c[0] + step / 2 if k == 2 else (ax.min() - 1 if step in (1, -1) else c[0] + (1 if step > 0 else -1))
        out.append(tuple(float(x) if k == 2 else int(x) for x in c))
    return tuple(out)


def coords_for_model(cr):
    """z coordinates in microseconds"""
    return tuple(None if r is None else (r if k < 2 else (int(round(r[0] * 1000)), int(round(r[1] * 1000)))) for k, r in enumerate(cr))


def widened(src, ranges):
    """THE SPECIFICATION of the box (independent of the model): outward to block boundaries, clipped"""
    box = []
    for r, n, m in zip(ranges, src['n3'], src['bs']):
        lo, hi = (0, n) if r is None else r
        box += [lo // m * m, min(n, -(-hi // m) * m)]
    return box


def request_valid(src, ranges):
    if all(r is None for r in ranges):
        return False
    return all(r is None or 0 <= r[0] < r[1] <= n for r, n in zip(ranges, src['n3']))


def diag_c(vol, cd):
    n_il, n_xl = vol.shape[:2]
    return np.array([vol[i, i - cd] for i in range(n_il) if 0 <= i - cd < n_xl])


def diag_a(vol, ad):
    n_il, n_xl = vol.shape[:2]
    return np.array([vol[i, ad - i] for i in range(n_il) if 0 <= ad - i < n_xl])


def same(got, want):
    """bitwise equality; a result that differs only by squeezed unit axes (reader behaviour on single-line files: D22,
    a matter of C02/C14, not of the cropper) is accepted and counted"""
    got = np.asarray(got)
    if got.shape != want.shape and np.squeeze(got).shape == np.squeeze(want).shape:
        R.count('squeezed_result_on_single_line_file')
        got = got.reshape(want.shape)
    return bits_equal(got, want)


def check_output(src, out, box, inp):
    """oracle for a served crop; an accessor of the cropped file that raises is a violation, not a harness failure"""
    try:
        check_output_(src, out, box, inp)
    except Exception as e:
        R.violation('oracle', inp, f'reading the cropped file raised {type(e).__name__}: {str(e)[:200]}')


def check_output_(src, out, box, inp):
    i0, i1, x0, x1, z0, z1 = box
    ni, nx, nz = i1 - i0, x1 - x0, z1 - z0
    V = lambda what, detail: R.violation('oracle', inp, f'{what}: {detail}')
    sp = SpecFile(out)
    size = os.path.getsize(out)
    if size != sp.expected_length():
        V('conformance', f'file has {size} bytes, its header implies {sp.expected_length()}')
        return
    if (sp.n_il, sp.n_xl, sp.n_s) != (ni, nx, nz):
        V('dimensions', f'header says {(sp.n_il, sp.n_xl, sp.n_s)}, widened box is {(ni, nx, nz)}')
        return
    s0 = src['spec']
    if sp.bs != s0.bs or sp.rate != s0.rate or sp.nha != s0.nha or sp.ver != s0.ver or sp.nhb != s0.nhb:
        V('header', 'layout / rate / array count / version / header blocks differ from the source')
    # bytes 76:100: source code, detection code, and the double-precision sample axis of files converted from ZGY (the
    # reader prefers it whenever the double at 92:100 is non-zero)
    with open(out, 'rb') as fo:
        oh = fo.read(100)
    if oh[76:84] != src['raw'][76:84]:
        V('header', 'source / detection codes (bytes 76:84) differ from the source')
    if oh[92:100] != src['raw'][92:100]:
        V('header', f'double interval (bytes 92:100) is {struct.unpack("<d", oh[92:100])[0]}, the source has {src["dbl"][1]}')
    if src['f64_axis']:
        d84 = struct.unpack('<d', oh[84:92])[0]
        if oh[84:92] != struct.pack('<d', float(src['zslices'][z0])):
            V('header', f'double start (bytes 84:92) is {d84!r}; the source\'s sample time at the first sample of the box '
                        f'(index {z0}) is {float(src["zslices"][z0])!r}')
    elif oh[84:92] != src['raw'][84:92]:
        V('header', 'bytes 84:92 changed although the source has no double-precision sample axis')
    if s0.after_021 and sp.tracecount_field != ni * nx:
        V('trace count', f'field says {sp.tracecount_field}, box has {ni * nx}')
    # decoded volume, by the specification decoder: the whole padded output against the padded source
    P = sp.shape_pad
    want_pad = src['padded'][i0:i0 + P[0], x0:x0 + P[1], z0:z0 + P[2]]
    got_pad = sp.volume()
    if not bits_equal(got_pad, want_pad):
        V('decoded volume (specification decoder)', f'{int((got_pad != want_pad).sum()) if got_pad.shape == want_pad.shape else "shape"} cells differ from the source box')
        return
    want = src['padded'][i0:i1, x0:x1, z0:z1]
    with SgzReader(out) as r:
        if not r.structured or r.tracecount != ni * nx:
            V('structured', f'structured={r.structured} tracecount={r.tracecount} for a {ni}x{nx} box')
        if (r.n_ilines, r.n_xlines, r.n_samples) != (ni, nx, nz):
            V('reader dimensions', str((r.n_ilines, r.n_xlines, r.n_samples)))
            return
        if not (np.array_equal(r.ilines, src['ilines'][i0:i1]) and np.array_equal(r.xlines, src['xlines'][x0:x1])):
            V('axes', f'ilines {list(r.ilines)[:3]}.. xlines {list(r.xlines)[:3]}.. are not the source sub-ranges')
        zok = len(r.zslices) == nz and np.allclose(r.zslices, src['zslices'][z0:z1], rtol=0, atol=1e-9)
        dt_us = src['afields'][1]
        # D7h concerns the INTEGER start time: a source converted from ZGY keeps its axis in doubles and must always be right
        guard = src['f64_axis'] or (z0 * dt_us) % 1000 == 0
        if not zok:
            if not guard:
                R.count('known_finding_D7h_cases')
                # (a finding of C10, the property about the cropped axes: under another property's run of this harness -- C14,
                # which is about declared extents -- it is only counted)
                if KNOWN_Z not in R.known and a.pid == 'C10':      # reported once; every further case is only counted
                    R.violation('oracle', inp, f'sample axis starts at {r.zslices[0]} instead of {src["zslices"][z0]}', finding_key=KNOWN_Z)
                    R.known.append(KNOWN_Z)
            else:
                V('sample axis', f'{list(r.zslices[:2])} vs {list(src["zslices"][z0:z0 + 2])}')
        elif not guard and not np.allclose(src['zslices'][z0], round(src['zslices'][z0])):
            V('sample axis', 'guard of D7h fails but the axis is right: the finding no longer reproduces')
        # every read method
        if not same(r.read_volume(), want):
            V('read_volume', 'differs from the source box')
        for i in sorted({0, ni - 1, ni // 2}):
            if not same(r.read_inline(i), want[i]):
                V('read_inline', f'{i}')
        for x in sorted({0, nx - 1, nx // 2}):
            if not same(r.read_crossline(x), want[:, x]):
                V('read_crossline', f'{x}')
        for z in sorted({0, nz - 1, nz // 2, min(nz - 1, 5)}):
            if not same(r.read_zslice(z), want[:, :, z]):
                V('read_zslice', f'{z}')
        sv = (rng.randrange(ni), rng.randrange(nx), rng.randrange(nz))
        sv2 = (rng.randrange(sv[0], ni) + 1, rng.randrange(sv[1], nx) + 1, rng.randrange(sv[2], nz) + 1)
        if not same(r.read_subvolume(sv[0], sv2[0], sv[1], sv2[1], sv[2], sv2[2]), want[sv[0]:sv2[0], sv[1]:sv2[1], sv[2]:sv2[2]]):
            V('read_subvolume', f'{sv} {sv2}')
        for t in sorted({0, ni * nx - 1, rng.randrange(ni * nx)}):
            if not same(r.get_trace(t), want[t // nx, t % nx]):
                V('get_trace', f'{t}')
        cd = rng.randrange(-(nx - 1), ni)
        if not same(r.read_correlated_diagonal(cd), diag_c(want, cd)):
            V('read_correlated_diagonal', f'{cd}')
        ad = rng.randrange(0, ni + nx - 1)
        if not same(r.read_anticorrelated_diagonal(ad), diag_a(want, ad)):
            V('read_anticorrelated_diagonal', f'{ad}')
        # header accessors
        if list(r.stored_header_keys) != src['keys']:
            V('stored header keys', f'{r.stored_header_keys} vs {src["keys"]}')
        else:
            for k in src['keys']:
                got = np.array(r.get_tracefield_values(k))
                if got.shape != (ni, nx) or not np.array_equal(got, src['hdrs'][k][i0:i1, x0:x1]):
                    V('tracefield values', f'{k}')
                g1 = np.array(r.get_tracefield_1d(k))
                if not np.array_equal(g1, src['hdrs'][k][i0:i1, x0:x1].reshape(-1)):
                    V('tracefield 1d', f'{k}')
            if src['th'] is not None:
                r.clear_variant_headers()
                for t in sorted({0, ni * nx - 1, rng.randrange(ni * nx)}):
                    ts = (t // nx + i0) * src['n3'][1] + (t % nx + x0)
                    for la in (False, True):
                        if dict(r.gen_trace_header(t, load_all_headers=la)) != src['th'][ts]:
                            V('gen_trace_header', f'trace {t} (source trace {ts}) load_all_headers={la}')
        if sp.nhb > 1 and r.get_file_binary_header()[segyio.BinField.Samples] != nz:
            V('binary header', 'sample count is not the box')
        if bytes(r.get_file_text_header()[0]) != src['text']:
            V('text header', 'differs from the source')


MODEL_F64_UNDEFINED = []


def check_corr(src, out, res, m, inp):
    """model outcome m = (code, nums, fields, reads, idx, arrays, double patches) against the real result"""
    C = lambda detail: R.violation('corr', inp, detail)
    code = m[0]
    mres = {0: 'ok', 1: 'IndexErr', 2: 'OtherErr'}.get(code, 'other')
    if src['is2d']:
        # the model is 3D only; both must refuse (the implementation may fail on a missing attribute first)
        if res == 'ok' or mres == 'ok':
            C(f'2D source: implementation {res}, model {mres}')
        return
    if mres != res:
        C(f'implementation: {res}; model: {mres}')
        return
    if res != 'ok':
        return
    nums, fields, reads, idx = m[1], m[2], m[3], m[4]
    i0, i1, x0, x1, z0, z1, dlen, fpad, cnt, reshape_ok = nums
    raw, o = src['raw'], open(out, 'rb').read()
    nhb = src['hfields'][0]
    hb = bytearray(raw[:4096 * nhb])
    try:
        for lo, hi, pk, v in fields:
            hb[lo:hi] = struct.pack({0: '<I', 1: '<i', 2: '>H'}[pk], v)
    except struct.error as e:
        C(f'model field does not pack: {e}')
        return
    # the double patch (D55): the model's binary64 value, packed; nothing but the listed patches may differ from the source
    f64 = m[6]
    if any(en < 0 for en, _, _, _ in f64):
        # (reported once: it is a property of the generated statement, not of the input; the oracles go on)
        if not MODEL_F64_UNDEFINED:
            C('the model of the double patch is undefined (the guard of the generated statement is not the reader\'s branch test '
              'on bytes 92:100): header bytes 84:100 are left to the oracle')
            MODEL_F64_UNDEFINED.append(True)
        hb[84:100] = o[84:100]
        f64 = []
    else:
        for en, lo, hi, v in f64:
            if en:
                hb[lo:hi] = struct.pack('<d', py_f64(v))
        if [bool(en) for en, _, _, _ in f64] != [src['f64_axis']]:
            C(f'model: double patch executed = {[en for en, _, _, _ in f64]} for a source whose double interval is {src["dbl"][1]}')
    if bytes(hb) != o[:4096 * nhb]:
        diff = [k for k in range(4096 * nhb) if hb[k] != o[k]][:8]
        C(f'output header differs from the source header patched with the model fields at bytes {diff}')
    sp = src['spec']
    buf = bytearray(dlen)
    for off, ln, pos in reads:
        buf[pos:pos + ln] = sp.data[off:off + ln]
    if bytes(buf) != o[4096 * nhb:4096 * nhb + dlen] or len(buf) != dlen:
        C(f'output data section ({dlen} bytes) is not the source ranges the model places ({len(reads)} reads)')
    if not reshape_ok:
        C('model: reshape rejected but the implementation wrote the file')
    arrays = m[5]            # source array numbers in the order the model writes them
    nha = len(arrays)
    if len(o) != 4096 * nhb + dlen + nha * (4 * cnt + fpad):
        C(f'output length {len(o)}; model: header {4096 * nhb} + data {dlen} + {nha} arrays of {4 * cnt}+{fpad}')
        return
    js = list(range(cnt)) if cnt <= 400 else [0, 1, cnt // 3, cnt // 2, cnt - 2, cnt - 1]
    for k in range(nha):
        sa = sp.footer_array(arrays[k])
        base = 4096 * nhb + dlen + k * (4 * cnt + fpad)
        oa = np.frombuffer(o[base:base + 4 * cnt], dtype='<i4')
        if any(oa[j] != sa[s] for j, s in zip(js, idx)):
            C(f'footer array {k}: entries differ from the source entries the model selects')
        if any(o[base + 4 * cnt: base + 4 * cnt + fpad]):
            C(f'footer array {k}: padding is not zero')


# ------------------------------------------------------------------------------------------------ main
def main():
    descs = catalogue()
    if a.replay:
        rp = json.load(open(a.replay))
        descs = [rp['input']['source']]
    sources, plan = [], []
    for n, desc in enumerate(descs):
        p = os.path.join(d, f'src{n}.sgz')
        build_source(desc, p)
        src = load_source(desc, p)
        sources.append(src)
        if a.replay:
            plan.append((src, rp['input']['mode'], tuple(None if r is None else tuple(r) for r in rp['input']['ranges']),
                         tuple(None if r is None else tuple(r) for r in rp['input']['index_ranges'])))
            continue
        if src['is2d']:
            plan += [(src, 'idx', ((0, 4), None, None), None), (src, 'idx', (None, (0, 4), None), None)]
            continue
        if not src['assume_ok']:
            R.notes.append(f'{desc}: outside the modelled form (axis lengths vs stated counts, D14; or header-word table): source skipped')
            R.count('skipped_source')
            continue
        n3, bs = src['n3'], src['bs']
        rows_only = bs[:2] != (4, 4)
        big = n3[0] * n3[1] * n3[2] > 150000
        nv, ninv = (14, 4) if src['refuse'] else ((30, 8) if (QUICK and big) else (46, 10) if QUICK else (110, 25))
        cases = make_cases(n3, bs, nv, ninv, rows_only)
        for ci, c in enumerate(cases):
            mode = 'coords' if (ci % 3 == 2 and min(n3) >= 2) else 'idx'
            if mode == 'coords':
                badax = None
                if ci % 12 == 11:
                    given = [k for k in range(3) if c[k] is not None]
                    badax = rng.choice(given) if given else None
                # coordinates exist only for indexes inside [0, n]; other index ranges stay index crops
                if any(r is not None and not (0 <= r[0] <= n and 0 <= r[1] <= n) for r, n in zip(c, n3)):
                    mode = 'idx'
                else:
                    cr = to_coords(src, c, badax)
                    plan.append((src, 'coords', cr, None if badax is not None else c))
                    continue
            plan.append((src, 'idx', c, c))
    # ---- the model on every case, inside Coq
    models = None
    if not a.no_model:
        terms = []
        for src, mode, ranges, _ in plan:
            if src['is2d']:
                terms.append(model_term(src, 'idx', ranges))
            else:
                terms.append(model_term(src, mode, coords_for_model(ranges) if mode == 'coords' else ranges))
        vals = coq_eval(['SZ.Lib.Py', 'SZ.Gen.Reader', 'SZ.Gen.Cropping', 'SZ.Model.Cropper'], terms, shard=150, preamble=PREAMBLE)
        models = [parse_value(v) for v in vals]
    # ---- the implementation
    out = os.path.join(d, 'out.sgz')
    for n, (src, mode, ranges, idxr) in enumerate(plan):
        desc = {k: v for k, v in src['desc'].items()}
        inp = {'source': desc, 'mode': mode, 'ranges': ranges, 'index_ranges': idxr}
        res = do_crop(src, out, mode, ranges)
        left = os.path.exists(out)
        R.count(f'{src["desc"]["kind"]}:{res}')
        canon = (json.dumps(desc, sort_keys=True, default=str), mode, str(ranges))
        if models is not None:
            check_corr(src, out, res, models[n], inp)
        # ---- oracle
        if res != 'ok' and left:
            R.violation('oracle', inp, f'refused with {res} but a file of {os.path.getsize(out)} bytes was left behind')
        if src['refuse'] or src['is2d']:
            if res == 'ok':
                R.violation('oracle', inp, 'irregular / 2D source was cropped')
            elif res != 'IndexErr' and not (src['is2d'] and mode == 'coords'):
                R.violation('oracle', inp, f'irregular / 2D source refused with {res}, not IndexError')
            R.case(canon, nontrivial=True)
            continue
        if idxr is None:
            # a coordinate that is not on the axis: must be refused
            if res != 'IndexErr':
                R.violation('oracle', inp, f'coordinate off the axis: {res}')
            R.case(canon, nontrivial=True)
            continue
        valid = request_valid(src, idxr)
        if mode == 'coords' and valid:
            # the stop coordinate one step past the end needs two lines on that axis
            valid = all(r is None or r[1] < n or n >= 2 for r, n in zip(idxr, src['n3']))
        if not valid:
            if res != 'IndexErr':
                R.violation('oracle', inp, f'no / empty / inverted / outside range: {res}, not IndexError')
            R.case(canon, nontrivial=True)
            continue
        box = widened(src, idxr)
        servable = src['bs'][:2] == (4, 4) or (box[2:4] == [0, src['n3'][1]] and box[4:6] == [0, src['n3'][2]])
        if not servable:
            if res == 'ok':
                # not refused: then it must at least be right
                check_output(src, out, box, inp)
                R.violation('oracle', inp, 'a layout the cropper cannot re-address was not refused')
            R.case(canon, nontrivial=True)
            continue
        if res != 'ok':
            R.violation('oracle', inp, f'valid request refused: {res}')
            R.case(canon, nontrivial=True)
            continue
        check_output(src, out, box, inp)
        R.case(canon, nontrivial=True, sample={'source': {k: desc[k] for k in desc if k not in ('seed',)}, 'mode': mode,
                                               'ranges': str(ranges), 'box': box})
    R.count('sources', len(sources))
    R.write(a.out)


main()
