#!/usr/bin/env python3
"""Harness for C02 (coherence), C14 (bounds) and C07 (I/O proportionality): correspondence of the generated read
model with the implementation + the properties' direct oracles, on generated files of every layout and on the
fixtures of every format version in test_data."""
import os, sys, glob, itertools
sys.path.insert(0, os.path.dirname(os.path.abspath(__file__)))
from common import *
a = parse_args()
from corr_reads import *
from hz import *

R = Result('one case = (file layout/shape/rate, read method, argument tuple); non-trivial = distinct canonical case '
           'whose expected outcome is data (C02, C07) or a refusal caused by an argument outside the real extent (C14); '
           'cases are boundary values per axis (0, 1, n-1, n, n+1, padded-1, padded, block +-1, negative, far) plus seeded random boxes')
rng = random.Random(a.seed * 7919 + 17)
model = None if a.no_model else Model()
d = scratch_dir()


def io_oracle(fut, method, args, io):
    """C07: every range read lies inside the data section, no byte twice, only blocks holding requested cells"""
    sp = fut.spec
    ds, de = fut.data_start, fut.data_start + 4096 * sp.ndb
    ivs = sorted((o, o + l) for o, l in io if l > 0)
    for (o, e) in ivs:
        if o < ds or e > de:
            return f'range read [{o},{e}) outside the data section [{ds},{de})'
    for (o1, e1), (o2, e2) in zip(ivs, ivs[1:]):
        if o2 < e1:
            return f'bytes [{o2},{min(e1, e2)}) fetched twice within one call'
    touched = set()
    for o, e in ivs:
        touched.update(range((o - ds) // 4096, (e - ds + 4095) // 4096))
    # allowed blocks
    if sp.is2d:
        nt, ns = sp.tracecount, sp.n_s
        if method == 'get_trace':
            box = (args[0], args[0] + 1, 0, ns)
        else:
            box = args[:4]
        allowed = {sp.unit_index(0, xu, zu) * sp.ub // 4096
                   for xu in range(box[0] // 4, (box[1] + 3) // 4) for zu in range(box[2] // 4, (box[3] + 3) // 4)}
    else:
        n_il, n_xl, n_s = sp.n_il, sp.n_xl, sp.n_s
        boxes = []
        if method == 'read_inline':
            i = args[0]; boxes = [(4 * (i // 4), 4 * (i // 4) + 4, 0, n_xl, 0, n_s)]
        elif method == 'read_crossline':
            x = args[0]; boxes = [(0, n_il, 4 * (x // 4), 4 * (x // 4) + 4, 0, n_s)]
        elif method == 'read_zslice':
            z = args[0]; boxes = [(0, n_il, 0, n_xl, z, z + 1)]
        elif method == 'read_volume':
            boxes = [(0, n_il, 0, n_xl, 0, n_s)]
        elif method == 'read_subvolume':
            boxes = [tuple(args[:6])]
        elif method == 'get_trace':
            i, lo, hi = (list(args) + [None, None])[:3]
            if fut.mask is not None:
                i = [k for k, m in enumerate(fut.mask) if m][i]
            boxes = [(i // n_xl, i // n_xl + 1, i % n_xl, i % n_xl + 1, 0 if lo is None else lo, n_s if hi is None else hi)]
        else:
            return None     # diagonals: covered by correspondence with the model (per-trace boxes)
        allowed = set()
        for b in boxes:
            for iu in range(b[0] // 4, (b[1] + 3) // 4):
                for xu in range(b[2] // 4, (b[3] + 3) // 4):
                    for zu in range(b[4] // 4, (b[5] + 3) // 4):
                        allowed.add(sp.unit_index(iu, xu, zu) * sp.ub // 4096)
    extra = touched - allowed
    if extra:
        return f'{len(extra)} disk block(s) fetched that hold no requested sample, e.g. block {min(extra)} (touched {len(touched)}, needed {len(allowed)})'
    return None


def run_file(path, label, n_random, preload=False, extra=()):
    fut = FileUnderTest(path, model, preload=preload)
    # the remote backend: same values, same requests (C07: "the same counts hold for the remote backend")
    blob = FileUnderTest(path, None, backend='blob', share=fut) if (a.pid == 'C07' and not preload) else None
    # C07: opening touches only the header blocks
    if a.pid == 'C07':
        opens = fut.f.log[:]
        exp = [(0, 4096)] + ([(0, 4096 * fut.spec.nhb)] if fut.spec.nhb != 1 else [])
        if not preload and opens[:len(exp)] != exp:
            R.violation('oracle', {'file': label, 'op': 'open'}, f'opening read {opens[:4]}, expected {exp}')
    slabs = []
    if not fut.spec.is2d and a.pid in ('C02', 'C01'):
        # a cube read slab by slab (consecutive calls with the SAME extent, earlier results still held by the caller)
        ni_, nx_, ns_ = fut.spec.n_il, fut.spec.n_xl, fut.spec.n_s
        w_ = max(4, fut.spec.bs[0])
        slabs = [('read_subvolume', (i_, i_ + w_, 0, nx_, 0, ns_)) for i_ in range(0, ni_ - w_ + 1, w_)][:3]
        slabs = slabs if len(slabs) >= 2 else []
    for method, args in list(extra) + list(calls_for(rng, fut, n_random)) + slabs:
        want = fut.oracle(method, args)
        oob = (want[0] == 'err')
        if a.pid == 'C14' and not oob and rng.random() < 0.8:
            continue
        if a.pid in ('C02', 'C07') and oob and rng.random() < 0.7:
            continue
        canon = f'{label}|{method}|{args}'
        if model is not None:
            ok, kind, detail = fut.check(method, args)
        else:
            got, io = fut.impl(method, args)
            ok, kind, detail = True, '', ''
            if want[0] == 'err' and got != want:
                ok, kind, detail = False, 'oracle', f'expected {want[1]}, implementation returned {fut.describe(got)}'
            elif want[0] == 'val' and (got[0] != 'val' or not bits_equal(got[1], want[1])):
                ok, kind, detail = False, 'oracle', 'value differs from specification decode'
        R.count(method)
        R.count('expect_' + (want[1] if oob else 'data'))
        R.case(canon, nontrivial=(oob if a.pid == 'C14' else not oob),
               sample={'file': label, 'call': method, 'args': list(args), 'expected': want[1] if oob else 'data'})
        if not ok:
            R.violation(kind, {'file': label, 'call': method, 'args': list(args), 'path': path}, detail)
        if getattr(fut, 'alias', None):
            m0_, a0_, m1_, a1_ = fut.alias
            R.violation('oracle', {'file': label, 'call': m0_, 'args': a0_, 'then': [m1_, a1_], 'path': path},
                        f'the array returned by {m0_}{tuple(a0_)} was overwritten in place by the later call {m1_}{tuple(a1_)} on the same reader')
            fut.alias = None
            fut._held.clear()
        if a.pid == 'C07' and want[0] == 'val' and not preload:
            got, io = fut.impl(method, args)
            msg = io_oracle(fut, method, args, io)
            if msg:
                R.violation('oracle', {'file': label, 'call': method, 'args': list(args)}, msg)
            if blob is not None and ((method, args) in extra or rng.random() < 0.5):
                bgot, bio = blob.impl(method, args)
                binp = {'file': label, 'call': method, 'args': list(args), 'backend': 'blob'}
                R.count('blob backend calls')
                if bgot[0] != 'val' or not bits_equal(bgot[1], want[1]):
                    R.violation('oracle', binp, 'value read through the blob backend differs from the specification decode')
                else:
                    msg = io_oracle(blob, method, args, bio)
                    if msg:
                        R.violation('oracle', binp, msg)
                    else:
                        blocks = lambda ios: sorted({b for o, l in ios if l > 0 for b in range(o // 4096, (o + l + 4095) // 4096)})
                        if blocks(bio) != blocks(io):
                            R.violation('oracle', binp, f'the blob backend touches other disk blocks than the file backend: '
                                        f'{len(blocks(bio))} vs {len(blocks(io))}, difference {sorted(set(blocks(bio)) ^ set(blocks(io)))[:6]}')
    if a.pid in ('C14', 'C02') and not preload:
        header_ordinals(path, label)
    if a.pid == 'C07' and preload:
        # with preload the data section is fetched exactly once (at construction) and never again
        ds = fut.data_start
        n0 = len(fut.f.log)
        pre = [(o, l) for o, l in fut.f.all if ds <= o < ds + 4096 * fut.spec.ndb]
        if pre != [(ds, 4096 * fut.spec.ndb)]:
            R.violation('oracle', {'file': label, 'op': 'preload'}, f'preload read {pre[:4]}')
    fut.close()
    if blob is not None:
        blob.close()


def header_ordinals(path, label):
    """trace-header reads by ordinal: gen_trace_header (both ways of loading) accepts exactly 0 <= i < tracecount; the
    segyio-style header[] accessor accepts -n <= s < n (Python indexing) and returns the header of trace s mod n; everything
    else is an IndexError, never a header built from footer padding or from another trace"""
    import seismic_zfp as _sz
    with SgzReader(path) as r:
        n = r.tracecount
        ref = {}
        probe = sorted({0, 1, n - 1, n // 2})
        for t in probe:
            ref[t] = {int(k): int(v) for k, v in r.gen_trace_header(t).items()}
        bad_ords = sorted({-1, -2, -n, -n - 1, -2 * n, -2 * n - 1, n, n + 1, 128 * (-(-n // 128)) - 1, 128 * (-(-n // 128)), 10 ** 6} - set(range(n)))
        for lah in (False, True):
            for t in bad_ords:
                R.count('header ordinal outside')
                R.case(f'{label}|gen_trace_header|{t}|{lah}', nontrivial=True)
                try:
                    h = r.gen_trace_header(t, load_all_headers=lah)
                    R.violation('oracle', {'file': label, 'call': 'gen_trace_header', 'args': [t], 'load_all_headers': lah, 'path': path},
                                f'ordinal {t} outside 0..{n - 1}: returned a header (INLINE_3D={int(h[189])}, CROSSLINE_3D={int(h[193])}) instead of IndexError')
                except IndexError:
                    pass
                except Exception as e:
                    R.violation('oracle', {'file': label, 'call': 'gen_trace_header', 'args': [t], 'load_all_headers': lah, 'path': path},
                                f'ordinal {t} outside 0..{n - 1}: raised {type(e).__name__} instead of IndexError')
            for t in probe:
                h = {int(k): int(v) for k, v in r.gen_trace_header(t, load_all_headers=lah).items()}
                if h != ref[t]:
                    R.violation('oracle', {'file': label, 'call': 'gen_trace_header', 'args': [t], 'load_all_headers': lah, 'path': path},
                                'the header differs between the two ways of loading')
    with _sz.open(path) as f:
        for s_ in sorted({-1, -n, -n - 1, -n - 2, -2 * n, -2 * n - 1, n, n + 3}):
            R.count('header[] subscript')
            want = ref.get(s_ % n) if -n <= s_ < n else None
            try:
                h = {int(k): int(v) for k, v in f.header[s_].items()}
                if not (-n <= s_ < n):
                    R.violation('oracle', {'file': label, 'call': 'header[]', 'args': [s_], 'path': path},
                                f'subscript {s_} outside -{n}..{n - 1}: returned a header instead of IndexError')
                elif want is not None and h != want:
                    R.violation('oracle', {'file': label, 'call': 'header[]', 'args': [s_], 'path': path}, f'header[{s_}] is not the header of trace {s_ % n}')
            except IndexError:
                if -n <= s_ < n:
                    R.violation('oracle', {'file': label, 'call': 'header[]', 'args': [s_], 'path': path}, f'header[{s_}] (Python indexing: trace {s_ % n}) raised IndexError')
            except Exception as e:
                R.violation('oracle', {'file': label, 'call': 'header[]', 'args': [s_], 'path': path}, f'raised {type(e).__name__}: {e}')


def header_and_warm_cache_io(d):
    """C07 clauses that are about SEQUENCES of calls on one reader: (a) regenerating a trace header of a regular file costs
    4 bytes per stored array -- on a fresh reader AND after a tracefield lookup has put one array into memory;
    (b) the lines of one group of 4 share one fetch: a second line of the group costs no read, a multi-line call
    fetches no byte twice; (c) the same with the crossline group"""
    n_il, n_xl, ns = 9, 10, 300
    src = rnd_cube(rng, (n_il, n_xl, ns))
    sgy = os.path.join(d, 'hio.sgy'); p = os.path.join(d, 'hio.sgz')
    mk_segy(sgy, src, range(1, 1 + n_il), range(20, 20 + n_xl))
    write_segy_sgz(sgy, p, bpv=4)
    sp = SpecFile(p)
    foot = 4096 * sp.nhb + 4096 * sp.ndb
    label = f'segy {n_il}x{n_xl}x{ns} bpv=4 ({sp.nha} stored header arrays)'
    def footer_reads(f):
        return [(o, l) for o, l in f.log if o >= foot]
    def data_reads(f):
        return [(o, l) for o, l in f.log if 4096 * sp.nhb <= o < foot]
    for warm, backend in ((False, 'file'), (True, 'file'), (False, 'blob'), (True, 'blob')):
        f = CountingFile(p) if backend == 'file' else CountingBlob(p)
        with SgzReader(f) as r:
            if warm:
                r.get_tracefield_values(189)
            for t in (0, 7, n_il * n_xl - 1):
                f.log.clear()
                r.gen_trace_header(t)
                fr = footer_reads(f)
                inp = {'file': label, 'call': 'gen_trace_header', 'args': [t], 'after': 'get_tracefield_values(189)' if warm else 'open', 'backend': backend}
                R.case(('hdr-io', warm, t, backend), sample=inp)
                want = [(foot + k * sp.stride + 4 * t, 4) for k in range(sp.nha)]
                if sorted(fr) != sorted(want) and not (warm and set(fr) <= set(want)):
                    R.violation('oracle', inp, f'regenerating one trace header read {len(fr)} range(s), {sum(l for _, l in fr)} bytes from the footer; '
                                f'the property allows 4 bytes per stored array ({sp.nha} arrays): {fr[:4]}')
    for name, other, idx in (('read_inline', 'read_inline', (4, 5, 6, 7)), ('read_crossline', 'read_crossline', (4, 5, 6, 7))):
        f = CountingFile(p)
        with SgzReader(f) as r:
            f.log.clear()
            total = []
            for k, i in enumerate(idx):
                before = len(f.log)
                getattr(r, name)(i)
                new = data_reads(f)[len(total):]
                total += new
                inp = {'file': label, 'call': name, 'args': [i], 'after': f'{name}({idx[0]}) on the same reader' if k else 'open'}
                R.case(('warm', name, i), sample=inp)
                if k > 0 and new:
                    R.violation('oracle', inp, f'a second line of the same group of 4 fetched {sum(l for _, l in new)} bytes again: {new[:3]}')
            ivs = sorted((o, o + l) for o, l in total)
            if any(b[0] < a_[1] for a_, b in zip(ivs, ivs[1:])):
                R.violation('oracle', {'file': label, 'call': f'{name} x4 (one group)'}, 'bytes of the data section fetched twice within the group')


try:
    quick = (a.tier == 'quick') and not a.search
    if a.pid == 'C07':
        header_and_warm_cache_io(d)
    layouts = LAYOUTS_3D if not quick else (LAYOUTS_3D[:3] + rng.sample(LAYOUTS_3D[3:], 7))
    nshapes = 1 if quick else 4
    # always: a default-layout file whose traces span SEVERAL z-blocks (bs2 = 64 at 32 bit) and a z-slice-layout file
    multi_z = [('multi-z', 32, (4, 4, -1), (rng.choice([5, 6, 9]), rng.choice([7, 10, 13]), rng.choice([65, 67, 128, 129, 131]))),
               ('multi-z', 2, (64, 64, 4), (rng.choice([5, 66]), rng.choice([6, 65]), rng.choice([9, 13]))),
               # first block dimension 4 but NOT the default layout, traces longer than one block: every reader that has a
               # fast path for "groups of 4 lines" must not take it here
               ('4xNxM multi-z', 8, (4, 8, 128), (rng.choice([5, 9]), rng.choice([9, 11]), rng.choice([130, 200]))),
               ('Nx4xM multi-z', 4, (8, 4, 256), (rng.choice([9, 11]), rng.choice([5, 9]), rng.choice([258, 300])))]
    for tag, bpv, bs, shape in multi_z:
        bsr = szutils.define_blockshape_3d(bpv, bs)[1]
        p, arr = make_3d_file(rng, d, shape, bpv, bs)
        label = f'numpy {shape} bpv={bpv} bs={bsr}'
        R.count(f'layout {bsr} rate {bpv} ({tag})')
        # boxes that cross several trace columns but only part of each column's z-blocks (windows inside one z-block, across
        # a z-block boundary, the last partial block), on both backends
        n_il_, n_xl_, ns_ = shape
        zb = bsr[2]
        wins = [(0, min(3, ns_)), (max(0, ns_ - 2), ns_)] + ([(zb - 1, zb + 1), (zb, min(ns_, zb + 5)), (zb + 1, min(ns_, 2 * zb))] if ns_ > zb + 1 else [])
        extra = [('read_subvolume', (0, n_il_, 0, n_xl_, z0, z1)) for z0, z1 in wins if z0 < z1] + \
                [('read_subvolume', (n_il_ // 2, n_il_ // 2 + 1, 1, n_xl_, z0, z1)) for z0, z1 in wins[:3] if z0 < z1] + \
                [('get_trace', (n_xl_ + 1, z0, z1)) for z0, z1 in wins[:3] if z0 < z1]
        run_file(p, label, 10 if quick else 30, extra=extra)
        os.remove(p)
    for bpv, bs in layouts:
        bsr = szutils.define_blockshape_3d(bpv, bs)[1]
        for shape in shapes_for(rng, bsr, 'quick')[:nshapes]:
            shape = tuple(min(s, 150) for s in shape)
            p, arr = make_3d_file(rng, d, shape, bpv, bs)
            label = f'numpy {shape} bpv={bpv} bs={bsr}'
            R.count(f'layout {bsr} rate {bpv}')
            run_file(p, label, 10 if quick else 30)
            if a.pid == 'C07' and rng.random() < 0.4:
                run_file(p, label + ' preload', 6, preload=True)
            os.remove(p)
    # irregular surveys with SEVERAL holes (adjacent ones too): every trace ordinal goes through the population mask
    for hk in range(1 if quick else 3):
        n_il_, n_xl_, ns_ = rng.choice([(6, 7, 9), (5, 6, 13), (7, 5, 6)])
        present = np.ones((n_il_, n_xl_), dtype=bool)
        cells = [(i, x) for i in range(n_il_) for x in range(n_xl_)]
        i0 = rng.randrange(1, n_il_ - 1); x0 = rng.randrange(0, n_xl_ - 1)
        present[i0, x0] = present[i0, x0 + 1] = False                       # two adjacent holes
        for _ in range(rng.choice([2, 3])):
            i1, x1 = rng.choice(cells)
            present[i1, x1] = False
        if not (present.any(axis=1).all() and present.any(axis=0).all()) or present[0, 0] is False:
            present[:, :] = True; present[1, 2] = present[1, 3] = present[3, 4] = present[4, 0] = False
        data_ = rnd_cube(rng, (n_il_, n_xl_, ns_))
        sgy_ = os.path.join(d, f'irr{hk}.sgy'); p = os.path.join(d, f'irr{hk}.sgz')
        mk_segy(sgy_, data_, [10 + 3 * k for k in range(n_il_)], [100 + 2 * k for k in range(n_xl_)], present=present)
        bpv_ = rng.choice([8, 16])
        try:
            write_segy_sgz(sgy_, p, bpv=bpv_, header_detection='exhaustive')
            os.remove(sgy_)
            spx = SpecFile(p)
            if spx.is2d or spx.tracecount == spx.n_il * spx.n_xl or (spx.n_il, spx.n_xl) != (n_il_, n_xl_):
                R.notes.append('irregular survey with several holes was not written through the irregular route (known finding D27 of C08): skipped')
            else:
                nlive = int(present.sum())
                extra = [('get_trace', (t,)) for t in range(nlive)] + [('get_trace', (t, 1, ns_ - 1)) for t in range(0, nlive, 3)] + \
                        [('get_trace', (t,)) for t in (-1, -2, -nlive, -nlive - 1, -1000, nlive, nlive + 1, n_il_ * n_xl_ - 1, n_il_ * n_xl_)]
                R.count('irregular file with several holes')
                run_file(p, f'irregular {n_il_}x{n_xl_}x{ns_} holes={int((~present).sum())} bpv={bpv_}', 6 if quick else 20, extra=extra)
        finally:
            for q in (sgy_, p):
                if os.path.exists(q):
                    os.remove(q)
    for bpv, bs in (LAYOUTS_2D if not quick else LAYOUTS_2D[:3]):
        bsr = szutils.define_blockshape_2d(bpv, bs)[1]
        for nt in ([21] if quick else [2, 5, 16, 17, 33]):
            ns = rng.choice([2, 9, 40, bsr[2] + 3])
            p, arr = make_2d_file(rng, d, (nt, ns), bpv, bs)
            R.count(f'layout {bsr} rate {bpv}')
            run_file(p, f'segy2d ({nt},{ns}) bpv={bpv} bs={bsr}', 8 if quick else 25)
            os.remove(p)
    # 2D lines whose traces span SEVERAL sample blocks, both 2D loader paths: sample windows that start at or beyond the first
    # block, cross block boundaries, end at the trace end; sub-planes likewise
    for bpv, bs, ns in ((16, (1, 16, 128), 300), (16, (1, 4, 512), 1100)) if not quick else ((16, (1, 16, 128), 300), (32, (1, 4, 256), 600)):
        bsr = szutils.define_blockshape_2d(bpv, bs)[1]
        nt = rng.choice([9, 21, 37])
        p, arr = make_2d_file(rng, d, (nt, ns), bpv, bs)
        zb = bsr[2]
        wins = [(zb, zb + 44), (zb + 44, min(ns, 2 * zb + 10)), (2 * zb - 1, min(ns, 2 * zb + 1)), (ns - 5, ns), (zb + 1, ns), (zb - 1, zb + 1), (0, zb), (zb, None)]
        extra = [('get_trace', (t, lo, hi)) for t in (0, nt // 2, nt - 1) for lo, hi in wins if hi is None or lo < hi] + \
                [('read_subplane', (1, nt - 1, lo, hi)) for lo, hi in wins if hi is not None and lo < hi]
        R.count(f'layout {bsr} rate {bpv} (2D, multi-z)')
        run_file(p, f'segy2d ({nt},{ns}) bpv={bpv} bs={bsr} multi-z', 6 if quick else 20, extra=extra)
        os.remove(p)
    # fixtures of every format version / layout in test_data
    fixtures = sorted(glob.glob(os.path.join(REPO, 'test_data', '*.sgz')))
    if not quick:
        fixtures += sorted(glob.glob(os.path.join(REPO, 'test_data', 'padding', '*.sgz')))
    for fx in fixtures:
        try:
            run_file(fx, 'fixture ' + os.path.basename(fx), 6 if quick else 20)
        except Exception as e:
            R.notes.append(f'fixture {os.path.basename(fx)} skipped: {type(e).__name__}: {e}')
finally:
    shutil.rmtree(d, ignore_errors=True)
    if model:
        model.close()
R.write(a.out)
