#!/usr/bin/env python3
"""Direct oracle for the by-number / by-coordinate entry points of C02 (coherence) and C14 (bounds):
read_inline_number, read_crossline_number, read_zslice_coord, get_trace_by_coord, get_*_index, the xarray-free accessor
subvolume[...] is C13's.  For every axis (non-unit and descending increments, negative starts, sample axes that start at a
negative time and contain 0.0) a value ON the axis must return exactly the slice read_volume() has at that ordinal, and a
value OFF the axis (between two lines, before the first, after the last) must raise IndexError -- never a neighbouring
line.  Windows of get_trace_by_coord include bounds that are exactly 0.0 and None."""
import os, sys, itertools
sys.path.insert(0, os.path.dirname(os.path.abspath(__file__)))
from common import *
a = parse_args()
from hz import *

R = Result('one case = (axes, entry point, coordinate or coordinate window); non-trivial = distinct case; on-axis values must give the '
           'slice of read_volume(), off-axis values (between, before, after) must raise IndexError')
rng = random.Random(a.seed * 31 + 5)
thorough = a.tier == 'thorough' or a.search


def axis(start, step, n):
    return np.array([start + step * k for k in range(n)])


def expect_index_error(fn, inp):
    try:
        r = fn()
    except IndexError:
        return
    except Exception as e:
        R.violation('oracle', inp, f'raised {type(e).__name__} instead of IndexError: {e}')
        return
    R.violation('oracle', inp, f'a coordinate or ordinal outside the axis returned data of shape {getattr(r, "shape", None)} instead of raising IndexError')


def main():
    d = scratch_dir()
    try:
        configs = [((10, 2), (100, 3), (-40.0, 4.0), (4, (4, 4, -1))),
                   ((50, -3), (7, 5), (0.0, 2.0), (8, (4, 4, -1))),
                   ((-8, 4), (-20, -1), (-12.0, 4.0), (8, (8, 8, 64))),
                   ((1, 1), (1, 1), (-6.0, 2.0), (2, (64, 64, 4)))]
        if not thorough:
            configs = configs[:3]
        # a ZGY-sourced file: its sample axis is stored in double precision (fractional start and interval)
        configs.append(((12, 2), (300, 5), rng.choice([(2.5, 4.0), (-12.5, 2.5), (100.25, 0.5)]), (4, (4, 4, -1)), 'zgy'))
        for ci, cfg in enumerate(configs):
            (ia, xa, sa, (bpv, bs)), source = cfg[:4], (cfg[4] if len(cfg) > 4 else 'numpy')
            n_il, n_xl, ns = rng.choice([5, 6, 9]), rng.choice([4, 7]), rng.choice([13, 21, 30])
            il, xl = axis(ia[0], ia[1], n_il), axis(xa[0], xa[1], n_xl)
            zs = np.array([sa[0] + sa[1] * k for k in range(ns)], dtype=np.float64)
            src = rnd_cube(rng, (n_il, n_xl, ns))
            p = os.path.join(d, f'c{ci}.sgz')
            if source == 'zgy':
                try:
                    import pyzgy
                    from pyzgy.write import SeismicWriter
                    from seismic_zfp.conversion import ZgyConverter
                    zp = os.path.join(d, f'c{ci}.zgy')
                    with SeismicWriter(zp, size=(n_il, n_xl, ns), zstart=sa[0], zinc=sa[1], annotstart=(ia[0], xa[0]), annotinc=(ia[1], xa[1]), corners=None) as w:
                        w.write_volume(np.ascontiguousarray(src, dtype=np.float32))
                    with pyzgy.open(zp) as h:
                        il, xl, zs = np.array(h.ilines), np.array(h.xlines), np.array(h.samples, dtype=np.float64)
                    with quiet(ZgyConverter, zp) as c:
                        quiet(c.run, p, bits_per_voxel=bpv, blockshape=bs)
                except Exception as e:
                    R.violation('oracle', {'source': 'zgy', 'samples': [sa[0], sa[1], ns]}, f'converting a generated ZGY cube raised {type(e).__name__}: {e}')
                    continue
            else:
                write_numpy_sgz(p, src, bpv=bpv, blockshape=bs, ilines=il, xlines=xl, samples=zs)
            label = {'ilines': [int(il[0]), int(ia[1]), n_il], 'xlines': [int(xl[0]), int(xa[1]), n_xl], 'samples': [sa[0], sa[1], ns], 'layout': list(bs), 'source': source}
            with SgzReader(p) as r:
                V = r.read_volume()
                if list(r.ilines) != list(il) or list(r.xlines) != list(xl) or not np.allclose(r.zslices, zs):
                    R.violation('oracle', label, f'axes of the file differ from the source axes: inlines {[int(v) for v in r.ilines]} crosslines {[int(v) for v in r.xlines]} samples {[float(v) for v in r.zslices[:3]]}.. (source samples {[float(v) for v in zs[:3]]}..)')
                    continue
                # ---- on-axis values
                for i, v in enumerate(il):
                    inp = dict(label, call='read_inline_number', arg=int(v))
                    R.case(('il', ci, int(v)), sample=inp)
                    try:
                        got = r.read_inline_number(int(v))
                        if not bits_equal(got, V[i]) or r.get_inline_index(int(v)) != i:
                            R.violation('oracle', inp, 'not the inline of read_volume() at that ordinal')
                    except Exception as e:
                        R.violation('oracle', inp, f'on-axis line number raised {type(e).__name__}: {e}')
                for x, v in enumerate(xl):
                    inp = dict(label, call='read_crossline_number', arg=int(v))
                    R.case(('xl', ci, int(v)), sample=inp)
                    try:
                        got = r.read_crossline_number(int(v))
                        if not bits_equal(got, V[:, x]) or r.get_crossline_index(int(v)) != x:
                            R.violation('oracle', inp, 'not the crossline of read_volume() at that ordinal')
                    except Exception as e:
                        R.violation('oracle', inp, f'on-axis line number raised {type(e).__name__}: {e}')
                for z, v in enumerate(zs):
                    inp = dict(label, call='read_zslice_coord', arg=float(v))
                    R.case(('z', ci, float(v)), sample=inp)
                    try:
                        got = r.read_zslice_coord(float(v))
                        if not bits_equal(got, V[:, :, z]):
                            R.violation('oracle', inp, 'not the z-slice of read_volume() at that ordinal')
                    except Exception as e:
                        R.violation('oracle', inp, f'on-axis sample coordinate raised {type(e).__name__}: {e}')
                # ---- trace windows by coordinate: every pair of on-axis bounds incl. 0.0, None on either side
                tr = rng.randrange(n_il * n_xl)
                ti, tx = tr // n_xl, tr % n_xl
                pairs = [(None, None)]
                zi = sorted(set([0, 1, ns // 2, ns - 1] + [k for k, v in enumerate(zs) if v == 0.0] + rng.sample(range(ns), 3)))
                for za in zi:
                    pairs.append((za, None))
                    pairs.append((None, za))
                    for zb in zi:
                        if za < zb:
                            pairs.append((za, zb))
                for za, zb in pairs:
                    lo = None if za is None else float(zs[za])
                    hi = None if zb is None else float(zs[zb])
                    inp = dict(label, call='get_trace_by_coord', args=[tr, lo, hi])
                    R.case(('tw', ci, tr, lo, hi), sample=inp)
                    i0 = 0 if za is None else za
                    i1 = ns if zb is None else zb
                    if i0 >= i1:
                        expect_index_error(lambda: r.get_trace_by_coord(tr, lo, hi), inp)
                        continue
                    try:
                        got = r.get_trace_by_coord(tr, lo, hi)
                        if not bits_equal(got, V[ti, tx, i0:i1]):
                            R.violation('oracle', inp, f'returned {got.shape[0]} samples, the window of the decoded trace has {i1 - i0}' if got.shape != (i1 - i0,) else 'window differs from the decoded trace')
                    except Exception as e:
                        R.violation('oracle', inp, f'in-range coordinate window raised {type(e).__name__}: {e}')
                # ---- off-axis values: between two lines, before the first, after the last
                def off_values(ax, step):
                    vals = [ax[0] - step, ax[-1] + step, ax[0] - 7 * step, ax[-1] + 1000 * step]
                    if abs(step) > 1:
                        vals += [ax[0] + (1 if step > 0 else -1), ax[k := len(ax) // 2] + (1 if step > 0 else -1), ax[-1] - (1 if step > 0 else -1)]
                    return vals
                for v in off_values(il, ia[1]):
                    inp = dict(label, call='read_inline_number', arg=int(v), expect='IndexError')
                    R.case(('il-off', ci, int(v)), sample=inp)
                    expect_index_error(lambda: r.read_inline_number(int(v)), inp)
                for v in off_values(xl, xa[1]):
                    inp = dict(label, call='read_crossline_number', arg=int(v), expect='IndexError')
                    R.case(('xl-off', ci, int(v)), sample=inp)
                    expect_index_error(lambda: r.read_crossline_number(int(v)), inp)
                for v in [zs[0] - sa[1], zs[-1] + sa[1], zs[0] + sa[1] / 2, zs[ns // 2] + sa[1] / 4, zs[-1] - sa[1] / 2]:
                    inp = dict(label, call='read_zslice_coord', arg=float(v), expect='IndexError')
                    R.case(('z-off', ci, float(v)), sample=inp)
                    expect_index_error(lambda: r.read_zslice_coord(float(v)), inp)
                for lo, hi in [(zs[0] + sa[1] / 2, zs[-1]), (zs[1], zs[3] + sa[1] / 2), (zs[0] - sa[1], zs[2])]:
                    inp = dict(label, call='get_trace_by_coord', args=[tr, float(lo), float(hi)], expect='IndexError')
                    R.case(('tw-off', ci, float(lo), float(hi)), sample=inp)
                    expect_index_error(lambda: r.get_trace_by_coord(tr, float(lo), float(hi)), inp)
            # ---- ordinal accessors of the emulator: negative ordinals are Python indexing, anything below -len or
            #      at/above len is refused (never wrapped onto a real item)
            with seismic_zfp.open(p) as f:
                for name, acc, n in (('trace', f.trace, n_il * n_xl), ('header', f.header, n_il * n_xl), ('depth_slice', f.depth_slice, ns)):
                    for k in (-1, -n):
                        inp = dict(label, call=f'{name}[{k}]')
                        R.case(('acc', ci, name, k), sample=inp)
                        try:
                            got, want = acc[k], acc[n + k]
                            same = (got == want) if name == 'header' else bits_equal(got, want)
                            if not same:
                                R.violation('oracle', inp, f'{name}[{k}] is not {name}[{n + k}]')
                        except Exception as e:
                            R.violation('oracle', inp, f'in-range negative ordinal raised {type(e).__name__}: {e}')
                    for k in (-n - 1, -n - 2, -2 * n, -3 * n - 1, n, n + 1, 2 * n):
                        inp = dict(label, call=f'{name}[{k}]', length=n, expect='IndexError')
                        R.case(('acc-off', ci, name, k), sample=inp)
                        expect_index_error(lambda: acc[k], inp)
                # ---- subvolume[a:b:c, ...] by coordinate with steps (whole multiples of the axis increment, in axis order):
                #      the stepped slice of the decoded volume, whatever the remainder of the extent modulo the step
                zi_ = [int(v) for v in zs]
                for _ in range((24 if thorough else 12) if all(float(v).is_integer() for v in zs) else 0):
                    sl3, want3 = [], []
                    for ax_, n_ in ((list(map(int, il)), n_il), (list(map(int, xl)), n_xl), (zi_, ns)):
                        inc_ = ax_[1] - ax_[0]
                        i0 = rng.randrange(0, n_ - 1)
                        i1 = rng.randrange(i0 + 1, n_ + 1)
                        k_ = rng.choice([1, 2, 3, 4, 5])
                        sl3.append(slice(ax_[i0], ax_[i1] if i1 < n_ else ax_[-1] + inc_, k_ * inc_))
                        want3.append(slice(i0, i1, k_))
                    inp = dict(label, call='subvolume[' + ', '.join(f'{s_.start}:{s_.stop}:{s_.step}' for s_ in sl3) + ']')
                    R.case(('subvol-step', ci, inp['call']), sample=inp)
                    try:
                        got = np.array(f.subvolume[sl3[0], sl3[1], sl3[2]])
                        want_ = V[want3[0], want3[1], want3[2]]
                        if got.shape != want_.shape or not bits_equal(got, want_):
                            R.violation('oracle', inp, f'subvolume with steps returned shape {got.shape}; the stepped slice of the decoded volume has shape {want_.shape}' if got.shape != want_.shape else 'subvolume with steps differs from the stepped slice of the decoded volume')
                    except Exception as e:
                        R.violation('oracle', inp, f'valid stepped sub-volume raised {type(e).__name__}: {e}')
            os.remove(p)
    finally:
        shutil.rmtree(d, ignore_errors=True)
    R.write(a.out)


main()
