#!/usr/bin/env python3
"""Harness for C05 (geometry preservation).

Per case (a tiny regular cube, SEG-Y route through segyio or NumPy route):
  oracle  SgzReader.ilines / xlines / zslices / tracecount / structured / n_ilines / n_xlines of the written SGZ file equal the
          SOURCE's (segyio f.ilines, f.xlines, f.samples, f.tracecount; the arrays handed to NumpyConverter) -- no model involved.
          A few cases also go through re-blocking (convert_to_adv_sgz) and SEG-Y export (convert_to_segy).
  corr    the Coq model (coq/Model/Geometry.v over the GENERATED coq/Gen/Geometry.v), evaluated inside Coq by coqeval, against
          the implementation: (a) model_write = the real header fields at bytes 4..40 and 68; (b) model_read of the REAL
          header fields = the reader's axes (floats compared as float.hex() text); (c) rd_tracecount / rd_structured /
          rd_n_ilines / rd_n_xlines of the real header; (d) segy_samples = segyio's f.samples; (e) the binary64 primitives of the
          model (f_rint, f_trunc_Z, f_of_Z, int/int true division) against numpy / Python on edge and random values.
Generators hit: negative / descending axes, line numbers at -2^31 and 2^31-1, unequal inline / crossline steps, np.int32
steps that wrap, int64 steps that do not fit (both sides must raise), the 741 sample intervals whose product
1000.0*(d/1000.0) falls below d (D14), start times -32768..32767 ms, intervals above the SEG-Y 16-bit limit (NumPy route).
"""
import os, sys, math, struct as _struct
sys.path.insert(0, os.path.dirname(os.path.abspath(__file__)))
from common import *
a = parse_args()
from hz import *
from coqeval import coq_eval, parse_value, zlit, CoqEvalError, _split_top

R = Result('one case = one tiny cube written to SGZ and read back (SEG-Y route, NumPy route, windowed, re-blocked or exported) '
           'or one batch of binary64 primitive values; non-trivial = distinct (route, axis triples, interval, start time, length)')
rng = random.Random(a.seed + 505)
quick = a.tier == 'quick'
I32MIN, I32MAX = -2 ** 31, 2 ** 31 - 1
# the intervals the unrepaired writer stored one microsecond low (pure Python float arithmetic)
BAD = [d for d in range(1, 65536) if int(1000.0 * (d / 1000.0)) != d]
assert len(BAD) == 741 and BAD[0] == 1001
STATUS = json.load(open(os.path.join(os.path.dirname(os.path.abspath(__file__)), '..', '..', 'coq', 'Gen', 'STATUS.json')))
HDR_FIELDS = STATUS.get('hdr_fields') or []
OFFS = [4, 8, 12, 16, 20, 24, 28, 32, 36, 68]


# ------------------------------------------------------------------------------------------------ case generation
def rand_axis(rng, n, i32=True):
    """(start, step, count) with every element an int32"""
    kind = rng.randrange(10)
    if kind == 0:
        s = rng.choice([1, 2, 3, 7, 1000]); return (I32MAX - s * (n - 1), s, n)          # ascending, ends at 2^31-1
    if kind == 1:
        s = -rng.choice([1, 2, 3, 7, 1000]); return (I32MAX, s, n)                        # descending from 2^31-1
    if kind == 2:
        s = rng.choice([1, 2, 5, 65536]); return (I32MIN, s, n)                           # ascending from -2^31
    if kind == 3:
        s = -rng.choice([1, 2, 5, 65536]); return (I32MIN - s * (n - 1), s, n)            # descending to -2^31
    if kind == 4:
        big = (2 ** 32 - 2) // (n - 1)                                                   # the largest |step| that fits
        s = rng.choice([big, -big, big - rng.randrange(1000), -(big - rng.randrange(1000))])
        return ((I32MIN if s > 0 else I32MAX), s, n)
    if kind in (5, 6):
        s = rng.choice([1, -1, 2, -2, 3, -3, 10, -7])
        a0 = rng.choice([0, 1, -1, -5, 100, -100, 5000])
        return (a0, s, n)
    s = rng.choice([1, -1]) * rng.randrange(1, 2 ** 20)
    lo, hi = (I32MIN, I32MAX - s * (n - 1)) if s > 0 else (I32MIN - s * (n - 1), I32MAX)
    return (rng.randrange(lo, hi + 1), s, n)


def pick_dt(rng, lo, hi, k):
    pool = [d for d in BAD if lo <= d <= hi]
    base = [d for d in (1, 2, 3, 4, 7, 250, 500, 999, 1000, 1001, 2000, 4000, 8003, 32767, 32768, 40000, 64002, 65535) if lo <= d <= hi]
    out = base + pool[:6] + pool[-4:] + [rng.choice(pool) for _ in range(k)] + [rng.randrange(lo, hi + 1) for _ in range(k // 2)]
    return out


def pick_t0(rng):
    return rng.choice([0, 0, 0, 0, -1, 1, -12, 5, 1500, -2000, -32768, 32767, -32767, 32766, rng.randrange(-32768, 32768)])


def make_cases():
    cases = []
    n_segy = 250 if quick else 900
    n_np = 1200 if quick else 4000
    if a.search:
        n_segy, n_np = n_segy * 2, n_np * 3
    dts = pick_dt(rng, 1, 32767, n_segy) if quick else ([d for d in BAD if d <= 32767] + pick_dt(rng, 1, 32767, 200))
    rng.shuffle(dts)
    for k in range(n_segy):
        il = rand_axis(rng, rng.randrange(2, 6)); xl = rand_axis(rng, rng.randrange(2, 6))
        cases.append(dict(route='segy', il=il, xl=xl, dt=dts[k % len(dts)], t0=pick_t0(rng), ns=rng.randrange(2, 7), i32=True))
    # np.int32 subtraction that wraps: two-element axes whose difference is not an int32
    cases.append(dict(route='segy', il=(I32MAX, -(2 ** 32 - 1), 2), xl=(I32MIN, 2 ** 32 - 1, 2), dt=4000, t0=0, ns=3, i32=True))
    cases.append(dict(route='segy', il=(I32MIN, 2 ** 31, 2), xl=(5, -3, 4), dt=1001, t0=-5, ns=4, i32=True))
    dts = pick_dt(rng, 1, 65535, n_np) if quick else (BAD + pick_dt(rng, 1, 65535, 400))
    rng.shuffle(dts)
    for k in range(n_np):
        il = rand_axis(rng, rng.randrange(2, 6)); xl = rand_axis(rng, rng.randrange(2, 6))
        smp = rng.choice(['formula'] * 8 + ['default', 'int'])
        cases.append(dict(route='numpy', il=il, xl=xl, dt=dts[k % len(dts)], t0=pick_t0(rng), ns=rng.randrange(2, 7),
                          i32=rng.random() < 0.5, samples=smp))
    # int64 axes whose step does not fit struct.pack('<i'): the writer must raise, nothing may be written wrongly
    cases.append(dict(route='numpy', il=(I32MIN, 2 ** 31, 2), xl=(0, 1, 3), dt=4000, t0=0, ns=3, i32=False, samples='formula'))
    cases.append(dict(route='numpy', il=(0, 1, 3), xl=(I32MAX, -(2 ** 32 - 1), 2), dt=4000, t0=0, ns=3, i32=False, samples='formula'))
    # windowed conversion (the axis origin is the source axis at the window's first ordinal)
    for k in range(5 if quick else 25):
        il = rand_axis(rng, rng.randrange(4, 8)); xl = rand_axis(rng, rng.randrange(4, 8))
        w_il0 = rng.randrange(1, il[2] - 1); w_il1 = rng.randrange(w_il0 + 1, il[2] + 1)
        w_xl0 = rng.randrange(1, xl[2] - 1); w_xl1 = rng.randrange(w_xl0 + 1, xl[2] + 1)
        cases.append(dict(route='segy', il=il, xl=xl, dt=rng.choice([1001, 2000, 4000]), t0=pick_t0(rng), ns=rng.randrange(2, 5),
                          i32=True, window=(w_il0, w_il1, w_xl0, w_xl1)))
    # re-blocking and SEG-Y export (oracle only)
    for k in range(5 if quick else 20):
        il = rand_axis(rng, rng.randrange(2, 6)); xl = rand_axis(rng, rng.randrange(2, 6))
        cases.append(dict(route='segy', il=il, xl=xl, dt=rng.choice(BAD[:200]), t0=pick_t0(rng), ns=rng.randrange(2, 6), i32=True,
                          post=rng.choice(['reblock', 'export'])))
    # convert -> crop the sample axis -> export (whole-millisecond sample times, so that the start time is representable)
    for k in range(3 if quick else 12):
        il = rand_axis(rng, rng.randrange(2, 5)); xl = rand_axis(rng, rng.randrange(2, 5))
        cases.append(dict(route='segy', il=il, xl=xl, dt=rng.choice([1000, 2000, 4000]), t0=rng.choice([0, -200, 48, 1000]), ns=rng.choice([130, 200, 257, 300]), i32=True,
                          post='cropz_export', bpv=16, box=[rng.randrange(100)]))
    # cropping: axes of the cropped file = sub-ranges of the source axes (ends inside the last partial unit included)
    for k in range(8 if quick else 40):
        il = rand_axis(rng, rng.randrange(5, 12)); xl = rand_axis(rng, rng.randrange(5, 12))
        cases.append(dict(route='segy', il=il, xl=xl, dt=4000, t0=0, ns=rng.randrange(2, 6), i32=True, post='crop',
                          box=[rng.randrange(100), rng.randrange(100), rng.randrange(100), rng.randrange(100)]))
    return cases


def axis_list(t):
    return [t[0] + t[1] * k for k in range(t[2])]


def canon(c):
    return (c['route'], tuple(c['il']), tuple(c['xl']), c['dt'], c['t0'], c['ns'], c.get('i32'), c.get('samples'),
            tuple(c.get('window') or ()), c.get('post'))


# ------------------------------------------------------------------------------------------------ implementation side
def fhex(x):
    return float(x).hex()


def run_impl(c, d):
    """returns dict: source axes, sgz attributes, header fields, or 'raised'"""
    il, xl = axis_list(c['il']), axis_list(c['xl'])
    ns, dt, t0 = c['ns'], c['dt'], c['t0']
    data = rnd_cube(rng, (len(il), len(xl), ns))
    p = os.path.join(d, 'c.sgz')
    out = {}
    if c['route'] == 'segy':
        sgy = os.path.join(d, 'c.sgy')
        mk_segy(sgy, data, il, xl, dt_us=dt, t0=t0)
        with segyio.open(sgy) as f:
            out['src_il'], out['src_xl'] = [int(v) for v in f.ilines], [int(v) for v in f.xlines]
            out['src_z'] = [fhex(v) for v in f.samples]
            out['src_tracecount'] = int(f.tracecount)
        w = c.get('window')
        if w:
            out['src_il'], out['src_xl'] = out['src_il'][w[0]:w[1]], out['src_xl'][w[2]:w[3]]
            out['src_tracecount'] = len(out['src_il']) * len(out['src_xl'])
        try:
            write_segy_sgz(sgy, p, bpv=c.get('bpv', 2 if c.get('post') else 8), window=w)
        except Exception as e:
            out['raised'] = type(e).__name__ + ': ' + str(e)[:100]
            return out
    else:
        dty = np.int32 if c['i32'] else np.int64
        ila, xla = np.array(il, dtype=dty), np.array(xl, dtype=dty)
        if c['samples'] == 'formula':
            s = np.arange(ns) * (dt / 1000.0) + t0
        elif c['samples'] == 'int':
            s = t0 + 2 * np.arange(ns)
        else:
            s = None
        out['src_il'], out['src_xl'] = il, xl
        out['src_z'] = [fhex(v) for v in (s if s is not None else 4 * np.arange(ns))]
        out['src_tracecount'] = len(il) * len(xl)
        out['samples_in'] = None if s is None else ([fhex(v) for v in s] if s.dtype.kind == 'f' else [int(v) for v in s])
        try:
            write_numpy_sgz(p, data, bpv=8, ilines=ila, xlines=xla, samples=s)
        except Exception as e:
            out['raised'] = type(e).__name__ + ': ' + str(e)[:100]
            return out
    post = c.get('post')
    src_grids = None
    if post in ('crop', 'reblock'):
        # the per-trace line numbers as the SOURCE file holds them (whatever the header detection made of them): the written
        # file must hold the same values for the same traces
        with SgzReader(p) as r0:
            if r0.structured and r0.tracecount <= 4096:
                src_grids = {int(k): r0.get_tracefield_values(k).copy() for k in r0.stored_header_keys if int(k) in (189, 193)}
                src_box = (0, r0.n_ilines, 0, r0.n_xlines)
    if post == 'crop':
        # crop by index: the axes of the result are the source axes restricted to the box widened to unit boundaries and clipped
        n_i, n_x = len(out['src_il']), len(out['src_xl'])
        a0, a1 = c['box'][0] % n_i, 0
        a1 = min(n_i, a0 + 1 + c['box'][1] % n_i)
        b0 = c['box'][2] % n_x
        b1 = min(n_x, b0 + 1 + c['box'][3] % n_x)
        q = os.path.join(d, 'crop.sgz')
        with SgzCropper(p) as cr:
            if _hq(c) % 2 and cr.stored_header_keys:
                # a look at a header grid on the same object (e.g. to choose the box) must not change what is written
                cr.get_tracefield_values(cr.stored_header_keys[-1])
            quiet(cr.write_cropped_file_by_indexes, q, iline_index_range=(a0, a1), xline_index_range=(b0, b1),
                  zslices_index_range=(0, len(out['src_z'])))
        w = lambda lo, hi, n: (4 * (lo // 4), min(n, -(-hi // 4) * 4))
        (i0, i1), (x0, x1) = w(a0, a1, n_i), w(b0, b1, n_x)
        out['src_il'], out['src_xl'] = out['src_il'][i0:i1], out['src_xl'][x0:x1]
        out['src_tracecount'] = (i1 - i0) * (x1 - x0)
        out['crop_box'] = [a0, a1, b0, b1]
        out['crop_units'] = ((i0, i1), (x0, x1))
        p = q
    if post == 'cropz_export':
        # three steps: convert, crop the SAMPLE axis at a non-zero start, export: the exported sample axis must be the
        # source's restricted to the crop widened to z-block boundaries (the start time travels through the cropped
        # header and the regenerated delay).  16 bit -> z-blocks of 128 samples.
        nz = len(out['src_z'])
        zb = 128
        z0 = zb * (1 + c['box'][0] % max(1, (nz - 1) // zb))
        q = os.path.join(d, 'cropz.sgz')
        with SgzCropper(p) as cr:
            quiet(cr.write_cropped_file_by_indexes, q, iline_index_range=(0, len(out['src_il'])), xline_index_range=(0, len(out['src_xl'])),
                  zslices_index_range=(z0 + min(3, nz - z0 - 1), nz))
        out['src_z'] = out['src_z'][z0:]
        out['crop_z0'] = z0
        p = q
        post = 'export'
    if post == 'reblock':
        q = os.path.join(d, 'adv.sgz')
        with SgzConverter(p) as cv:
            if _hq(c) % 2 and cv.stored_header_keys:
                cv.get_tracefield_values(cv.stored_header_keys[-1])
            quiet(cv.convert_to_adv_sgz, q)
        p = q
    with SgzReader(p) as r:
        hb = bytes(r.headerbytes[:4096])
        out['fields'] = {o: _struct.unpack('<I', hb[o:o + 4])[0] for o in OFFS}
        out['hdr'] = {}
        for nm in HDR_FIELDS:
            kind, off = nm.split('_')[1], int(nm.split('_')[2])
            out['hdr'][nm] = _struct.unpack('<i' if kind == 'i32' else '<I', hb[off:off + 4])[0]
        out['ver'] = _struct.unpack('<I', hb[72:76])[0]
        out['f64_92'] = _struct.unpack('<d', hb[92:100])[0]
        out['il'], out['xl'] = [int(v) for v in r.ilines], [int(v) for v in r.xlines]
        out['il_dtype'], out['xl_dtype'], out['z_dtype'] = str(r.ilines.dtype), str(r.xlines.dtype), str(r.zslices.dtype)
        out['z'] = [fhex(v) for v in r.zslices]
        out['tracecount'], out['structured'] = int(r.tracecount), bool(r.structured)
        out['n_il'], out['n_xl'], out['n_s'] = int(r.n_ilines), int(r.n_xlines), int(r.n_samples)
        if src_grids:
            (i0_, i1_), (x0_, x1_) = out.get('crop_units', ((src_box[0], src_box[1]), (src_box[2], src_box[3])))
            for k, g in src_grids.items():
                got = r.get_tracefield_values(k) if k in [int(q_) for q_ in r.stored_header_keys] else None
                want = g[i0_:i1_, x0_:x1_]
                if got is None or got.shape != want.shape or not np.array_equal(got, want):
                    out['trace_lines_bad'] = (f'per-trace header word {k} of the written file is not the source\'s for the same traces: '
                                              f'{None if got is None else got.reshape(-1)[:4].tolist()} vs {want.reshape(-1)[:4].tolist()}')
                    break
    if post == 'export':
        q = os.path.join(d, 'out.sgy')
        with SgzConverter(p) as cv:
            if _hq(c) % 3 == 1 and cv.stored_header_keys:
                cv.get_tracefield_values(cv.stored_header_keys[-1])
            quiet(cv.convert_to_segy, q)
        with segyio.open(q) as f:
            out['exp_il'], out['exp_xl'] = [int(v) for v in f.ilines], [int(v) for v in f.xlines]
            out['exp_z'] = [fhex(v) for v in f.samples]
            out['exp_tracecount'] = int(f.tracecount)
    return out


def _hq(c):
    """which cases precede a write by a header query on the same object: a function of the case, so that replays agree"""
    return sum(int(v) for v in (c.get('box') or [c['ns']])) + c['ns']


def close_enough(hx, hy):
    x, y = float.fromhex(hx), float.fromhex(hy)
    if x == y:
        return True
    return abs(x - y) <= 4 * math.ulp(max(abs(x), abs(y)))


def oracle(c, o):
    """the property statement on the real code"""
    inp = dict(c)
    if 'raised' in o:
        # a well-formed source must convert; int64 steps outside int32 are outside the statement (and must raise)
        big_step = c['route'] == 'numpy' and not c['i32'] and not (I32MIN <= c['il'][1] <= I32MAX and I32MIN <= c['xl'][1] <= I32MAX)
        if not big_step:
            R.violation('oracle', inp, 'conversion of a regular source raised: ' + o['raised'])
        return
    bad = []
    if o['il'] != o['src_il']:
        bad.append(f"ilines {o['il']} != source {o['src_il']}")
    if o['xl'] != o['src_xl']:
        bad.append(f"xlines {o['xl']} != source {o['src_xl']}")
    if len(o['z']) != len(o['src_z']) or not all(close_enough(x, y) for x, y in zip(o['z'], o['src_z'])):
        bad.append(f"zslices {[float.fromhex(v) for v in o['z']]} != source samples {[float.fromhex(v) for v in o['src_z']]}")
    elif o['z'] != o['src_z']:
        R.count('zslices_equal_within_rounding_but_not_bitwise')
    if o['tracecount'] != o['src_tracecount']:
        bad.append(f"tracecount {o['tracecount']} != source {o['src_tracecount']}")
    if o['structured'] is not True:
        bad.append('structured is False for a regular source')
    if (o['n_il'], o['n_xl'], o['n_s']) != (len(o['src_il']), len(o['src_xl']), len(o['src_z'])):
        bad.append(f"counts {(o['n_il'], o['n_xl'], o['n_s'])} != source {(len(o['src_il']), len(o['src_xl']), len(o['src_z']))}")
    if 'exp_il' in o:
        if o['exp_il'] != o['src_il'] or o['exp_xl'] != o['src_xl'] or o['exp_tracecount'] != o['src_tracecount']:
            bad.append(f"exported SEG-Y axes {o['exp_il']} {o['exp_xl']} / {o['exp_tracecount']} traces != source")
        if len(o['exp_z']) != len(o['src_z']) or not all(close_enough(x, y) for x, y in zip(o['exp_z'], o['src_z'])):
            bad.append(f"exported SEG-Y samples {[float.fromhex(v) for v in o['exp_z']]} != source")
    if o.get('trace_lines_bad'):
        bad.append(o['trace_lines_bad'])
    for b in bad:
        R.violation('oracle', inp, b)


# ------------------------------------------------------------------------------------------------ model side
def coq_float(hx):
    if hx.startswith('-'):
        return f'(-{hx[1:]})%float'
    return f'({hx})%float'


def cube_term(c, o):
    il, xl = c['il'], c['xl']
    if c['route'] == 'segy' or c.get('samples') == 'formula':
        smp = f"(segy_samples {zlit(c['dt'])} {zlit(c['t0'])} {c['ns']})"
    elif c['samples'] == 'int':
        smp = '(map VZ [' + '; '.join(zlit(v) for v in o['samples_in']) + '])'
    else:
        smp = '(map VZ [' + '; '.join(str(4 * k) for k in range(c['ns'])) + '])'
    w = c.get('window') or (0, il[2], 0, xl[2])
    return ('{| c_il0 := %s; c_ils := %s; c_iln := %s; c_xl0 := %s; c_xls := %s; c_xln := %s; c_i32 := %s; c_samples := %s; '
            'c_wil0 := %s; c_wiln := %s; c_wxl0 := %s; c_wxln := %s |}' %
            (zlit(il[0]), zlit(il[1]), il[2], zlit(xl[0]), zlit(xl[1]), xl[2], 'true' if c['i32'] else 'false', smp,
             w[0], w[1] - w[0], w[2], w[3] - w[2]))


def raw_list(s):
    """top-level items of a printed Coq list, as raw text (parse_value would turn (-0)%float into the integer 0)"""
    s = s.strip()
    assert s.startswith('[') and s.endswith(']'), s[:80]
    inner = s[1:-1].strip()
    return [x.strip() for x in _split_top(inner, ';')] if inner else []


def parse_float_text(s):
    s = str(s).strip().replace('%float', '')
    while s.startswith('(') and s.endswith(')'):
        s = s[1:-1].strip()
    s = s.replace(' ', '')
    if s in ('infinity',):
        return float('inf')
    if s in ('neg_infinity', '-infinity'):
        return float('-inf')
    if s == 'nan':
        return float('nan')
    if '0x' in s:
        return float.fromhex(s)
    return float(s)


def parse_vals(v):
    """Coq list of val (already through parse_value) -> list of ('Z'|'I32'|'F', value)"""
    out = []
    for x in (raw_list(v) if isinstance(v, str) else v):
        kind, rest = x.split(' ', 1)
        if kind == 'VF':
            out.append(('F', parse_float_text(rest).hex()))
        else:
            out.append(('I32' if kind == 'VI32' else 'Z', parse_value(rest)))
    return out


def parse_outcome(s):
    s = s.strip()
    while s.startswith('(') and s.endswith(')'):
        s = s[1:-1].strip()
    if s.startswith('Return'):
        b = s[len('Return'):].strip()
        while b.startswith('(') and b.endswith(')'):
            b = b[1:-1].strip()
        return ('ok', b)
    return ('raise', s)


def correspondence(todo):
    terms, index = [], []
    for c, o in todo:
        if 'post' in c:
            continue
        terms.append(f'model_write {cube_term(c, o)}'); index.append((c, o, 'write'))
        if c['route'] == 'segy' or c.get('samples') == 'formula':
            terms.append(f"segy_samples {zlit(c['dt'])} {zlit(c['t0'])} {c['ns']}"); index.append((c, o, 'samples'))
        if 'raised' not in o:
            fl = '[' + '; '.join(f'({k}, {v})' for k, v in o['fields'].items()) + ']'
            terms.append(f"model_read {fl} (version_reencode {o['ver']})"); index.append((c, o, 'read'))
            hl = '[' + '; '.join(zlit(o['hdr'][nm]) for nm in HDR_FIELDS) + ']'
            terms.append(f'(rd_tracecount (hdr_of_list {hl}), rd_structured (hdr_of_list {hl}), rd_n_ilines (hdr_of_list {hl}), '
                         f'rd_n_xlines (hdr_of_list {hl}), rd_n_samples (hdr_of_list {hl}))'); index.append((c, o, 'counts'))
    vals = coq_eval(['SZ.Lib.Py', 'SZ.Gen.Version', 'SZ.Gen.Reader', 'SZ.Gen.Geometry', 'SZ.Model.Geometry'], terms,
                    preamble='From Coq Require Import PrimFloat.', shard=300)
    for (c, o, what), v in zip(index, vals):
        inp = dict(c)
        if what == 'write':
            pv = parse_value(v)
            model = {off: parse_outcome(t) for off, t in pv}
            if 'raised' in o:
                if all(m[0] == 'ok' for m in model.values()):
                    R.violation('corr', inp, f"implementation raised ({o['raised']}) but the model writes every geometry field")
                R.count('both_raise')
                continue
            for off in OFFS:
                m = model[off]
                if m[0] != 'ok' or parse_value(m[1]) != o['fields'][off]:
                    R.violation('corr', inp, f"header bytes {off}:{off + 4}: model {m}, implementation {o['fields'][off]}")
        elif what == 'samples':
            got = [h for _, h in parse_vals(v)]
            want = o['src_z'] if c['route'] == 'segy' else o['samples_in']
            if c['route'] == 'segy' and c.get('window') is None and got != want:
                R.violation('corr', inp, f'segy_samples model {got} != segyio f.samples {want}')
            if c['route'] == 'numpy' and got != want:
                R.violation('corr', inp, f'segy_samples model {got} != numpy arange(n)*(d/1000.0)+t0 {want}')
        elif what == 'read':
            raw = v.strip()
            assert raw.startswith('(') and raw.endswith(')'), raw[:80]
            mi, mx, mz = [x.strip() for x in _split_top(raw[1:-1], ',')]
            for nm, mo, real, dt_ in (('ilines', mi, o['il'], o['il_dtype']), ('xlines', mx, o['xl'], o['xl_dtype'])):
                st, body = parse_outcome(mo)
                got = parse_vals(body) if st == 'ok' else None
                if got is None or [g[1] for g in got] != real or any(g[0] != 'I32' for g in got) or dt_ != 'int32':
                    R.violation('corr', inp, f'reader {nm}: model {mo}, implementation {real} dtype {dt_}')
            st, body = parse_outcome(mz)
            got = parse_vals(body) if st == 'ok' else None
            if got is None or [g[1] for g in got] != o['z'] or any(g[0] != 'F' for g in got) or o['z_dtype'] != 'float64':
                R.violation('corr', inp, f"reader zslices: model {mz}, implementation {o['z']} dtype {o['z_dtype']}")
            if o['f64_92'] != 0.0:
                R.violation('corr', inp, 'header double at 92:100 is not zero for a non-ZGY source')
        else:
            tc, stt, ni, nx, nz = parse_value(v)
            if (tc, stt, ni, nx, nz) != (o['tracecount'], o['structured'], o['n_il'], o['n_xl'], o['n_s']):
                R.violation('corr', inp, f"counts: model {(tc, stt, ni, nx, nz)}, implementation "
                                         f"{(o['tracecount'], o['structured'], o['n_il'], o['n_xl'], o['n_s'])}")


def primitive_correspondence():
    """binary64 primitives of the model against numpy / Python"""
    vals = [0.0, -0.0, 0.5, -0.5, 1.5, -1.5, 2.5, -2.5, 0.49999999999999994, 0.5000000000000001, 1e-320, -5e-324, 2.0 ** 52 - 0.5,
            2.0 ** 52 + 1, 2.0 ** 51 + 0.5, -(2.0 ** 51 + 1.5), 2.0 ** 53, 1e15 + 0.5, 1e22, -1e300, 4503599627370495.5,
            1000.9999999999999, 1000.0 * (1001 / 1000.0), 2147483647.5, -2147483648.5, 9.2e18, 123456789.987654321]
    g = np.random.RandomState(rng.randrange(2 ** 31))
    n = 600 if quick else 6000
    vals += list(g.standard_normal(n // 3) * 3) + list((g.randint(-2000, 2000, n // 3) + 0.5).astype(float)) + \
        [float(np.ldexp(g.uniform(0.5, 1.0), int(e))) * (1 if g.rand() < 0.5 else -1) for e in g.randint(-60, 70, n // 3)]
    vals = [float(v) for v in vals]
    ints = [0, 1, -1, 2 ** 53, 2 ** 53 + 1, -(2 ** 53 + 1), 2 ** 62 + 12345, -(2 ** 62 + 1), 2 ** 63 - 1, -(2 ** 63 - 1), 65535, 1000] + \
        [rng.randrange(-2 ** 62, 2 ** 62) for _ in range(200)] + [rng.randrange(-2 ** 40, 2 ** 40) for _ in range(100)]
    pairs = [(d, 1000) for d in BAD[:50] + BAD[-50:]] + [(rng.randrange(-2 ** 52, 2 ** 52), rng.choice([1, -3, 7, 1000, 2 ** 40 + 1, -999])) for _ in range(200)]
    terms = []
    CH = 100
    chunks = [vals[i:i + CH] for i in range(0, len(vals), CH)]
    for ch in chunks:
        l = '[' + '; '.join(coq_float(v.hex()) for v in ch) + ']'
        terms.append(f'map f_rint {l}')
        terms.append(f'map f_trunc_Z {l}')
    terms.append('map f_of_Z [' + '; '.join(zlit(z) for z in ints) + ']')
    terms.append('map (fun p => truediv (VZ (fst p)) (VZ (snd p))) [' + '; '.join(f'({zlit(x)}, {zlit(y)})' for x, y in pairs) + ']')
    out = coq_eval(['SZ.Lib.Py', 'SZ.Gen.Geometry', 'SZ.Model.Geometry'], terms, preamble='From Coq Require Import PrimFloat.', shard=8)
    k = 0
    for ch in chunks:
        mr = [parse_float_text(t).hex() for t in raw_list(out[k])]
        mt = parse_value(out[k + 1])
        k += 2
        for v, r1, t1 in zip(ch, mr, mt):
            want_r = float(np.rint(np.float64(v))).hex()
            want_t = int(v)
            R.case(('prim', v.hex()), nontrivial=True)
            if r1 != want_r:
                R.violation('corr', {'value': v.hex()}, f'f_rint model {r1} numpy.rint {want_r}')
            if t1 != want_t:
                R.violation('corr', {'value': v.hex()}, f'f_trunc_Z model {t1} int() {want_t}')
            if abs(v) < 2.0 ** 62 and int(np.float64(v).astype(int)) != want_t:
                R.violation('corr', {'value': v.hex()}, 'numpy astype(int) is not truncation toward zero')
    mf = [parse_float_text(t).hex() for t in raw_list(out[k])]
    for z, f1 in zip(ints, mf):
        R.case(('of_Z', z))
        if f1 != float(z).hex() or float(np.int64(z).astype(np.float64)).hex() != float(z).hex():
            R.violation('corr', {'int': z}, f'f_of_Z model {f1} float() {float(z).hex()}')
    md = raw_list(out[k + 1])
    for (x, y), t in zip(pairs, md):
        st, body = parse_outcome(t)
        R.case(('div', x, y))
        got = parse_float_text(body.split(' ', 1)[1]).hex() if st == 'ok' else None
        if got != (x / y).hex():
            R.violation('corr', {'x': x, 'y': y}, f'int/int true division: model {t}, Python {(x / y).hex()}')
    R.count('primitive_values', len(vals) + len(ints) + len(pairs))


# ------------------------------------------------------------------------------------------------ known finding D26 (note)
def d26_probe(d):
    """NumPy route with plain Python lists as axes (documented '1D array-like'): AttributeError, nothing is written wrongly;
    a fractional start time is outside the statement (whole-millisecond starts) and is truncated"""
    p = os.path.join(d, 'l.sgz')
    try:
        write_numpy_sgz(p, rnd_cube(rng, (2, 2, 3)), bpv=8, ilines=[1, 2], xlines=[3, 4], samples=[0.0, 4.0, 8.0])
        R.notes.append('D26 no longer reproduces: NumpyConverter accepts Python lists as axes')
    except AttributeError:
        R.known.append('D26-numpy-route-list-axes-raise')
        R.notes.append('D26 (known, outside the model): NumpyConverter with Python lists as axes raises AttributeError before anything is written')
    except Exception as e:
        R.notes.append('D26 probe raised ' + type(e).__name__)
    try:
        write_numpy_sgz(p, rnd_cube(rng, (2, 2, 3)), bpv=8, ilines=np.arange(2), xlines=np.arange(2), samples=2.5 + 4.0 * np.arange(3))
        with SgzReader(p) as r:
            z0 = float(r.zslices[0])
        if z0 != 2.5:
            R.notes.append(f'D26 (outside the statement): a fractional start time 2.5 ms is stored truncated ({z0})')
    except Exception as e:
        R.notes.append('D26 fractional-start probe raised ' + type(e).__name__)


# ------------------------------------------------------------------------------------------------ 2D lines
def lines_2d(d):
    """a 2D line is a regular source too: its trace count and sample axis (negative / positive whole-millisecond starts, whole-
    and sub-millisecond intervals) are the source's, through the reader and through seismic_zfp.open"""
    import seismic_zfp
    for k, (nt, ns, dt_us, t0) in enumerate([(rng.choice([5, 6, 9]), rng.choice([7, 12, 17]), rng.choice([4000, 2000, 1000]), rng.choice([-100, -12, -2000, -32768])),
                                             (rng.choice([4, 7]), rng.choice([5, 9]), rng.choice([500, 2500, 250]), rng.choice([0, 8, -8])),
                                             (rng.choice([3, 8]), rng.choice([6, 13]), rng.choice([4000, 3000]), rng.choice([100, 32767]))]):
        sgy, p = os.path.join(d, f'l2d{k}.sgy'), os.path.join(d, f'l2d{k}.sgz')
        inp = {'route': 'segy-2d', 'n_traces': nt, 'ns': ns, 'dt': dt_us, 't0': t0}
        R.case(('2d', nt, ns, dt_us, t0), nontrivial=True, sample=inp)
        R.count('2d_line' + ('_negative_start' if t0 < 0 else ''))
        try:
            mk_segy_2d(sgy, rnd_cube(rng, (1, nt, ns))[0], dt_us=dt_us, t0=t0)
            with segyio.open(sgy, strict=False) as f:
                want, wn = np.array(f.samples, dtype=np.float64), f.tracecount
            write_segy_sgz(sgy, p, bpv=8, blockshape=(1, 16, -1))
            with SgzReader(p) as r:
                got, gn = np.asarray(r.zslices, dtype=np.float64), r.tracecount
            with seismic_zfp.open(p) as f:
                got2, gn2 = np.asarray(f.samples, dtype=np.float64), f.tracecount
            for g, n_, how in ((got, gn, 'SgzReader'), (got2, gn2, 'seismic_zfp.open')):
                if n_ != wn:
                    R.violation('oracle', inp, f'{how}: trace count {n_}, source {wn}')
                if len(g) != len(want) or not np.allclose(g, want, rtol=1e-12, atol=1e-9):
                    R.violation('oracle', inp, f'{how}: sample axis of the 2D line {[float(v_) for v_ in g[:3]]}.. differs from the source {[float(v_) for v_ in want[:3]]}..')
        except Exception as e:
            R.violation('oracle', inp, 'valid 2D line raised ' + type(e).__name__ + ': ' + str(e)[:200])


# ------------------------------------------------------------------------------------------------ shared caller objects
def shared_arguments(d):
    """NumPy route: what the caller hands to one conversion (header dict, axis arrays) is the caller's; a later conversion that
    is given the same objects again -- or relies on the defaults -- must report ITS OWN source's axes.  Two cubes of the same
    il x xl shape, one header dict (without inline / crossline fields) passed to both converters: the first with explicit
    axes, the second with the default axes."""
    import segyio as _s
    n_il, n_xl, ns = rng.choice([(6, 7, 5), (4, 9, 6), (5, 5, 9)])
    hdrs = {_s.TraceField.CDP_X: (np.arange(n_il * n_xl, dtype=np.int32).reshape(n_il, n_xl) * 3 + 11),
            _s.TraceField.CDP_Y: (np.arange(n_il * n_xl, dtype=np.int32).reshape(n_il, n_xl) * -2 + 5000)}
    keys0 = sorted(int(k) for k in hdrs)
    il_a = np.arange(2100, 2100 - 5 * n_il, -5, dtype=np.int32)
    xl_a = np.arange(-40, -40 + 3 * n_xl, 3, dtype=np.int32)
    z_a = 100.0 + 2.0 * np.arange(ns)
    runs = [('A (explicit axes)', dict(ilines=il_a, xlines=xl_a, samples=z_a), il_a.tolist(), xl_a.tolist(), z_a.tolist()),
            ('B (default axes, same header dict)', {}, list(range(n_il)), list(range(n_xl)), None),
            ('C (explicit axes again, same header dict)', dict(ilines=il_a + 7, xlines=xl_a, samples=z_a), (il_a + 7).tolist(), xl_a.tolist(), z_a.tolist()),
            # ... and without any header dict: whatever the converter uses by default must not be shared between converters
            ('D (explicit axes, no header dict)', dict(ilines=il_a, xlines=xl_a, samples=z_a, _nohdr=True), il_a.tolist(), xl_a.tolist(), z_a.tolist()),
            ('E (default axes, no header dict)', dict(_nohdr=True), list(range(n_il)), list(range(n_xl)), None)]
    for name, kw, want_il, want_xl, want_z in runs:
        kw = dict(kw)
        hkw = {} if kw.pop('_nohdr', False) else {'trace_headers': hdrs}
        p = os.path.join(d, 'shared.sgz')
        inp = {'route': 'numpy, shared header dict', 'shape': [n_il, n_xl, ns], 'conversion': name}
        try:
            with NumpyConverter(rnd_cube(rng, (n_il, n_xl, ns)), **hkw, **kw) as c:
                quiet(c.run, p, bits_per_voxel=8)
            with SgzReader(p) as r:
                got_il, got_xl, got_z = [int(v) for v in r.ilines], [int(v) for v in r.xlines], [float(v) for v in r.zslices]
                if got_il != want_il or got_xl != want_xl or (want_z is not None and got_z != want_z) or r.tracecount != n_il * n_xl or not r.structured:
                    R.violation('oracle', inp, f'axes of the SGZ {got_il[:3]}.. / {got_xl[:3]}.. differ from those of its source {want_il[:3]}.. / {want_xl[:3]}..')
                g = r.get_tracefield_values(189)
                if [int(v) for v in g[:, 0]] != want_il:
                    R.violation('oracle', inp, f'inline header grid {[int(v) for v in g[:, 0]][:4]}.. is not the source axis {want_il[:4]}..')
        except Exception as e:
            R.violation('oracle', inp, f'valid NumPy conversion raised {type(e).__name__}: {e}')
        if sorted(int(k) for k in hdrs) != keys0 and not any('caller\'s header dict' in n_ for n_ in R.notes):
            R.notes.append('a converter inserted fields into the caller\'s header dict')
        R.case(('shared-args', name, n_il, n_xl, ns), sample=inp)
        R.count('numpy: shared caller objects')


# ------------------------------------------------------------------------------------------------ axes given through header arrays only
def axes_from_headers(d):
    """NumPy route: the inline / crossline axes handed over ONLY as INLINE_3D (189) / CROSSLINE_3D (193) header grids (no
    ilines= / xlines= arguments, or only one of them, or both consistently): the written file reports the axes the grids
    define (grid[:, 0] / grid[0, :]) in THAT order -- descending and negative axes included"""
    both = 'both grids, no axis arguments'
    plan = [(both, -1, 1), (both, 1, -1), (both, -1, -1), (both, 1, 1), ('inline grid only, xlines= given', -1, rng.choice([1, -1])),
            ('crossline grid only, ilines= given', rng.choice([1, -1]), -1), ('both grids and both (consistent) axis arguments', -1, -1)]
    for how, sg_il, sg_xl in plan:
        n_il, n_xl, ns = rng.choice([(4, 5, 6), (3, 7, 5), (6, 4, 7), (2, 2, 4)])
        il0, il_s = rng.choice([2100, -7, 15, 300]), sg_il * rng.choice([1, 2, 5])
        xl0, xl_s = rng.choice([-40, 1000, 8, 64]), sg_xl * rng.choice([1, 3, 4])
        il = [il0 + il_s * i for i in range(n_il)]
        xl = [xl0 + xl_s * i for i in range(n_xl)]
        dty = rng.choice([np.int32, np.int64])
        il_grid = np.repeat(np.array(il, dtype=dty)[:, None], n_xl, 1)
        xl_grid = np.repeat(np.array(xl, dtype=dty)[None, :], n_il, 0)
        hd, kw = {}, {}
        if how != 'crossline grid only, ilines= given':
            hd[189] = il_grid
        if how != 'inline grid only, xlines= given':
            hd[193] = xl_grid
        if 189 not in hd or how.startswith('both grids and'):
            kw['ilines'] = np.array(il, dtype=np.int32)
        if 193 not in hd or how.startswith('both grids and'):
            kw['xlines'] = np.array(xl, dtype=np.int32)
        hd[181] = np.arange(n_il * n_xl, dtype=np.int32).reshape(n_il, n_xl) * 3 + 11
        p = os.path.join(d, 'hdraxes.sgz')
        inp = {'route': 'numpy, axes through header arrays', 'shape': [n_il, n_xl, ns], 'given': how, 'il': il, 'xl': xl, 'dtype': np.dtype(dty).name}
        try:
            with NumpyConverter(rnd_cube(rng, (n_il, n_xl, ns)), trace_headers=hd, **kw) as c:
                quiet(c.run, p, bits_per_voxel=8)
            with SgzReader(p) as r:
                got_il, got_xl = [int(v) for v in r.ilines], [int(v) for v in r.xlines]
                if got_il != il:
                    R.violation('oracle', inp, f'ilines {got_il} != the axis the inline header grid defines {il}')
                if got_xl != xl:
                    R.violation('oracle', inp, f'xlines {got_xl} != the axis the crossline header grid defines {xl}')
                if r.tracecount != n_il * n_xl or not r.structured or (r.n_ilines, r.n_xlines, r.n_samples) != (n_il, n_xl, ns):
                    R.violation('oracle', inp, f'counts {(r.n_ilines, r.n_xlines, r.n_samples)} / tracecount {r.tracecount} / structured {r.structured} differ from the source')
                for f, grid in ((189, il_grid), (193, xl_grid)):
                    g = r.get_tracefield_values(f)
                    if g.shape != grid.shape or not np.array_equal(g, grid):
                        R.violation('oracle', inp, f'header grid {f} of the written file {g.reshape(-1)[:4].tolist()}.. is not the source\'s {grid.reshape(-1)[:4].tolist()}..')
        except Exception as e:
            R.violation('oracle', inp, f'valid NumPy conversion raised {type(e).__name__}: {e}')
        R.case(('hdr-axes', how, tuple(il), tuple(xl), ns), nontrivial=True, sample=inp)
        R.count('numpy: axes through header arrays' + (' (descending)' if sg_il < 0 or sg_xl < 0 else ''))


# ------------------------------------------------------------------------------------------------ main
def main():
    if a.replay:
        rp = json.load(open(a.replay))
        cases = [rp['input']] if 'route' in rp.get('input', {}) else []
        for c in cases:
            for k in ('il', 'xl'):
                c[k] = tuple(c[k])
            if c.get('window'):
                c['window'] = tuple(c['window'])
    else:
        cases = make_cases()
    d = scratch_dir()
    todo = []
    try:
        for c in cases:
            try:
                o = run_impl(c, d)
            except Exception as e:
                R.violation('oracle', dict(c), 'harness could not run the case: ' + type(e).__name__ + ': ' + str(e)[:200])
                continue
            oracle(c, o)
            todo.append((c, o))
            R.case(canon(c), nontrivial=True, sample={k: c[k] for k in ('route', 'il', 'xl', 'dt', 't0', 'ns')})
            R.count(c['route'] + ('_window' if c.get('window') else '') + ('_' + c['post'] if c.get('post') else ''))
            if c['dt'] in BAD:
                R.count('interval_in_the_741')
            if c['t0'] < 0:
                R.count('negative_start_time')
            if c['il'][1] < 0 or c['xl'][1] < 0:
                R.count('descending_axis')
            if min(c['il'][0], c['xl'][0], c['il'][0] + c['il'][1] * (c['il'][2] - 1), c['xl'][0] + c['xl'][1] * (c['xl'][2] - 1)) < 0:
                R.count('negative_line_numbers')
        if not a.replay:
            d26_probe(d)
            shared_arguments(d)
            lines_2d(d)
            axes_from_headers(d)
    finally:
        shutil.rmtree(d, ignore_errors=True)
    if not a.no_model or True:      # the model is evaluated inside Coq (coqeval), independent of the extracted driver
        try:
            correspondence(todo)
            if not a.replay:
                primitive_correspondence()
        except CoqEvalError as e:
            R.violation('corr', {'stage': 'coqeval'}, 'the model could not be evaluated (does coq/Model/Geometry.v still compile against Gen/Geometry.v?): ' + str(e)[-600:])
    R.write(a.out)


main()
