#!/usr/bin/env python3
"""Harness for C19 (configuration soundness).

A. Resolution level, every case:
   * correspondence: seismic_zfp.utils.define_blockshape_2d/_3d (the real code) against the Coq model `resolve`
     (Gen/Config.v, evaluated inside Coq with vm_compute through coqeval) -- returned rate/blockshape or exception class;
   * direct oracle (no model): the property evaluated on the real function with definitions written here from the
     property text only: whatever is returned must be well-formed (rate one of 8, dims powers of two >= 4, first 1 in 2D,
     product * rate = 32768 bits), must keep every parameter that was not free, and a request with a well-formed
     completion and at most one free parameter must be accepted (else: D13 when the completion is 2D below 1 bit).
B. File level, on the real converters (NumpyConverter, SegyConverter 3D, SegyConverter 2D), small cubes:
   each setting either raises BEFORE the output file exists, or the written file passes the conformance + fidelity
   oracle: SpecFile (decoder written from the specification) parses it, length = expected_length(), one block is 4096
   bytes of whole units, header rate/blockshape are the expected completion, SgzReader reads back bitwise what SpecFile
   decodes, and that is bitwise the zfpy image of the edge-padded source.  A setting the code accepts in 2D below
   1 bit runs in a child process (zfpy corrupts the heap there).
C. make_header's rate code (hand model hdr_rate_code) against the header of every written file.
"""
import os, sys, subprocess, re, itertools
sys.path.insert(0, os.path.dirname(os.path.abspath(__file__)))
from common import *
a = parse_args()
from hz import *
from fractions import Fraction
from coqeval import coq_eval, CoqEvalError
from seismic_zfp import utils as U

D13 = 'D13-2d-subunit-rate-refused'
R = Result('one case = one request (2D/3D, bits_per_voxel as int/float/str, blockshape) put through define_blockshape_* '
           '[model correspondence + resolution oracle] or through a real converter on a small cube [file oracle]; '
           'non-trivial = distinct request that is valid, or has exactly one free parameter, or is a one-step near-miss '
           '(one parameter +-1, x2, /2) of a valid setting; all 344 3D + 84 2D valid settings are enumerated exhaustively')
rng = random.Random(a.seed + 1900)
_quota = {}
_violation = R.violation


def violation(kind, inp, detail, finding_key=None, _group=None):
    """at most 16 recorded violations per (kind, level) so that one broken check cannot hide the others"""
    g = (kind, 'file' if 'route' in inp else 'resolution')
    _quota[g] = _quota.get(g, 0) + 1
    R.count(f'VIOLATIONS {g[0]}/{g[1]}')
    if _quota[g] <= 16 or finding_key:
        _violation(kind, inp, detail, finding_key)


R.violation = violation
THOROUGH = a.tier == 'thorough' or a.search
RATES = [Fraction(1, 4), Fraction(1, 2)] + [Fraction(k) for k in (1, 2, 4, 8, 16, 32)]
BITS = 32768


# ------------------------------------------------------------------ the property's definitions (oracle side)
def pow2ge4(n):
    return isinstance(n, int) and n >= 4 and (n & (n - 1)) == 0


def wf(d2, rate, dims):
    return (rate in RATES and len(dims) == 3 and (dims[0] == 1 if d2 else pow2ge4(dims[0])) and pow2ge4(dims[1])
            and pow2ge4(dims[2]) and dims[0] * dims[1] * dims[2] * rate == BITS)


def supported(d2, rate):
    return (not d2) or rate >= 1


def value_of(bpv):
    """the number an argument denotes (exact), or None"""
    if isinstance(bpv, bool):
        return None
    if isinstance(bpv, str):
        try:
            bpv = float(bpv)
        except ValueError:
            return None
    if isinstance(bpv, float) and (bpv != bpv or bpv in (float('inf'), float('-inf'))):
        return None
    return Fraction(bpv)


def rate_of(v):
    return 1 / (-v) if v < -1 else v


def completions(d2, bpv, bs):
    """(number of free parameters, list of well-formed completions) of a request, from the definition"""
    v = value_of(bpv)
    free = [i for i in range(3) if bs[i] == -1]
    rate_free = (v == -1)
    n_free = len(free) + (1 if rate_free else 0)
    if v is None or n_free > 1:
        return n_free, []
    if rate_free:
        p = bs[0] * bs[1] * bs[2]
        if p <= 0:
            return n_free, []
        r = Fraction(BITS, p)
        return n_free, [(r, tuple(bs))] if wf(d2, r, bs) else []
    r = rate_of(v)
    if not free:
        return 0, [(r, tuple(bs))] if wf(d2, r, bs) else []
    out = []
    for k in range(0, 18):
        dims = list(bs)
        dims[free[0]] = 2 ** k
        if wf(d2, r, tuple(dims)):
            out.append((r, tuple(dims)))
    return n_free, out


def valid_settings(d2):
    out = []
    for r in RATES:
        p = BITS / r
        k = p.numerator.bit_length() - 1
        assert p == 2 ** k
        if d2:
            out += [(r, (1, 2 ** i, 2 ** (k - i))) for i in range(2, k - 1)]
        else:
            out += [(r, (2 ** i, 2 ** j, 2 ** (k - i - j))) for i in range(2, k - 3) for j in range(2, k - i - 1)]
    return out


def rate_forms(r):
    if r >= 1:
        n = int(r)
        return [n, float(n), str(n), str(float(n))]
    inv = int(1 / r)
    return [float(r), -inv, str(float(r)), str(-inv), float(-inv)]


# ------------------------------------------------------------------ the real code, resolution level
def real_resolve(d2, bpv, bs):
    try:
        q, dims = (U.define_blockshape_2d if d2 else U.define_blockshape_3d)(bpv, bs)
        return ('ok', Fraction(q), tuple(int(x) for x in dims))
    except Exception as e:
        return ('exc', exc_class(e))


def zl(n):
    return f'({n})' if n < 0 else str(n)


def qterm(fr):
    return f'(Qmake {zl(fr.numerator)} {fr.denominator}%positive)'


def arg_term(bpv):
    if isinstance(bpv, int):
        return f'(AInt {zl(bpv)})'
    if isinstance(bpv, float):
        return f'(AFloat {qterm(Fraction(bpv))})'
    v = value_of(bpv)
    return f'(AStr (Some {qterm(v)}))' if v is not None else '(AStr None)'


def model_term(d2, bpv, bs):
    return f'show (resolve (Build_cfg {"true" if d2 else "false"} {arg_term(bpv)} ({zl(bs[0])}, {zl(bs[1])}, {zl(bs[2])})))'


PREAMBLE = ('From Coq Require Import QArith.\nOpen Scope Z_scope.\n'
            'Definition show (o : outcome (Q * (Z * Z * Z))) : outcome (list Z) :=\n'
            '  match o with Return (q, (x, y, z)) => Return [Qnum q; Zpos (Qden q); x; y; z] | Raise e => Raise e end.\n')


def parse_model(s):
    s = s.replace('%Q', '').replace('%Z', '')
    if s.startswith('Raise'):
        return ('exc', s.split()[1].strip('()'))
    if not s.startswith('Return'):
        raise CoqEvalError('unparsable model value: ' + s)
    nums = [int(x.replace(' ', '')) for x in re.findall(r'-\s*\d+|\d+', s.replace('(', ' ').replace(')', ' '))]
    if len(nums) != 5:
        raise CoqEvalError('unparsable model value: ' + s)
    return ('ok', Fraction(nums[0], nums[1]), tuple(nums[2:]))


# ------------------------------------------------------------------ requests
def canon(d2, bpv, bs):
    return ('2d' if d2 else '3d', repr(bpv), tuple(bs))


requests = {}          # canon -> (d2, bpv, bs, nontrivial)


def add(d2, bpv, bs, nontrivial):
    if isinstance(bpv, bool) or any(isinstance(x, bool) or not isinstance(x, int) for x in bs):
        return
    v = value_of(bpv)
    if isinstance(bpv, float) and v is None:
        return
    k = canon(d2, bpv, bs)
    if k not in requests:
        requests[k] = (d2, bpv, tuple(bs), nontrivial)
    elif nontrivial and not requests[k][3]:
        requests[k] = (d2, bpv, tuple(bs), True)


VALID = {False: valid_settings(False), True: valid_settings(True)}
assert len(VALID[False]) == 344 and len(VALID[True]) == 84
file_cases = []        # (route, d2, bpv, bs)
for d2 in (False, True):
    for idx, (r, dims) in enumerate(VALID[d2]):
        forms = rate_forms(r)
        use = forms if THOROUGH else [forms[idx % len(forms)], forms[(idx + 1) % len(forms)]]
        for f in use:
            add(d2, f, dims, True)
        f0 = forms[idx % len(forms)]
        # each parameter left free in turn
        add(d2, -1, dims, True)
        if idx % 5 == 0:
            add(d2, "-1", dims, True)
            add(d2, -1.0, dims, True)
        for i in range(3):
            fr = list(dims)
            fr[i] = -1
            add(d2, f0, tuple(fr), True)
            # two free
            add(d2, -1, tuple(fr), False)
            for j in range(i + 1, 3):
                fr2 = list(fr)
                fr2[j] = -1
                add(d2, f0, tuple(fr2), False)
        # one-step near-misses of each parameter
        for i in range(3):
            for nv in (dims[i] + 1, dims[i] - 1, dims[i] * 2, dims[i] // 2, 0, 3, 6):
                nm = list(dims)
                nm[i] = nv
                add(d2, f0, tuple(nm), True)
                if idx % 3 == 0:                      # near-miss combined with another parameter left free
                    fr = list(nm)
                    fr[(i + 1) % 3] = -1
                    add(d2, f0, tuple(fr), False)
                    add(d2, -1, tuple(nm), False)
        rv = float(r)
        for nb in (rv * 2, rv / 2, rv + 1, rv - 1, rv * 3, -rv, 0, 0.0, 0.3, 3, -3, 5, 64, 0.125, -8, -16, "0.3", "abc", ""):
            add(d2, nb, dims, True)
            if idx % 3 == 0:
                fr = list(dims)
                fr[2] = -1
                add(d2, nb, tuple(fr), False)
        # file-level cases
        route = 'segy2d' if d2 else 'numpy'
        file_cases.append((route, d2, f0, dims))
        if not d2 and (THOROUGH or idx % 8 == 0):
            file_cases.append(('segy3d', d2, forms[(idx + 1) % len(forms)], dims))
        if not d2 and dims[0] in (8, 16) and (THOROUGH or idx % 3 == 0):
            file_cases.append(('segy3d-rio', d2, f0, dims))          # reduce_iops=True, several plane sets of 8 / 16 inlines
        if THOROUGH or idx % 4 == 0:
            i = rng.randrange(4)
            if i == 3:
                file_cases.append((route, d2, rng.choice([-1, "-1", -1.0]), dims))
            else:
                fr = list(dims)
                fr[i] = -1
                file_cases.append((route, d2, forms[(idx + 2) % len(forms)], tuple(fr)))

# the grid of the property: bits_per_voxel x blockshape^3 (products <= 2^17), seeded sample
BPV = list(range(-16, 0)) + [0] + list(range(1, 34)) + [64] + \
      [0.25, 0.5, 0.3, 0.75, 1.0, 1.5, 2.0, 3.0, 4.0, 8.0, 16.0, 32.0, 64.0, -1.0, -2.0, -4.0, -0.5, 0.125, 0.0, -3.0] + \
      ["4", "4.0", "0.5", "0.25", "-2", "-4", "-1", "0.3", "3", "32", "1e1", " 8 ", "abc", "", "-1.0"]
DIMS = [-1, 0, 1, 2, 3, 4, 5, 6, 7, 8, 12, 16, 32, 64, 100, 128, 256, 512, 682, 1024, 2048, 4096, 8192, 16384, 32768]
n_grid = 20000 if THOROUGH else 2500
for _ in range(n_grid):
    d2 = rng.random() < 0.3
    bs = (1 if (d2 and rng.random() < 0.9) else rng.choice(DIMS), rng.choice(DIMS), rng.choice(DIMS))
    if abs(bs[0] * bs[1] * bs[2]) > 2 ** 17:
        continue
    add(d2, rng.choice(BPV), bs, False)
# a few unbounded integers (the theorems quantify over all of Z)
for big in (2 ** 40, 2 ** 70 + 1, -2 ** 60):
    add(False, 4, (4, big, -1), False)
    add(False, -1, (4, 4, big), False)
    add(False, big, (4, 4, -1), False)

if a.replay:
    rp = json.load(open(a.replay))['input']
    requests.clear()
    add(bool(rp['d2']), eval(rp['bpv']), tuple(rp['bs']), True)
    file_cases = [(rp.get('route') or ('segy2d' if rp['d2'] else 'numpy'), bool(rp['d2']), eval(rp['bpv']), tuple(rp['bs']))]

# ------------------------------------------------------------------ A. resolution level
keys = sorted(requests, key=lambda k: (k[0], k[1], k[2]))
reals = {}
known_d13 = False
for k in keys:
    d2, bpv, bs, nontriv = requests[k]
    inp = {'d2': d2, 'bpv': repr(bpv), 'bs': list(bs)}
    real = real_resolve(d2, bpv, bs)
    reals[k] = real
    n_free, comps = completions(d2, bpv, bs)
    R.case(k, nontrivial=nontriv, sample={'request': inp, 'real': str(real)} if nontriv and rng.random() < 0.01 else None)
    R.count('resolution:' + ('accepted' if real[0] == 'ok' else real[1]))
    v = value_of(bpv)
    if real[0] == 'ok':
        _, q, dims = real
        if not wf(d2, q, dims):
            R.violation('oracle', inp, f'accepted as rate {q} blockshape {dims}, which is not a well-formed configuration')
        elif not supported(d2, q):
            R.violation('oracle', inp, f'accepted as rate {q} blockshape {dims}: a 2D unit of {16 * q} bits, below the 9 bits '
                        'ZFP needs (zfpy corrupts the heap)')
        else:
            kept = all(bs[i] == -1 or dims[i] == bs[i] for i in range(3)) and v is not None and (v == -1 or q == rate_of(v))
            if not kept:
                R.violation('oracle', inp, f'accepted as rate {q} blockshape {dims}: a parameter that was not free was changed')
            elif n_free > 1:
                R.violation('oracle', inp, f'more than one free parameter accepted as rate {q} blockshape {dims}')
    else:
        ok_req = n_free <= 1 and (not d2 or bs[0] == 1)
        sup = [c for c in comps if supported(d2, c[0])]
        if ok_req and sup:
            R.violation('oracle', inp, f'refused ({real[1]}) although {sup[0]} is a well-formed completion')
        elif ok_req and comps:
            # valid in the property's sense, refused because ZFP cannot code a 4x4 unit below 9 bits (D13)
            R.count('D13 refused')
            if not known_d13:
                known_d13 = True
                R.violation('oracle', inp, f'valid 2D setting {comps[0]} refused ({real[1]}): 2D below 1 bit per voxel '
                            'is not supported', finding_key=D13)
if known_d13:
    R.known.append(D13)

if not a.no_model:
    try:
        vals = coq_eval(['SZ.Lib.Py', 'SZ.Lib.PyConfig', 'SZ.Model.Config'], [model_term(*requests[k][:3]) for k in keys],
                        preamble=PREAMBLE)
        for k, s in zip(keys, vals):
            m = parse_model(s)
            real = reals[k]
            if m != real:
                big = any(abs(x) > 2 ** 53 for x in k[2]) or (isinstance(requests[k][1], int) and abs(requests[k][1]) > 2 ** 53)
                if big and m[0] == 'exc' and real[0] == 'exc':
                    R.count('corr: exception class differs beyond 2^53 (float conversion), both raise')
                    continue
                d2, bpv, bs, _ = requests[k]
                R.violation('corr', {'d2': d2, 'bpv': repr(bpv), 'bs': list(bs)}, f'model {m} implementation {real}')
        R.count('corr:resolve', len(keys))
        codes = coq_eval(['SZ.Lib.Py', 'SZ.Lib.PyConfig', 'SZ.Model.Config'], [f'hdr_rate_code {qterm(r)}' for r in RATES],
                         preamble=PREAMBLE)
        MODEL_CODE = {r: int(c.replace('(', '').replace(')', '').replace(' ', '')) for r, c in zip(RATES, codes)}
    except CoqEvalError as e:
        R.violation('corr', {'model': 'SZ.Model.Config'}, 'the model does not evaluate: ' + str(e)[-800:])
        MODEL_CODE = None
else:
    MODEL_CODE = None

# ------------------------------------------------------------------ B. file level
tmp = scratch_dir()
SHAPE3 = (5, 6, 17)
SHAPE2 = (21, 70)
cube = rnd_cube(rng, SHAPE3)
line = rnd_cube(rng, SHAPE2)
sgy3 = os.path.join(tmp, 'c.sgy')
mk_segy(sgy3, cube, range(10, 10 + SHAPE3[0]), range(20, 20 + SHAPE3[1]))
sgy2 = os.path.join(tmp, 'l.sgy')
mk_segy_2d(sgy2, line)
# a cube with more inlines than any lateral block dimension tried through the reduced-I/O SEG-Y reader (route 'segy3d-rio')
SHAPE3B = (20, 6, 17)
cube_b = rnd_cube(rng, SHAPE3B)
sgy3b = os.path.join(tmp, 'cb.sgy')
mk_segy(sgy3b, cube_b, range(10, 10 + SHAPE3B[0]), range(20, 20 + SHAPE3B[1]))
_zf = {}


def pad4(x):
    return np.pad(x, [(0, (-n) % 4) for n in x.shape], mode='edge')


def zfp_image(src, rate):
    key = (id(src), rate)
    if key not in _zf:
        _zf[key] = zfpy.decompress_numpy(zfpy.compress_numpy(pad4(src), rate=float(rate), write_header=True))
    return _zf[key]


def convert(route, out, bpv, bs):
    if route == 'numpy':
        write_numpy_sgz(out, cube, bpv=bpv, blockshape=bs)
    else:
        write_segy_sgz({'segy3d': sgy3, 'segy3d-rio': sgy3b}.get(route, sgy2), out, bpv=bpv, blockshape=bs, reduce_iops=(route == 'segy3d-rio'))


def check_file(route, out, expect):
    """conformance + fidelity of a written file; returns '' or a description of what is wrong"""
    s = SpecFile(out)
    d2 = route == 'segy2d'
    src = line if d2 else (cube_b if route == 'segy3d-rio' else cube)
    if len(s.raw) != s.expected_length():
        return f'file length {len(s.raw)}, the header implies {s.expected_length()}'
    if s.is2d != d2:
        return f'blockshape {s.bs}: 2D flag wrong'
    if not wf(d2, s.rate, s.bs) or not supported(d2, s.rate):
        return f'header rate {s.rate} blockshape {s.bs} is not a well-formed configuration'
    if s.ub < 1 or (s.bs[0] * s.bs[1] * s.bs[2] * s.rate) / 8 != 4096 or 4096 % s.ub:
        return f'one block is not 4096 bytes of whole units (unit {s.ub} bytes)'
    if expect is not None and (s.rate, s.bs) != expect:
        return f'header rate {s.rate} blockshape {s.bs}, expected {expect}'
    R.count('corr:rate code of a written file' if MODEL_CODE is not None else 'rate code not compared (no model)')
    if MODEL_CODE is not None and MODEL_CODE[s.rate] != s.rate_code:
        return f'CORR rate code in the header {s.rate_code}, hand model hdr_rate_code gives {MODEL_CODE[s.rate]}'
    if len(s.data) != 4096 * s.ndb or s.shape_pad[0] * s.shape_pad[1] * s.shape_pad[2] * s.rate / 8 != len(s.data):
        return f'data section {len(s.data)} bytes for padded shape {s.shape_pad} at rate {s.rate}'
    with SgzReader(out) as r:
        if d2:
            got = np.stack([r.get_trace(i) for i in range(r.tracecount)])
            got2 = r.read_subplane(0, SHAPE2[0], 0, SHAPE2[1])
            if not bits_equal(got, got2):
                return 'get_trace and read_subplane disagree'
        else:
            got = r.read_volume()
            # every access path of an accepted setting must be a slice of that volume (the layout-specialised loaders)
            n0, n1, n2 = src.shape
            for i in sorted({0, n0 - 1, n0 // 2}):
                if not bits_equal(r.read_inline(i), got[i]):
                    return f'read_inline({i}) is not the inline of read_volume()'
            for x in sorted({0, n1 - 1, n1 // 2}):
                if not bits_equal(r.read_crossline(x), got[:, x]):
                    return f'read_crossline({x}) is not the crossline of read_volume()'
            for z in sorted({0, n2 - 1, n2 // 2, min(n2 - 1, 5)}):
                if not bits_equal(r.read_zslice(z), got[:, :, z]):
                    return f'read_zslice({z}) is not the z-slice of read_volume()'
            for t in (range(n0 * n1) if n0 * n1 <= 240 else sorted({0, n0 * n1 - 1, (n0 * n1) // 2, n1 - 1, n1})):
                if not bits_equal(r.get_trace(t), got[t // n1, t % n1]):
                    return f'get_trace({t}) is not the trace of read_volume()'
            dg = r.read_correlated_diagonal(0)
            if not bits_equal(dg, np.stack([got[k_, k_] for k_ in range(min(n0, n1))])):
                return 'read_correlated_diagonal(0) is not the diagonal of read_volume()'
            # sub-volumes not aligned with the blocks: starting one short of a block boundary on every axis that has one, and
            # the cube less its first line / sample on every axis
            b_ = [int(v) for v in r.blockshape]
            lo_ = [min(max(b_[k] - 1, 0), max(n_ - 2, 0)) if n_ > b_[k] else min(1, n_ - 1) for k, n_ in enumerate((n0, n1, n2))]
            for box in ((lo_[0], n0, lo_[1], n1, lo_[2], n2), (1, n0, 1, n1, 1, n2),
                        (lo_[0], min(n0, lo_[0] + 2), 0, n1, lo_[2], min(n2, lo_[2] + 2)), (0, n0, lo_[1], min(n1, lo_[1] + 2), 0, n2)):
                if box[0] < box[1] and box[2] < box[3] and box[4] < box[5]:
                    sv_ = r.read_subvolume(*box)
                    want_ = got[box[0]:box[1], box[2]:box[3], box[4]:box[5]]
                    if sv_.shape != want_.shape or not bits_equal(sv_, want_):
                        return f'read_subvolume{box} (shape {sv_.shape}) is not that box of read_volume() (shape {want_.shape})'
    sl = tuple(slice(0, n) for n in src.shape)
    sv = s.volume()[sl]
    if got.shape != src.shape or not bits_equal(got, sv):
        return 'the reader does not return what the specification decodes from the file'
    if not bits_equal(sv, zfp_image(src, s.rate)[sl]):
        return 'the decoded volume is not the zfp image of the edge-padded source at the header rate'
    return ''


CHILD = r'''
import sys, os, json
sys.path.insert(0, %r)
from hz import *
route, src, out, bpv, bs = sys.argv[1], sys.argv[2], sys.argv[3], eval(sys.argv[4]), eval(sys.argv[5])
try:
    if route == 'numpy':
        write_numpy_sgz(out, np.load(src), bpv=bpv, blockshape=bs)
    else:
        write_segy_sgz(src, out, bpv=bpv, blockshape=bs, reduce_iops=(route == 'segy3d-rio'))
    print('WRITTEN')
except Exception as e:
    print('RAISED', exc_class(e), 'created' if os.path.exists(out) else 'not-created')
''' % os.path.join(os.path.dirname(os.path.abspath(__file__)), '..')
npy3 = os.path.join(tmp, 'c.npy')
np.save(npy3, cube)
MAX_CHILDREN = 40 if THOROUGH else 12

try:
    nfile = 0
    nchild = {'numpy': 0, 'segy3d': 0, 'segy2d': 0}
    seen = set()
    # a sample of settings that must be refused, through the converters
    bad = [k for k in keys if completions(*requests[k][:3])[1] == [] and max(abs(x) for x in k[2]) <= 2 ** 17]
    bad_free = [k for k in bad if completions(*requests[k][:3])[0] == 1]      # one parameter free: the D12 class
    bad_full = [k for k in bad if completions(*requests[k][:3])[0] != 1]
    rng.shuffle(bad_free)
    rng.shuffle(bad_full)
    nb = 750 if THOROUGH else 90
    for k in bad_free[:nb] + bad_full[:nb]:
        d2, bpv, bs, _ = requests[k]
        file_cases.append(('segy2d' if d2 else rng.choice(['numpy', 'numpy', 'segy3d']), d2, bpv, bs))
    known_d13_file = False
    for route, d2, bpv, bs in file_cases:
        ck = (route,) + canon(d2, bpv, bs)
        if ck in seen:
            continue
        seen.add(ck)
        nfile += 1
        inp = {'route': route, 'd2': d2, 'bpv': repr(bpv), 'bs': list(bs)}
        out = os.path.join(tmp, f'o{nfile % 3}.sgz')      # three output paths, re-used: a path is re-converted with other settings after it was read
        n_free, comps = completions(d2, bpv, bs)
        ok_req = n_free <= 1 and (not d2 or bs[0] == 1)
        expect = comps[0] if (ok_req and len(comps) == 1) else None
        R.case(('file',) + ck, nontrivial=bool(comps) or n_free == 1,
               sample={'converter': inp, 'expected': str(expect)} if nfile % 97 == 1 else None)
        rr = reals.get(canon(d2, bpv, bs)) or real_resolve(d2, bpv, bs)
        # the code accepts something that is not a well-formed supported configuration (never on a correct tree):
        # zfpy may corrupt the heap (2D below 1 bit, non-dyadic or negative rates) -> child process, a bounded number
        risky = rr[0] == 'ok' and not (wf(d2, rr[1], rr[2]) and supported(d2, rr[1]))
        if risky and nchild[route] >= MAX_CHILDREN // 3:
            R.count('file:skipped (accepted ill-formed setting; child budget used)')
            continue
        if risky:
            nchild[route] += 1
            src = {'numpy': npy3, 'segy3d': sgy3, 'segy2d': sgy2, 'segy3d-rio': sgy3b}[route]
            p = subprocess.run([sys.executable, '-c', CHILD, route, src, out, repr(bpv), repr(bs)], stdout=subprocess.PIPE,
                               stderr=subprocess.DEVNULL, text=True, env=dict(os.environ, PYTHONHASHSEED='0'))
            last = (p.stdout.strip().splitlines() or [''])[-1]
            if p.returncode != 0 or not last:
                R.violation('oracle', inp, f'conversion neither raised nor finished: child process exit {p.returncode} '
                            f'(accepted as rate {rr[1]} blockshape {rr[2]}; zfpy corrupts the heap)')
                R.count('file:crash')
                if os.path.exists(out):
                    os.remove(out)
                continue
            outcome = None if last == 'WRITTEN' else last.split()[1]
            created = os.path.exists(out)
        else:
            try:
                convert(route, out, bpv, bs)
                outcome = None
            except Exception as e:
                outcome = exc_class(e)
            created = os.path.exists(out)
        if outcome is not None:
            R.count('file:raised ' + outcome)
            if created:
                R.violation('oracle', inp, f'{outcome} raised AFTER the output file was created')
                os.remove(out)
            elif ok_req and any(supported(d2, c[0]) for c in comps):
                R.violation('oracle', inp, f'converter refused ({outcome}) a request whose completion {comps[0]} is valid')
            elif ok_req and comps:
                R.count('file:D13 refused before output')
                if not known_d13_file and D13 not in R.known:
                    known_d13_file = True
                    R.violation('oracle', inp, f'valid 2D setting {comps[0]} refused ({outcome})', finding_key=D13)
            continue
        R.count('file:written')
        if not created:
            R.violation('oracle', inp, 'conversion returned without creating the output file')
            continue
        try:
            why = check_file(route, out, expect)
        except Exception as e:
            why = f'the written file cannot be decoded / read back: {type(e).__name__} {e}'
        if why:
            R.violation('corr' if why.startswith('CORR') else 'oracle', inp, 'file written, but ' + why)
        elif not comps:
            R.violation('oracle', inp, 'a request with no well-formed completion produced a file')
        os.remove(out)
    R.count('file cases', nfile)
    if known_d13_file:
        R.known.append(D13)
finally:
    shutil.rmtree(tmp, ignore_errors=True)

R.notes.append('valid settings enumerated: 344 (3D) + 84 (2D, of which 27 below 1 bit: D13); the int/float kind of the returned '
               'rate is not compared (4 == 4.0)')
if not a.no_model and not any(v['kind'] == 'corr' for v in R.violations):
    R.notes.append('exact rational arithmetic of the model agreed with CPython binary64 arithmetic (outcome, rate, blockshape, '
                   'exception class) on every case of the grid')
R.write(a.out)
