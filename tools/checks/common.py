"""shared plumbing for the per-property harnesses"""
import argparse, json, os, sys, time, random
sys.path.insert(0, os.path.join(os.path.dirname(os.path.abspath(__file__)), '..'))


def parse_args():
    ap = argparse.ArgumentParser()
    ap.add_argument('--pid', required=True)
    ap.add_argument('--tier', default='quick')
    ap.add_argument('--seed', type=int, default=0)
    ap.add_argument('--out', required=True)
    ap.add_argument('--search', action='store_true', help='an obligation broke: spend the search budget looking for a failing input')
    ap.add_argument('--no-model', action='store_true')
    ap.add_argument('--replay')
    return ap.parse_args()


class Result:
    def __init__(self, rule):
        self.evaluations = 0
        self.nontrivial = set()
        self.samples = []
        self.violations = []
        self.known = []
        self.notes = []
        self.distribution = {}
        self.rule = rule
        self.t0 = time.time()

    def count(self, key, k=1):
        self.distribution[key] = self.distribution.get(key, 0) + k

    def case(self, canon, nontrivial=True, sample=None):
        self.evaluations += 1
        if nontrivial:
            self.nontrivial.add(canon)
        if sample is not None and len(self.samples) < 8:
            self.samples.append(sample)

    def violation(self, kind, inp, detail, finding_key=None):
        if len(self.violations) < 50:
            self.violations.append({'kind': kind, 'input': inp, 'detail': detail, 'finding_key': finding_key})

    def write(self, path):
        json.dump({'evaluations': self.evaluations, 'distinct_nontrivial': len(self.nontrivial), 'samples': self.samples,
                   'violations': self.violations, 'known': self.known, 'notes': self.notes,
                   'distribution': self.distribution, 'rule': self.rule, 'harness_wall_s': round(time.time() - self.t0, 1)},
                  open(path, 'w'), indent=1, default=str)
