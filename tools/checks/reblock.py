#!/usr/bin/env python3
"""Harness for C12 (re-blocking a default-layout 2-bit SGZ file to the 64x64x4 layout, SgzConverter.convert_to_adv_sgz).

Per case (one source file: cube shape x regular/irregular x header-array configuration x route):
  ORACLE (specification decoder hz.SpecFile, segyio-free reader accessors; never the model):
    the output conforms (blockshape (64,64,4), 2 bit, stated block count = padded voxels, file length = what its header
    implies); every header byte outside 44..59 equals the source's (hash, axes, trace count, template, text/binary
    headers); every stored header array equals the source's at the offset the specification derives; the volumes decoded
    unit by unit from both files are bitwise equal on the real extent; read_volume, inlines, crosslines, z-slices,
    traces, every trace header / tracefield array, hash, axes, trace count, text and binary headers agree between the
    two readers; unsupported inputs (other rates, other layouts, 2D) are refused with AssertionError and no file.
  CORRESPONDENCE (model of coq/Model/Reblock.v evaluated inside Coq through tools/coqeval.py on the source's header):
    rb_guard, the output unit grid, the header patch values, rb_header on the first 64 header bytes, the list of reads
    (offset, length) against the reads the implementation really issued (recording file object), the footer segment
    list against the footer bytes, and the UNIT TABLE of theorem C12_reblock_unit_table (position in the output data
    section -> source file offset or zero) against the bytes of the two files.
"""
import os, sys, struct
sys.path.insert(0, os.path.dirname(os.path.abspath(__file__)))
from common import *
a = parse_args()
from hz import *
from coqeval import coq_eval, parse_value, zlit, zlist, CoqEvalError

R = Result('one case = one source file (cube shape, regular / irregular, stored-header-array configuration, route SEG-Y / NumPy / '
           'fixture) re-blocked and compared, or one unsupported input; non-trivial = a distinct (shape, irregular, '
           'configuration, route) whose shape has more than one voxel; shapes: each of n_il, n_xl below / at / above 64 and 128 '
           'with every residue mod 4 next to the boundaries, n_samples 1..9 and across the 1024-sample z block of the source')
rng = random.Random(a.seed + 1201)
TF = segyio.TraceField
D = scratch_dir()
import atexit
atexit.register(lambda: shutil.rmtree(D, ignore_errors=True))

HDRCFG = {
    'four': None,
    'three': lambda t, i, x: {TF.CDP_Y: 9},
    'two': lambda t, i, x: {TF.CDP_X: 7, TF.CDP_Y: 9},
    'strip': None,
    # three fields share one stored array (two are duplicates of the first)
    'dup': lambda t, i, x: {TF.TRACE_SEQUENCE_LINE: t + 1, TF.TRACE_SEQUENCE_FILE: t + 1, TF.FieldRecord: t + 1},
}


def u32(b, o):
    return struct.unpack('<I', b[o:o + 4])[0]


def s32(b, o):
    return struct.unpack('<i', b[o:o + 4])[0]


def hdr_literal(b):
    """the record of Gen/Reader.v, in field order"""
    vals = [u32(b, 0), u32(b, 4), u32(b, 8), u32(b, 12), s32(b, 40), u32(b, 44), u32(b, 48), u32(b, 52), u32(b, 56), u32(b, 60),
            u32(b, 64), u32(b, 68), u32(b, 72)]
    return 'hdr_of_list ' + zlist(vals)


def template_of(b):
    """the reader's hw_info.table (HeaderwordInfo(buffer=...)): dict initialised in segyio field order, updated by the stored triples"""
    table = {}
    for hw in segyio.segy.Field(bytearray(240), kind='trace'):
        table[segyio.tracefield.keys[str(segyio.tracefield.TraceField(hw))]] = (0, 0)
    raw = b[980:2048]
    for i in range(89):
        k, v0, v1 = struct.unpack('<3i', raw[12 * i:12 * i + 12])
        table[k] = (v0, v1)
    return [(k, v[0], v[1]) for k, v in table.items()]


def make_source(case, src):
    """writes the 2-bit default-layout source; returns (data or None)"""
    n_il, n_xl, ns = case['shape']
    if case['route'] == 'fixture':
        shutil.copy(os.path.join(REPO, 'test_data', case['fixture']), src)
        return
    crng = random.Random(case['seed'])
    data = rnd_cube(crng, case['shape'])
    if case.get('mute'):          # a bottom mute: the deepest samples of every trace are zero (all-zero disk blocks at the end)
        data[:, :, -max(1, min(8, ns - 1)):] = 0
    if case['route'] == 'numpy':
        write_numpy_sgz(src, data, bpv=case.get('bpv', 2), blockshape=case.get('blockshape', (4, 4, -1)),
                        ilines=np.arange(10, 10 + n_il), xlines=np.arange(100, 100 + 2 * n_xl, 2), samples=np.arange(ns) * 4.0)
        return
    sgy = src + '.sgy'
    present = None
    if case['irregular']:
        present = np.ones((n_il, n_xl), bool)
        present[0, 0] = False
        present[n_il - 1, n_xl // 2] = False
        if n_il > 2 and n_xl > 2:
            for _ in range(min(5, n_il * n_xl // 6)):
                present[crng.randrange(n_il), crng.randrange(n_xl)] = False
            present[0, n_xl - 1] = True       # keep the corners that fix the inferred geometry
            present[n_il - 1, 0] = True
    for attempt in range(30):
        mk_segy(sgy, data, list(range(10, 10 + n_il)), list(range(100, 100 + 2 * n_xl, 2)), present=present, hdr=HDRCFG[case['cfg']])
        if present is None:
            break
        # known finding D27 (C08): segyio's count-only inference takes some irregular surveys for regular cubes; such a
        # file is not an irregular source (the converter would not take the irregular route): alter the mask and retry
        try:
            with segyio.open(sgy):
                pass
        except Exception:
            break
        present[crng.randrange(n_il), crng.randrange(n_xl)] ^= True
        present[0, 0] = False
        present[0, n_xl - 1] = present[n_il - 1, 0] = True
    write_segy_sgz(sgy, src, bpv=case.get('bpv', 2), blockshape=case.get('blockshape'),
                   header_detection='strip' if case['cfg'] == 'strip' else 'heuristic')
    os.remove(sgy)


def some_indices(n, k=7):
    base = {0, 1, 3, 4, 5, 62, 63, 64, 65, 67, 68, 127, 128, 129, n - 1, n - 2, n // 2}
    return sorted(i for i in base if 0 <= i < n)


def oracle(case, src, out, S, O):
    """the property, evaluated on the two files; returns list of problems"""
    bad = []
    n_il, n_xl, ns = S.n_il, S.n_xl, S.n_s
    pad = lambda n, m: -(-n // m) * m
    # --- conformance of the container
    if O.bs != (64, 64, 4) or O.rate != 2 or O.rate_code != S.rate_code:
        bad.append(f'output blockshape/rate {O.bs} {O.rate}')
    want_blocks = pad(n_il, 64) * pad(n_xl, 64) * pad(ns, 4) * 2 // 8 // 4096
    if O.ndb != want_blocks:
        bad.append(f'output states {O.ndb} data blocks, padded volume needs {want_blocks}')
    if len(O.raw) != O.expected_length():
        bad.append(f'output length {len(O.raw)}, its header implies {O.expected_length()}')
    if (O.n_il, O.n_xl, O.n_s, O.nhb, O.hel, O.nha, O.tracecount_field, O.ver) != (S.n_il, S.n_xl, S.n_s, S.nhb, S.hel, S.nha, S.tracecount_field, S.ver):
        bad.append('dimension / size / version fields of the header changed')
    hs, ho = S.raw[:4096 * S.nhb], O.raw[:4096 * O.nhb]
    if len(hs) != len(ho) or hs[:44] != ho[:44] or hs[60:] != ho[60:]:
        diff = [k for k in range(min(len(hs), len(ho))) if hs[k] != ho[k] and not 44 <= k < 60][:5]
        bad.append(f'header bytes outside 44..59 differ (first at {diff})')
    # --- stored header arrays, at the offsets the specification derives
    for k in range(S.nha):
        x, y = S.footer_array(k), O.footer_array(k)
        if x.shape != y.shape or not (x == y).all():
            bad.append(f'stored header array {k} differs')
            break
    # --- decoded volume, unit by unit from the specification (both files)
    units_src = (S.shape_pad[0] // 4) * (S.shape_pad[1] // 4) * (S.shape_pad[2] // 4)
    if len(O.data) != 4096 * O.ndb:
        bad.append(f'data section holds {len(O.data)} bytes, {4096 * O.ndb} stated')
    elif units_src <= 400000:
        vs, vo = S.volume()[:n_il, :n_xl, :ns], O.volume()[:n_il, :n_xl, :ns]
        if not bits_equal(vs, vo):
            n = int((vs.view(np.uint32) != vo.view(np.uint32)).sum())
            bad.append(f'specification-decoded volumes differ in {n} of {vs.size} real samples')
    else:
        vs = None
    # --- the readers
    try:
        with SgzReader(src) as ra, SgzReader(out) as rb:
            va, vb = ra.read_volume(), rb.read_volume()
            if not bits_equal(va, vb):
                bad.append('read_volume differs')
            if units_src <= 400000 and not bits_equal(vb, S.volume()[:n_il, :n_xl, :ns]):
                bad.append('read_volume of the output differs from the specification decoding of the source')
            for i in some_indices(n_il):
                if not bits_equal(ra.read_inline(i), rb.read_inline(i)) or not bits_equal(rb.read_inline(i), va[i]):
                    bad.append(f'read_inline({i}) differs')
                    break
            for x in some_indices(n_xl):
                if not bits_equal(ra.read_crossline(x), rb.read_crossline(x)) or not bits_equal(rb.read_crossline(x), va[:, x]):
                    bad.append(f'read_crossline({x}) differs')
                    break
            for z in some_indices(ns):
                if not bits_equal(ra.read_zslice(z), rb.read_zslice(z)) or not bits_equal(rb.read_zslice(z), va[:, :, z]):
                    bad.append(f'read_zslice({z}) differs')
                    break
            tc = ra.tracecount
            if rb.tracecount != tc or rb.n_ilines != ra.n_ilines or rb.n_xlines != ra.n_xlines or rb.n_samples != ra.n_samples:
                bad.append('tracecount / dimensions differ between the readers')
            tr = sorted(set(some_indices(tc) + [t for t in (tc // 3, tc // 2 + 1) if 0 <= t < tc]))
            for t in tr:
                if not bits_equal(ra.get_trace(t), rb.get_trace(t)):
                    bad.append(f'get_trace({t}) differs')
                    break
            if ra.structured:
                for t in tr[:6]:
                    if not bits_equal(rb.get_trace(t), va[t // n_xl, t % n_xl]):
                        bad.append(f'get_trace({t}) of the output is not the trace of read_volume')
                        break
            if not (np.array_equal(ra.ilines, rb.ilines) and np.array_equal(ra.xlines, rb.xlines) and np.array_equal(ra.zslices, rb.zslices)):
                bad.append('axes differ')
            if ra.get_source_data_hash() != rb.get_source_data_hash():
                bad.append('source-data hash differs')
            if ra.get_file_text_header() != rb.get_file_text_header() or dict(ra.get_file_binary_header()) != dict(rb.get_file_binary_header()):
                bad.append('text / binary file headers differ')
            if ra.structured != rb.structured or ra.stored_header_keys != rb.stored_header_keys:
                bad.append('structured flag / stored header keys differ')
            hb = 0
            ts = range(tc) if tc <= 700 else tr
            for t in ts:
                if ra.gen_trace_header(t) != rb.gen_trace_header(t):
                    hb += 1
            if hb:
                bad.append(f'{hb} of {len(ts)} trace headers differ')
        with SgzReader(src) as ra, SgzReader(out) as rb:     # fresh readers: whole tracefield arrays (padding included)
            for k in ra.stored_header_keys:
                if not np.array_equal(ra.get_tracefield_1d(k), rb.get_tracefield_1d(k)):
                    bad.append(f'tracefield array {int(k)} differs')
                    break
    except Exception as e:
        bad.append('reading the output raised ' + repr(e)[:200])
    return bad


_HIST_R = {}


def reblock(src, out, history=None):
    """runs the implementation on a recording file object; returns (exception or None, list of (offset, length) reads).
    history: what the SAME converter object is asked before the conversion (the result must not depend on it):
    'query-last' a tracefield lookup of the last stored header word, 'gen-header' one regenerated trace header (leaves the
    header memo in the other padding mode on irregular files), 'export' a SEG-Y export (substitutes the format code of files
    that store none)"""
    f = CountingFile(src)
    try:
        with SgzConverter(f) as c:
            if history == 'query-last' and c.stored_header_keys:
                c.get_tracefield_values(c.stored_header_keys[-1])
            elif history == 'gen-header':
                c.gen_trace_header(c.tracecount - 1)
            elif history == 'export':
                quiet(c.convert_to_segy, out + '.sgy')
                os.remove(out + '.sgy')
            elif history == 'header-then-grid':
                # every array loaded unpadded, then ONE array re-loaded padded: the memo must not be left half in each mode
                c.gen_trace_header(c.tracecount - 1)
                if c.stored_header_keys:
                    c.get_tracefield_values(c.stored_header_keys[len(c.stored_header_keys) // 2])
            elif history == 'grid-then-header':
                if c.stored_header_keys:
                    c.get_tracefield_values(c.stored_header_keys[0])
                c.gen_trace_header(0)
            c.loader.clear_cache()
            f.log.clear()
            try:
                quiet(c.convert_to_adv_sgz, out)
                return None, list(f.log)
            except Exception as e:
                return e, list(f.log)
    finally:
        try:
            f.close()
        except Exception:
            pass


# ------------------------------------------------------------------------------------------------ cases
def shapes_quick():
    edge = [5, 8, 63, 64, 65, 68, 70, 128, 130]
    S = []
    # every boundary value on one axis against a few on the other (all residues mod 4 around 64 and 128)
    # (a dimension of 1 cannot be produced: the writers index axis[1]; the theorems cover it)
    for n in [2, 3, 4, 5, 7, 8, 9, 60, 61, 62, 63, 64, 65, 66, 67, 68, 70, 124, 127, 128, 129, 130, 132]:
        S.append((n, rng.choice([5, 8, 9]), rng.choice([2, 3, 4, 5, 8, 9])))
        S.append((rng.choice([2, 4, 7]), n, rng.choice([2, 4, 5, 6, 9])))
    for n_il in edge:
        for n_xl in rng.sample(edge, 2):
            S.append((n_il, n_xl, rng.choice([5, 9])))
    S += [(130, 130, 9), (64, 64, 4), (128, 64, 8), (65, 70, 9), (8, 16, 5), (4, 9, 20), (5, 5, 50), (7, 16, 5), (16, 16, 16)]
    S += [(5, 6, 600), (9, 4, 1023), (4, 8, 1024), (5, 6, 1025), (8, 5, 1030), (65, 5, 1030), (5, 68, 1028), (3, 3, 2049)]
    return S


def build_cases(tier):
    shapes = shapes_quick()
    if tier != 'quick':
        for _ in range(200):
            n_il = rng.choice([rng.randrange(2, 20), rng.randrange(56, 72), rng.randrange(120, 136), rng.randrange(2, 200)])
            n_xl = rng.choice([rng.randrange(2, 20), rng.randrange(56, 72), rng.randrange(120, 136), rng.randrange(2, 200)])
            ns = rng.choice([rng.randrange(2, 12), rng.randrange(2, 40)] if n_il * n_xl > 1500 else
                            [rng.randrange(2, 12), rng.randrange(2, 40), rng.randrange(1000, 1040), rng.randrange(2, 2100)])
            shapes.append((n_il, n_xl, ns))
        shapes += [(200, 196, 33), (192, 129, 12), (129, 257, 5)]
    cases = []
    cfgs = ['four', 'two', 'three', 'dup', 'strip']
    for k, sh in enumerate(shapes):
        n_il, n_xl, ns = sh
        if n_il == 1 or n_xl == 1:
            route, irregular, cfg = 'numpy', False, 'numpy'        # a single line through SEG-Y is a 2D file
        else:
            r = k % 7
            route = 'numpy' if r == 6 else 'segy'
            irregular = route == 'segy' and r in (1, 3, 5) and n_il * n_xl >= 6
            cfg = 'numpy' if route == 'numpy' else cfgs[(k // 2) % len(cfgs)]
            if cfg == 'strip' and irregular:
                cfg = 'dup'
        cases.append(dict(shape=sh, route=route, irregular=irregular, cfg=cfg, seed=rng.randrange(2 ** 30), mute=(cfg in ('strip', 'numpy') and k % 2 == 0)))
    cases.append(dict(shape=(5, 5, 50), route='fixture', fixture='small_2bit.sgz', irregular=False, cfg='pre-0.2.2', seed=0))
    return cases


def refused_cases():
    c = []
    for bpv, bs in [(4, (4, 4, -1)), (1, (4, 4, -1)), (8, (4, 4, -1)), (0.5, (4, 4, -1)), (2, (8, 8, 256)), (2, (16, 16, 64)),
                    (2, (64, 64, 4)), (2, (4, 8, 512)), (4, (32, 32, 8)), (16, (4, 4, -1))]:
        c.append(dict(shape=(9, 10, 9), route='numpy', irregular=False, cfg='numpy', bpv=bpv, blockshape=bs, seed=rng.randrange(2 ** 30)))
    c.append(dict(shape=(5, 5, 50), route='fixture', fixture='small_2bit-64x64.sgz', irregular=False, cfg='fixture-adv', seed=0))
    c.append(dict(shape=(1, 21, 9), route='2d', irregular=False, cfg='2d', seed=rng.randrange(2 ** 30)))
    return c


# ------------------------------------------------------------------------------------------------ correspondence
def tmpl_lit(T):
    return '[' + '; '.join(f'({zlit(k)}, {zlit(v0)}, {zlit(v1)})' for k, v0, v1 in T) + ']'


def correspond(records, ref_records):
    if a.no_model or not (records or ref_records):
        return
    PRE = ('Definition o2z (o : option Z) : Z := match o with Some v => v | None => -1 end.\n'
           'Definition ut (H : hdr) (t : Z * Z * Z) : Z * Z := match t with (iu, xu, zu) => '
           'match unit_expect H iu xu zu with (p, o) => (p, o2z o) end end.\n'
           'Definition ut_all (H : hdr) : list (Z * Z) := match unit_grid H with (gi, gx, gz) => '
           'flat_map (fun iu => flat_map (fun xu => map (fun zu => ut H (iu, xu, zu)) (zrange 0 gz)) (zrange 0 gx)) (zrange 0 gi) end.\n')
    terms = []
    for r in records:
        H = r['H']
        terms.append(f'(rb_guard ({H}), unit_grid ({H}), map (fun p => snd p) (rb_header_patches ({H})), wf3 ({H}), '
                     f'wf_tmpl {tmpl_lit(r["T"])}, template_ok {tmpl_lit(r["T"])} (rd_n_header_arrays ({H})))')
        terms.append(f'rb_header ({H}) {zlist(r["hb64"])}')
        terms.append(f'rb_reads ({H})')
        terms.append(f'rb_footer ({H}) {tmpl_lit(r["T"])} {r["nlive"]}')
        if r['coords'] is None:
            terms.append(f'ut_all ({H})')
        else:
            cl = '[' + '; '.join(f'({iu}, {xu}, {zu})' for iu, xu, zu in r['coords']) + ']'
            terms.append(f'map (ut ({H})) {cl}')
    for r in ref_records:
        terms.append(f'(rb_guard ({r["H"]}), reblock ({r["H"]}) [] [] 0 0)')
    try:
        vals = coq_eval(['SZ.Lib.Py', 'SZ.Gen.Reader', 'SZ.Gen.Reblock', 'SZ.Spec.Container', 'SZ.Model.Reblock', 'SZ.Proofs.Reblock'],
                        terms, shard=25, jobs=8, preamble=PRE)
    except CoqEvalError as e:
        R.violation('corr', {}, 'the model could not be evaluated: ' + str(e)[-600:])
        vals = None
    if vals is not None:
        k = 0
        for r in records:
            inp, S, O = r['inp'], r['S'], r['O']
            v_meta, v_hdr, v_reads, v_foot, v_units = vals[k:k + 5]
            k += 5
            guard, grid, patches, wf, wft, tok = parse_value(v_meta)
            if guard is not True:
                R.violation('corr', inp, 'model refuses an input the implementation converted')
                continue
            if not (wf and wft and tok):
                R.notes.append(f'{inp}: hypotheses of the theorems not met (wf3={wf}, wf_tmpl={wft}, template_ok={tok}); correspondence still compared')
            if tuple(grid) != r['grid'] or tuple(grid) != (O.shape_pad[0] // 4, O.shape_pad[1] // 4, O.shape_pad[2] // 4):
                R.violation('corr', inp, f'unit grid: model {grid}, output file {tuple(p // 4 for p in O.shape_pad)}')
            if list(patches) != [u32(O.raw, 44), u32(O.raw, 48), u32(O.raw, 52), u32(O.raw, 56)]:
                R.violation('corr', inp, f'header patch values: model {patches}, file {[u32(O.raw, o) for o in (44, 48, 52, 56)]}')
            if not v_hdr.startswith('Return '):
                R.violation('corr', inp, f'rb_header: model {v_hdr[:60]}')
            elif parse_value(v_hdr[len('Return '):]) != r['ob64']:
                R.violation('corr', inp, 'first 64 header bytes: model and output differ')
            # reads: the model's list, then only footer reads
            mreads = [tuple(x) for x in parse_value(v_reads)]
            ireads = [tuple(x) for x in r['reads']]
            foot_s = 4096 * (S.nhb + S.ndb)
            if ireads[:len(mreads)] != mreads:
                j = next((i for i, (x, y) in enumerate(zip(ireads, mreads)) if x != y), min(len(ireads), len(mreads)))
                R.violation('corr', inp, f'read {j}: implementation {ireads[j] if j < len(ireads) else None}, model {mreads[j] if j < len(mreads) else None}')
            elif any(off < foot_s for off, ln in ireads[len(mreads):]):
                R.violation('corr', inp, 'the implementation reads the data section more often than the model')
            if any(not (4096 * S.nhb <= off and off + ln <= foot_s and ln > 0) for off, ln in mreads):
                R.violation('corr', inp, 'a modelled read leaves the data section (theorem C12_reblock_reads_in_data_section)')
            # footer
            if not v_foot.startswith('Return '):
                R.violation('corr', inp, f'rb_footer: model {v_foot[:60]}, implementation wrote a footer')
            else:
                segs = parse_value(v_foot[len('Return '):])
                exp = b''
                for (j, m, p) in segs:
                    arr = S.raw[foot_s + j * S.stride: foot_s + j * S.stride + S.hel]
                    if m:
                        arr = np.frombuffer(arr, dtype='<i4')[r['mask']].tobytes()
                    exp += arr + bytes(p)
                got = O.raw[4096 * (O.nhb + O.ndb):]
                if exp != got:
                    R.violation('corr', inp, f'footer bytes: model {len(segs)} segments / {len(exp)} bytes, output {len(got)} bytes'
                                             + ('' if len(exp) != len(got) else ', contents differ'))
            # unit table
            tab = parse_value(v_units)
            if r['coords'] is None and sorted(p for p, o in tab) != list(range(0, len(O.data), 16)):
                R.violation('corr', inp, 'the unit table is not a bijection onto the 16-byte slots of the output data section')
            badu = 0
            for p, o in tab:
                got = O.data[p:p + 16]
                want = bytes(16) if o < 0 else S.raw[o:o + 16]
                if got != want or len(got) != 16:
                    badu += 1
            if badu:
                R.violation('corr', inp, f'{badu} of {len(tab)} units of the output data section differ from the unit table of the model')
            R.count('units compared', len(tab))
        for r in ref_records:
            guard, outc = parse_value(vals[k])
            k += 1
            if guard is not False or 'Raise AssertErr' not in str(outc):
                if r['refused']:
                    R.violation('corr', r['inp'], f'implementation refuses, model: guard={guard}, {outc}')
            elif not r['refused']:
                R.violation('corr', r['inp'], 'model refuses (AssertErr), implementation does not')


cases = build_cases(a.tier)
records = []      # per case: what the correspondence needs
src, out = os.path.join(D, 'src.sgz'), os.path.join(D, 'out.sgz')
t_start = time.time()
for case_no, case in enumerate(cases):
    canon = (case['shape'], case['irregular'], case['cfg'], case['route'])
    inp = {'shape': list(case['shape']), 'irregular': case['irregular'], 'headers': case['cfg'], 'route': case['route'], 'seed': case['seed'], 'bottom_mute': bool(case.get('mute'))}
    for p in (src, out):
        if os.path.exists(p):
            os.remove(p)
    try:
        make_source(case, src)
    except Exception as e:
        R.notes.append(f'source {inp} could not be written: {repr(e)[:120]}')
        continue
    S = SpecFile(src)
    if S.is2d or S.bs != (4, 4, 1024) or S.rate != 2:
        R.notes.append(f'source {inp} is not a 2-bit default-layout 3D file: skipped')
        continue
    n_il_, n_xl_, ns_ = case['shape']
    # the history is dealt round-robin PER ROUTE of the source (NumPy-sourced files store no SEG-Y format code: the export
    # substitutes one), NumPy sources starting with 'export'
    _HIST_R[case['route']] = _HIST_R.get(case['route'], 3 if case['route'] == 'numpy' else -1) + 1
    history = [None, 'header-then-grid', 'query-last', 'gen-header', 'export', None, 'grid-then-header'][_HIST_R[case['route']] % 7]
    if history == 'export' and n_il_ * n_xl_ * ns_ > 60000:
        history = 'query-last'
    if history:
        inp['before_on_same_object'] = history
        R.count('history=' + history)
    exc, reads = reblock(src, out, history)
    if exc is not None:
        R.violation('oracle', inp, 'convert_to_adv_sgz raised ' + repr(exc)[:200])
        R.case(canon, True)
        continue
    O = SpecFile(out)
    problems = oracle(case, src, out, S, O)
    for m in problems:
        R.violation('oracle', inp, m)
    if case_no % 3 == 0:
        # the same conversion through a converter opened with preload=True (the source read from memory): same file
        outp = out + '.preload'
        try:
            with SgzConverter(src, preload=True) as cp:
                quiet(cp.convert_to_adv_sgz, outp)
            if open(outp, 'rb').read() != open(out, 'rb').read():
                R.violation('oracle', dict(inp, converter='SgzConverter(path, preload=True)'),
                            'the file written through a preloaded converter differs from the one written without preload')
        except Exception as e:
            R.violation('oracle', dict(inp, converter='SgzConverter(path, preload=True)'), 'convert_to_adv_sgz raised ' + repr(e)[:200])
        finally:
            if os.path.exists(outp):
                os.remove(outp)
        R.count('preloaded converter')
    R.case(canon, nontrivial=case['shape'] != (1, 1, 1),
           sample={'shape': list(case['shape']), 'irregular': case['irregular'], 'headers': case['cfg'], 'stored_arrays': S.nha,
                   'out_blocks': O.ndb, 'reads': len(reads)})
    R.count('irregular' if case['irregular'] else 'regular')
    R.count(f'arrays={S.nha}')
    R.count('z blocks of the source=%d' % (S.shape_pad[2] // 1024))
    R.count('64-blocks il x xl = %dx%d' % (-(-S.n_il // 64), -(-S.n_xl // 64)))
    if not a.no_model:
        gi, gx, gz = -(-S.n_il // 64) * 16, -(-S.n_xl // 64) * 16, -(-S.n_s // 4)
        coords = None
        if gi * gx * gz > 8000:
            cs = set()
            for iu in (0, 1, (S.n_il - 1) // 4, min((S.n_il - 1) // 4 + 1, gi - 1), 15, 16, gi - 1):
                for xu in (0, (S.n_xl - 1) // 4, min((S.n_xl - 1) // 4 + 1, gx - 1), 15, 16, gx - 1):
                    for zu in (0, 1, 255, 256, gz - 1):
                        if 0 <= iu < gi and 0 <= xu < gx and 0 <= zu < gz:
                            cs.add((iu, xu, zu))
            while len(cs) < 700:
                cs.add((rng.randrange(gi), rng.randrange(gx), rng.randrange(gz)))
            coords = sorted(cs)
        with SgzReader(src) as rr:
            nfo = len(rr.stored_header_keys)
            mask = None
            if not rr.structured:
                rr.get_unstructured_mask()
                mask = rr.mask.copy()
        records.append(dict(inp=inp, H=hdr_literal(S.raw), T=template_of(S.raw), hb64=list(S.raw[:64]), ob64=list(O.raw[:64]),
                            reads=reads, nfo=nfo, mask=mask, coords=coords, grid=(gi, gx, gz), nlive=S.tracecount,
                            S=S, O=O))
    S._units = O._units = None          # drop the decoded volumes
    if len(records) >= 40:
        correspond(records, [])
        records = []
    if time.time() - t_start > (110 if a.tier == 'quick' else 660):
        R.notes.append(f'{a.tier} tier time budget reached: remaining generated cases skipped')
        break

# ------------------------------------------------------------------------------------------------ unsupported inputs
ref_records = []
for case in refused_cases():
    inp = {'shape': list(case['shape']), 'headers': case['cfg'], 'route': case['route'], 'bpv': case.get('bpv', 2),
           'blockshape': list(case.get('blockshape') or ())}
    for p in (src, out):
        if os.path.exists(p):
            os.remove(p)
    try:
        if case['route'] == '2d':
            sgy = src + '.sgy'
            mk_segy_2d(sgy, rnd_cube(random.Random(case['seed']), (21, 9)))
            write_segy_sgz(sgy, src, bpv=2)
            os.remove(sgy)
        else:
            make_source(case, src)
    except Exception as e:
        R.notes.append(f'unsupported-input source {inp} could not be written: {repr(e)[:120]}')
        continue
    S = SpecFile(src)
    exc, reads = reblock(src, out)
    supported = (not S.is2d) and S.bs == (4, 4, 1024) and S.rate == 2
    R.case(('refuse', case['cfg'], str(case.get('bpv')), str(case.get('blockshape'))), True)
    R.count('unsupported input')
    if supported:
        R.notes.append(f'{inp} is a supported input after all')
        continue
    if not isinstance(exc, AssertionError):
        R.violation('oracle', inp, f'unsupported input not refused with AssertionError: {repr(exc)[:120]}')
    if os.path.exists(out):
        R.violation('oracle', inp, 'a refused conversion left an output file')
    ref_records.append(dict(inp=inp, H=hdr_literal(S.raw), refused=isinstance(exc, AssertionError)))

correspond(records, ref_records)
R.write(a.out)
