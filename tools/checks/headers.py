#!/usr/bin/env python3
"""Harness for C04 (trace-header and file-header preservation).

Direct oracle (never uses the model): generated SEG-Y files (regular / irregular / 2D; any subset of the 89 trace-header
fields constant, varying, duplicated, equal-at-both-ends, negative, at the extremes of their 2- or 4-byte width; trace
counts with 4*n mod 512 in {0, 4, 508} and 1..3 strides) x the four detection modes: gen_trace_header(i) (both access
paths), header[i], get_tracefield_values(f), variant_headers, bin, text against segyio on the source, and bytes
4096..7695 of the SGZ against the first 3600 bytes of the SEG-Y.  On every such file and mode, seeded sequences of header
calls on ONE SgzReader and on ONE seismic_zfp.open() object (gen_trace_header with and without load_all_headers,
header[i] / header[a:b:c], get_tracefield_values, get_tracefield_1d / attributes, read_variant_headers with either
padding mode and with field lists, clear_variant_headers; stored, duplicate and constant fields; ordinals around the
first hole; bulk before single and single before bulk, a field twice, a partly filled memo, padding-mode switches):
every answer is the source's value, whatever was called before.  NumPy route: header dicts of any integer dtype in
either byte order (1, 2, 4, 8 bytes, signed and unsigned; every one of them in each covering case), in C / Fortran /
strided-view memory layout, any set of fields (incl. codes > 193), default inline/crossline headers built from axes
given as arrays of any of those dtypes.

Correspondence (model = coq/Model/Headers.v evaluated through tools/coqeval.py on the same inputs): table bytes, array
count, array length, file length, the reader's template (constants / file offsets), classification lists of
HeaderwordInfo, and the read-back values at sampled traces (this is what predicts the documented losses of 'heuristic').
"""
import os, sys, struct
sys.path.insert(0, os.path.dirname(os.path.abspath(__file__)))
from common import *
a = parse_args()
from hz import *
from coqeval import coq_eval, parse_value, zlit, zlist, CoqEvalError
from seismic_zfp.headers import HeaderwordInfo
from seismic_zfp.seismicfile import SeismicFile, Filetype
from seismic_zfp.segyio_emulator import SegyioEmulator
from seismic_zfp.utils import FileOffset

R = Result('one case = (source geometry + trace count, populated header fields with their kinds, detection mode or NumPy '
           'dict); non-trivial = at least one field varies over the traces (or the mode is strip and a field is non-zero); '
           'trace counts cover 4n mod 512 in {0,4,508} over 1..3 strides, fields cover 2- and 4-byte extremes, negatives, '
           'true and false duplicates, equal-ends-varying-inside; seeded random elsewhere')
rng = random.Random(a.seed * 104729 + 4)
QUICK = a.tier != 'thorough'
d = scratch_dir()
TF = segyio.tracefield.TraceField
FIELDS = [int(k) for k in segyio.segy.Field(bytearray(240), kind='trace')]
MODEL_FIELDS = [1, 5, 9, 13, 17, 21, 25, 29, 31, 33, 35, 37, 41, 45, 49, 53, 57, 61, 65, 69, 71, 73, 77, 81, 85, 89, 91, 93, 95,
                97, 99, 101, 103, 105, 107, 109, 111, 113, 115, 117, 119, 121, 123, 125, 127, 129, 131, 133, 135, 137, 139, 141,
                143, 145, 147, 149, 151, 153, 155, 157, 159, 161, 163, 165, 167, 169, 171, 173, 175, 177, 179, 181, 185, 189, 193,
                197, 201, 203, 205, 209, 211, 213, 215, 217, 219, 223, 225, 229, 231]
WIDTH = {f: (FIELDS[i + 1] - f if i + 1 < len(FIELDS) else 2) for i, f in enumerate(FIELDS)}
MODES = ['heuristic', 'thorough', 'exhaustive', 'strip']
_SHARED = [0]
MODE_COQ = {'heuristic': 'Heuristic', 'thorough': 'Thorough', 'exhaustive': 'Exhaustive', 'strip': 'Strip'}
model_jobs = []     # (label, term, checker)
strip_modelled = {}

# the environment the model assumes (not a property of /repo, but the tie would be void without it)
if FIELDS != MODEL_FIELDS:
    R.violation('corr', {'env': 'segyio'}, f'segyio trace-field list differs from Model.segy_fields: {FIELDS}')
if [int(k) for k in segyio.TraceField.enums()[0:89]] != FIELDS:
    R.violation('corr', {'env': 'segyio'}, 'segyio.TraceField.enums()[0:89] is not the table key list')


def hrow(h):
    """a header dict as the row of its 89 values (KeyError if a field is missing)"""
    if len(h) != len(FIELDS):
        raise KeyError(f'header has {len(h)} fields')
    return [int(h[f]) for f in FIELDS]


def lim(f):
    return (-32768, 32767) if WIDTH[f] == 2 else (-2 ** 31, 2 ** 31 - 1)


# ------------------------------------------------------------------------------------------------ header contents
def gen_overrides(rng, n, protected, how_many, clean):
    """field -> int64 array(n), and the kinds used.  clean: only kinds that satisfy the heuristic hypothesis"""
    free = [f for f in FIELDS if f not in protected]
    chosen = free if how_many == 'all' else rng.sample(free, min(how_many, len(free)))
    cols, kinds = {}, {}
    varying = []
    for f in chosen:
        lo, hi = lim(f)
        ks = ['const', 'const0', 'vary', 'extreme', 'neg', 'same_first', 'same_last']
        if not clean and n >= 3:
            ks += ['ends_equal', 'false_dup', 'dup', 'dup']
        elif not clean and n >= 2:
            ks += ['dup']
        k = rng.choice(ks)
        if k in ('dup', 'false_dup', 'same_first', 'same_last') and not varying:
            k = 'vary'
        if n == 1 and k not in ('const', 'const0'):
            k = 'const'
        g = np.random.RandomState(rng.randrange(2 ** 31))
        if k == 'const':
            col = np.full(n, rng.choice([lo, hi, -1, 1, rng.randint(lo, hi)]), dtype=np.int64)
        elif k == 'const0':
            col = np.zeros(n, dtype=np.int64)
        elif k == 'vary':
            col = g.randint(max(lo, -5000), min(hi, 5000) + 1, size=n).astype(np.int64)
        elif k == 'neg':
            col = -np.abs(g.randint(1, min(hi, 30000), size=n)).astype(np.int64)
        elif k == 'extreme':
            col = np.array([rng.choice([lo, hi, lo + 1, hi - 1, 0]) for _ in range(n)], dtype=np.int64)
            col[0], col[-1] = rng.choice([(lo, hi), (hi, lo), (lo, hi - 1), (lo + 1, hi), (hi - 1, lo + 1), (0, lo), (hi, 0)])
        elif k in ('same_first', 'same_last'):
            # shares ONE end with another varying field (still inside the heuristic hypothesis)
            src = rng.choice(varying)
            col = g.randint(max(lo, -5000), min(hi, 5000) + 1, size=n).astype(np.int64)
            e = 0 if k == 'same_first' else -1
            if lo <= cols[src][e] <= hi:
                col[e] = cols[src][e]
        elif k == 'ends_equal':
            col = g.randint(-100, 100, size=n).astype(np.int64)
            col[-1] = col[0]
            col[n // 2] = col[0] + 1
        elif k in ('dup', 'false_dup'):
            src = rng.choice(varying)
            slo, shi = lim(src)
            if (slo, shi) != (lo, hi) and (cols[src].min() < lo or cols[src].max() > hi):
                k, col = 'vary', g.randint(max(lo, -5000), min(hi, 5000) + 1, size=n).astype(np.int64)
            else:
                col = cols[src].copy()
                if k == 'false_dup':
                    col[n // 2] = col[n // 2] + (1 if col[n // 2] < hi else -1)
        if k in ('vary', 'neg', 'extreme', 'same_first', 'same_last') and n >= 2 and col[0] == col[-1]:
            col[-1] = col[0] + (1 if col[0] < hi else -1)
        cols[f], kinds[f] = col, k
        if k in ('vary', 'neg', 'extreme', 'same_first', 'same_last'):
            varying.append(f)
    return cols, kinds


def heuristic_hypothesis(truth):
    """the property's hypothesis on the source headers (n x 89 int64)"""
    n = truth.shape[0]
    first, last = truth[0], truth[-1]
    const = (truth == first).all(axis=0)
    differ = first != last
    if not (const | differ).all():
        return False
    idx = np.where(differ)[0]
    pairs = {}
    for j in idx:
        key = (int(first[j]), int(last[j]))
        if key in pairs:
            return False
        pairs[key] = j
    return True


def read_source(sgy):
    with segyio.open(sgy, ignore_geometry=True) as s:
        n = s.tracecount
        truth = np.zeros((n, len(FIELDS)), dtype=np.int64)
        for j, f in enumerate(FIELDS):
            truth[:, j] = s.attributes(f)[:]
        hdr0 = {int(k): int(v) for k, v in s.header[n // 2].items()}
        for j, f in enumerate(FIELDS):           # attributes() and header[] agree (segyio sanity)
            assert hdr0[f] == truth[n // 2, j]
        return truth, dict(s.bin), bytes(s.text[0]), n


# ------------------------------------------------------------------------------------------------ model terms
PREAMBLE = '''
Definition hspec (aff : list (Z * (Z * Z * Z))) (cols : list (Z * list Z)) (nx : Z) : Z -> Z -> Z :=
  fun t f => match assocZ f cols with
             | Some col => nth (Z.to_nat t) col 0
             | None => match assocZ f aff with Some (c0, ci, cx) => c0 + ci * (t / nx) + cx * (t mod nx) | None => 0 end
             end.
Definition lnth (l : list Z) : Z -> Z := fun t => nth (Z.to_nat t) l 0.
Definition tvshow (v : tval) : Z * Z := match v with Const c => (0, c) | Off o => (1, o) end.
Definition tplshow (F : sgzfile) : list (Z * (Z * Z)) :=
  match rd_template segy_fields F with Return tpl => map (fun kv => (fst kv, tvshow (snd kv))) tpl | Raise _ => [] end.
Definition gthshow (F : sgzfile) (la : bool) (t : Z) : list Z :=
  match gen_trace_header segy_fields F la t with Return l => map snd l | Raise _ => [] end.
Definition file_end (F : sgzfile) : Z :=
  match rev (f_footer F) with (s, len, pd, _) :: _ => s + len + pd | [] => 4096 * f_nhb F + 4096 * f_ndb F end.
Definition fshow (F : sgzfile) (ts : list Z) :=
  (table_words (f_table F), (f_count F, f_hel F, file_end F), tplshow F, map (gthshow F false) ts, map (gthshow F true) ts).
Definition t1dshow (F : sgzfile) (f : Z) : list Z :=
  match tracefield_1d segy_fields F f with Return l => l | Raise _ => [] end.
'''


def fit_affine(col, nx):
    n = len(col)
    t = np.arange(n)
    i, x = t // nx, t % nx
    c0 = int(col[0])
    cx = int(col[1] - col[0]) if nx > 1 and n > 1 else 0
    ci = int(col[nx] - col[0]) if n > nx else 0
    if np.array_equal(c0 + ci * i + cx * x, col):
        return (c0, ci, cx)
    return None


def h_term(truth, nx):
    """Coq term for the source headers; affine columns symbolically, the rest as lists"""
    aff, cols = [], []
    for j, f in enumerate(FIELDS):
        col = truth[:, j]
        if not col.any():
            continue
        fa = fit_affine(col, nx)
        if fa is not None:
            aff.append(f'({f}, ({zlit(fa[0])}, {zlit(fa[1])}, {zlit(fa[2])}))')
        else:
            cols.append(f'({f}, {zlist(col)})')
    size = sum(truth.shape[0] for _ in cols)
    return f'(hspec [{"; ".join(aff)}] [{"; ".join(cols)}] {nx})', size


def sample_traces(rng, n):
    ts = {0, n - 1, n // 2}
    for t in (1, n - 2, 127, 128, 129, 255, 256):
        if 0 <= t < n:
            ts.add(t)
    for _ in range(3):
        ts.add(rng.randrange(n))
    return sorted(ts)


# ------------------------------------------------------------------------------------------------ one SGZ file, all observers
def observe(p, n, kind, shape, ts):
    """everything C04 observes of an SGZ file, through the public reader API"""
    o = {}
    with SgzReader(p) as r:
        o['gth'] = np.array([hrow(r.gen_trace_header(i)) for i in range(n)], dtype=np.int64).reshape(n, len(FIELDS))
        o['template'] = [(int(k), 1 if isinstance(v, FileOffset) else 0, int(v)) for k, v in r.segy_traceheader_template.items()]
        for bad in (-1, n):
            try:
                r.gen_trace_header(bad)
                o.setdefault('oob', []).append(bad)
            except IndexError:
                pass
    with SgzReader(p) as r:
        o['gth_all'] = {t: hrow(r.gen_trace_header(t, load_all_headers=True)) for t in ts}
    with SgzReader(p) as r:
        r.read_variant_headers()
        o['variant'] = {int(k): np.array(v, dtype=np.int64) for k, v in r.variant_headers.items()}
    with SgzReader(p) as r:
        o['tfv'] = {}
        for f in FIELDS:
            try:
                v = r.get_tracefield_values(f)
                o['tfv'][f] = np.array(v, dtype=np.int64)
            except Exception as e:
                o['tfv'][f] = type(e).__name__
    with SegyioEmulator(p) as e:
        o['header'] = {t: {int(k): int(v) for k, v in e.header[t].items()} for t in ts}
        o['bin'] = dict(e.bin)
        o['text'] = bytes(e.text[0])
        o['file_text'], o['file_bin'] = bytes(e.file_text_header), bytes(e.file_binary_header)
    raw = open(p, 'rb').read()
    o['raw'] = raw
    return o


def check_oracle(inp, o, expect, n, kind, shape, sgy_bytes, sbin, stext, grid_pos=None):
    """expect: n x 89 array the file must read back as (None: no expectation for trace headers)"""
    bad = []
    if expect is not None:
        if not np.array_equal(o['gth'], expect):
            t, j = np.argwhere(o['gth'] != expect)[0]
            bad.append(f'gen_trace_header({t})[{FIELDS[j]}] = {o["gth"][t, j]}, source {expect[t, j]} '
                       f'({int((o["gth"] != expect).sum())} values differ)')
        for t, row in o['gth_all'].items():
            if row != [int(v) for v in expect[t]]:
                j = [x != y for x, y in zip(row, expect[t])].index(True)
                bad.append(f'gen_trace_header({t}, load_all_headers=True)[{FIELDS[j]}] = {row[j]}, source {expect[t, j]}')
                break
        for t, hd in o['header'].items():
            if [hd[f] for f in FIELDS] != [int(v) for v in expect[t]]:
                bad.append(f'header[{t}] differs from the source')
                break
        for f, arr in o['variant'].items():
            j = FIELDS.index(f)
            if not np.array_equal(arr, expect[:, j]):
                bad.append(f'variant_headers[{f}] differs from the source column ({arr[:6].tolist()} vs {expect[:6, j].tolist()})')
                break
        for f, v in o['tfv'].items():
            j = FIELDS.index(f)
            if isinstance(v, str):
                bad.append(f'get_tracefield_values({f}) raised {v}')
                break
            if kind == 'regular':
                want = expect[:, j].reshape(shape)
            elif kind == '2d':
                want = expect[:, j]
            else:           # irregular: padded grid, zeros where no trace
                want = np.zeros(shape[0] * shape[1], dtype=np.int64)
                want[grid_pos] = expect[:, j]
                want = want.reshape(shape)
            if v.shape != want.shape or not np.array_equal(v, want):
                bad.append(f'get_tracefield_values({f}) differs from the source column: shape {v.shape} (expected {want.shape}), '
                           f'values {v.reshape(-1)[:12].tolist()} expected {want.reshape(-1)[:12].tolist()}')
                break
    if o.get('oob'):
        bad.append(f'gen_trace_header accepted out-of-range indices {o["oob"]}')
    if o['raw'][4096:7696] != sgy_bytes[:3600]:
        bad.append('bytes 4096..7695 of the SGZ differ from the first 3600 bytes of the SEG-Y')
    if {int(k): int(v) for k, v in o['bin'].items()} != {int(k): int(v) for k, v in sbin.items()}:
        bad.append('bin differs from segyio')
    # decoded text: compared where the stored EBCDIC byte decodes to an ASCII character (other characters: C13 / D24)
    asc = [i for i, ch in enumerate(sgy_bytes[:3200].decode('cp037')) if ord(ch) < 128]
    if len(o['text']) != len(stext) or any(o['text'][i] != stext[i] for i in asc):
        bad.append(f'text[0] differs from segyio (lengths {len(o["text"])}, {len(stext)})')
    if o['file_text'] != sgy_bytes[:3200] or o['file_bin'] != sgy_bytes[3200:3600]:
        bad.append('file_text_header / file_binary_header differ from the SEG-Y file header bytes')
    for b in bad:
        R.violation('oracle', inp, b)
    return not bad


def real_tables(o):
    raw = o['raw']
    words = list(struct.unpack('<267i', raw[980:2048]))
    u = lambda off: struct.unpack('<I', raw[off:off + 4])[0]
    return words, (u(64), u(60), len(raw)), u(56)


def make_checker(inp, o, ts):
    words, sizes, ndb = real_tables(o)

    def chk(val):
        try:
            mw, msz, mtpl, mg, mga = val[:5]
        except Exception:
            R.violation('corr', inp, f'unparsable model value {str(val)[:200]}')
            return
        if list(mw) != words:
            k = [x != y for x, y in zip(mw, words)].index(True) if len(mw) == len(words) else -1
            R.violation('corr', inp, f'table bytes differ at word {k}: model {mw[k] if k >= 0 else len(mw)}, file {words[k] if k >= 0 else len(words)}')
        if tuple(msz) != sizes:
            R.violation('corr', inp, f'(array count, array bytes, file length): model {tuple(msz)}, file {sizes}')
        rtpl = [(k, (isoff, v)) for k, isoff, v in o['template']]
        if [tuple(x) if not isinstance(x, tuple) else (x[0], tuple(x[1])) for x in mtpl] != rtpl:
            mm = [(x, y) for x, y in zip(mtpl, rtpl) if (x[0], tuple(x[1])) != y][:2]
            R.violation('corr', inp, f'reader template differs: (model, implementation) {mm}')
        for t, row in zip(ts, mg):
            if list(row) != [int(v) for v in o['gth'][t]]:
                j = [x != y for x, y in zip(row, o['gth'][t])].index(True) if len(row) == len(FIELDS) else -1
                R.violation('corr', inp, f'gen_trace_header({t}): model {row[j] if j >= 0 else row} implementation '
                                         f'{int(o["gth"][t][j]) if j >= 0 else "..."} (field {FIELDS[j] if j >= 0 else "?"})')
                break
        for t, row in zip(ts, mga):
            if list(row) != o['gth_all'][t]:
                R.violation('corr', inp, f'gen_trace_header({t}, load_all_headers=True): model and implementation differ')
                break
    return chk


# ------------------------------------------------------------------------------------------------ sequences on ONE reader object
# State carried between header calls (the memo variant_headers, its padding mode, the hole mask): every answer of every call
# in a sequence on one object must be the source's value for that trace / field, i.e. what a fresh reader answers.
def seq_pools(template):
    """the kinds of field of one file: stored arrays, duplicates of a stored array, non-zero constants, zero constants"""
    seen, stored, dups, cnz, cz = set(), [], [], [], []
    for k, isoff, v in template:
        if isoff:
            (dups if v in seen else stored).append(k)
            seen.add(v)
        else:
            (cnz if v != 0 else cz).append(k)
    return stored, dups, cnz, cz


def seq_ordinals(n, grid_pos):
    """first / last / middle, and the ordinals just before, at and after the first hole of an irregular grid"""
    ts = {0, n - 1, n // 2}
    if grid_pos is not None:
        moved = np.where(np.asarray(grid_pos) != np.arange(n))[0]
        if len(moved):
            ts |= {int(moved[0]) + dt for dt in (-1, 0, 1) if 0 <= int(moved[0]) + dt < n}
    return sorted(ts)


def gen_sequence(rng, n, kind, grid_pos, pools, motifs, emulator):
    """operations as JSON lists.  The padding mode of the memo is tracked so that an explicit read_variant_headers is only
    issued where it is legal (on 2D / irregular files a mode change without clear_variant_headers is refused by design)"""
    stored, dups, cnz, cz = pools
    unstructured = kind != 'regular'
    special = seq_ordinals(n, grid_pos)

    def fld():
        for pool, w in ((stored, 0.5), (dups, 0.4), (cnz, 0.6), (cz, 1.0)):
            if pool and rng.random() < w:
                return rng.choice(pool)
        return rng.choice(stored or dups or cnz or cz)

    def tr():
        return rng.choice(special) if rng.random() < 0.7 else rng.randrange(n)

    def some_fields():
        fs = rng.sample(stored + dups, rng.randint(1, min(3, len(stored + dups)))) if stored else [fld()]
        return fs + ([rng.choice(cnz + cz)] if (cnz or cz) and rng.random() < 0.3 else [])

    f1, f2 = fld(), fld()
    all_motifs = {
        'bulk_then_single': [['tfv', f1], ['gth', tr()], ['gth', tr()]],
        'single_then_bulk': [['gth', tr()], ['tf1d', f1], ['gth_all', tr()]],
        'same_field_twice': [['tf1d', f1], ['tf1d', f1], ['gth', tr()], ['tfv', f1]],
        'partly_filled_memo': [['rvh', rng.random() < 0.5, some_fields()], ['gth_all', tr()], ['tf1d', f2], ['gth', tr()], ['rvh', rng.random() < 0.5, None]],
        'padding_switch': [['rvh', True, None], ['gth', tr()], ['tf1d', f2], ['rvh', False, some_fields()], ['tfv', f1], ['gth_all', tr()]],
        'clear_between': [['tf1d', f1], ['clear'], ['gth', tr()], ['clear'], ['tfv', f2], ['rvh', rng.random() < 0.5, None]],
    }
    ops = []
    for m in motifs:
        ops += all_motifs[m]
    for _ in range(rng.randint(3, 7)):
        k = rng.choice(['gth', 'gth', 'gth_all', 'tfv', 'tf1d', 'tf1d', 'rvh', 'clear'])
        ops.append({'gth': lambda: ['gth', tr()], 'gth_all': lambda: ['gth_all', tr()], 'tfv': lambda: ['tfv', fld()],
                    'tf1d': lambda: ['tf1d', fld()], 'clear': lambda: ['clear'],
                    'rvh': lambda: ['rvh', rng.random() < 0.5, None if rng.random() < 0.5 else some_fields()]}[k]())
    out, ps = [], None
    for op in ops:
        if emulator:        # the object seismic_zfp.open() returns: header[] (own memo), attributes() and the reader methods (shared memo)
            if op[0] == 'gth' and rng.random() < 0.7:
                t = op[1]
                op = rng.choice([['header', t], ['header', t - n], ['header_slice', t, min(n, t + 3), 1], ['header_slice', t, max(-1, t - 3) if t >= 3 else None, -1]])
            elif op[0] == 'tf1d' and rng.random() < 0.7:
                op = ['attributes', op[1]]
        if op[0] == 'rvh' and unstructured and ps not in (None, op[1]):
            out.append(['clear', None])
            ps = None
        out.append(op)
        if op[0] == 'clear':
            ps = None
        elif op[0] in ('gth', 'gth_all'):
            if stored and (unstructured or (op[0] == 'gth_all' and ps is None)):
                ps = False
        elif op[0] in ('tfv', 'tf1d', 'attributes'):
            if unstructured or ps is None:
                ps = True
        elif op[0] == 'rvh' and ps is None:
            ps = op[1]
        op.append(ps)            # the mode the memo is in after the call (None: empty or never loaded)
    return out


def run_sequence(obj, ops, E, n, kind, shape, grid_pos, template):
    """runs ops on obj; returns None or (number of ops run, what differed)"""
    isoff = {k for k, off, _ in template if off}
    jx = {f: j for j, f in enumerate(FIELDS)}

    def col(f, padded):
        if kind == 'irregular' and padded:
            c = np.zeros(shape[0] * shape[1], dtype=np.int64)
            c[grid_pos] = E[:, jx[f]]
            return c
        return E[:, jx[f]]

    def same_row(h, t):
        row = hrow(h)
        if row != [int(v) for v in E[t]]:
            j = [x != y for x, y in zip(row, E[t])].index(True)
            return f'[{FIELDS[j]}] = {row[j]}, expected {int(E[t, j])}'

    for k, op in enumerate(ops):
        name, ps = op[0], op[-1]
        bad = None
        try:
            if name in ('gth', 'gth_all'):
                bad = same_row(obj.gen_trace_header(op[1], load_all_headers=name == 'gth_all') if name == 'gth_all' else obj.gen_trace_header(op[1]), op[1])
            elif name == 'header':
                bad = same_row(obj.header[op[1]], op[1] % n)
            elif name == 'header_slice':
                sl = slice(op[1], op[2], op[3])
                got = obj.header[sl]
                want = list(range(*sl.indices(n)))
                bad = f'{len(got)} headers, expected {len(want)}' if len(got) != len(want) else next((f'trace {t}: {b}' for t, b in ((t, same_row(h, t)) for h, t in zip(got, want)) if b), None)
            elif name in ('tf1d', 'attributes', 'tfv'):
                f = op[1] if k % 2 else TF(op[1])
                v = np.asarray({'tf1d': obj.get_tracefield_1d, 'attributes': getattr(obj, 'attributes', None), 'tfv': obj.get_tracefield_values}[name](f))
                want = col(op[1], True)
                if name == 'tfv' and kind != '2d':
                    want = want.reshape(shape)
                if v.shape != want.shape or not np.array_equal(v.astype(np.int64), want):
                    d0 = np.argwhere(v.astype(np.int64) != want)[0].tolist() if v.shape == want.shape else None
                    bad = (f'shape {v.shape}, expected {want.shape}' if d0 is None else
                           f'at {d0}: {int(v[tuple(d0)])}, expected {int(want[tuple(d0)])} ({int((v != want).sum())} values differ)')
            elif name == 'clear':
                obj.clear_variant_headers()
                if len(obj.variant_headers):
                    bad = f'{len(obj.variant_headers)} arrays left'
            elif name == 'rvh':
                fs = op[2]
                obj.read_variant_headers(include_padding=op[1], tracefields=None if fs is None else [f if i % 2 else TF(f) for i, f in enumerate(fs)])
                vh = {int(kk): np.asarray(v).astype(np.int64) for kk, v in obj.variant_headers.items()}
                missing = [f for f in (fs if fs is not None else sorted(isoff)) if f in isoff and f not in vh]
                extra = [f for f in vh if f not in isoff]
                wrong = [f for f, v in vh.items() if f in isoff and (v.shape != col(f, ps).shape or not np.array_equal(v, col(f, ps)))]
                if missing or extra or wrong:
                    bad = (f'variant_headers afterwards: missing {missing}, not stored fields {extra}, arrays that are not the source column '
                           f'{"with" if ps else "without"} padding {wrong}')
        except Exception as e:
            import traceback
            bad = (f'raised {type(e).__name__}: {e} @ ' +
                   ' <- '.join(f'{os.path.basename(fr.filename)}:{fr.lineno}' for fr in traceback.extract_tb(e.__traceback__)[-3:]))
        if bad:
            return k + 1, f'{name}{tuple(op[1:-1])}: {bad}'
    return None


SEQ_MOTIFS = ['bulk_then_single', 'single_then_bulk', 'same_field_twice', 'partly_filled_memo', 'padding_switch', 'clear_between']


def sequence_checks(inp, p, label, mode, E, reference, n, kind, shape, grid_pos, template):
    import seismic_zfp
    rng = random.Random(f'{a.seed}:{label}:{mode}:sequences')       # own stream: the cases above do not depend on it
    pools = seq_pools(template)
    rounds = (2 if QUICK and not a.search else 5) * (2 if kind == 'irregular' else 1)
    t0 = time.time()
    for rd in range(rounds):
        motifs = rng.sample(SEQ_MOTIFS, len(SEQ_MOTIFS))
        for who, ms in (('SgzReader', motifs[:3]), ('SgzReader', motifs[3:]), ('seismic_zfp.open', rng.sample(motifs, 3))):
            ops = gen_sequence(rng, n, kind, grid_pos, pools, ms, emulator=who != 'SgzReader')
            try:
                with (SgzReader(p) if who == 'SgzReader' else seismic_zfp.open(p)) as obj:
                    res = run_sequence(obj, ops, E, n, kind, shape, grid_pos, template)
            except Exception as e:
                res = (0, f'opening raised {type(e).__name__}: {e}')
            R.count('sequences')
            R.count('sequence_calls', len(ops))
            R.count(f'sequences:{kind}:{mode}')
            if res is not None:
                R.violation('oracle', dict(inp, check='sequence on one ' + who, reference=reference, motifs=ms,
                                           sequence=[op[:-1] for op in ops[:res[0]]], memo_padding_after_each=[op[-1] for op in ops[:res[0]]]),
                            f'call {res[0]} of a sequence on one {who} object differs from the {reference}: {res[1]}')
    R.count('sequence_wall_ms', int(1000 * (time.time() - t0)))


# ------------------------------------------------------------------------------------------------ SEG-Y cases
def segy_case(label, kind, dims, how_many, clean, blockshape=None, bpv=8, reduce_iops=False, fmt=5):
    rng = random.Random(f'{a.seed}:{label}')          # every case is reproducible on its own (--replay <label>)
    ns = rng.choice([5, 8, 9])
    sgy = os.path.join(d, 'src.sgy')
    present, grid_pos = None, None
    if kind == '2d':
        n = dims
        data = rnd_cube(rng, (n, ns))
        protected = {109, 115, 117, 189, 193}
        cols, kinds = gen_overrides(rng, n, protected, how_many, clean)
        if not clean and n >= 3 and rng.random() < 0.3:      # inline field zero at both ends, populated inside: still 2D
            c = np.zeros(n, dtype=np.int64); c[n // 2] = 7
            cols[189], kinds[189] = c, 'ends_equal'
        mk_segy_2d(sgy, data, hdr=lambda t: {TF(f): int(c[t]) for f, c in cols.items()}, fmt=fmt)
        nx, shape = n, (n,)
    else:
        n_il, n_xl = dims
        data = rnd_cube(rng, (n_il, n_xl, ns))
        # line numbering varies with the case: positive, negative throughout, running through zero without containing it
        # (inline number 0 on an irregular survey is the known finding D20 of C08)
        i0_, x0_ = [(10, 200), (-40, -9), (-7, 200), (10, -5)][_SHARED[0] % 4]
        ilines = [i0_ + 3 * i for i in range(n_il)]
        xlines = [x0_ + 2 * x for x in range(n_xl)]
        if 0 in ilines:
            ilines = [v - 1 for v in ilines]
        if kind == 'irregular':
            while True:
                present = np.array([[rng.random() < 0.8 for _ in range(n_xl)] for _ in range(n_il)])
                if present.all():
                    present[n_il // 2, n_xl // 2] = False
                if not (present.any(axis=1).all() and present.any(axis=0).all() and present.sum() >= 2):
                    continue
                mk_segy(sgy, data, ilines, xlines, present=present, fmt=fmt)
                with quiet(SeismicFile.open, sgy, Filetype.SEGY) as sf:   # segyio must not mistake the file for a regular one
                    if not sf.structured:
                        break
            grid_pos = np.where(present.reshape(-1))[0]
            n = int(present.sum())
        else:
            n = n_il * n_xl
        protected = {37, 109, 115, 117, 189, 193}
        cols, kinds = gen_overrides(rng, n, protected, how_many, clean)
        mk_segy(sgy, data, ilines, xlines, present=present, fmt=fmt,
                hdr=lambda t, i, x: {TF(f): int(c[t]) for f, c in cols.items()})
        nx, shape = n_xl, (n_il, n_xl)
        if kind == 'regular' and 1 in shape:          # a single line: the converter treats it as a 2D file
            kind, nx, shape, blockshape = '2d', n, (n,), None
    truth, sbin, stext, n_src = read_source(sgy)
    assert n_src == n
    sgy_bytes = open(sgy, 'rb').read(3600)
    hyp = heuristic_hypothesis(truth)
    ts = sample_traces(rng, n)
    hterm, hsize = h_term(truth, nx)
    kinds_s = {str(f): k for f, k in sorted(kinds.items())}
    # classification lists of HeaderwordInfo (independent of the conversion)
    if not a.no_model:
        with quiet(SeismicFile.open, sgy, Filetype.SEGY) as sf:
            hw = HeaderwordInfo(n, seismicfile=sf, header_detection='heuristic')
            uniq = [int(hw._get_hw_code(k)) for k in hw.unique_variant_nonzero_header_words]
            dups = [(int(hw._get_hw_code(k)), int(hw._get_hw_code(v))) for k, v in hw.duplicate_header_words.items()]
            rows = [(int(k), int(v[0]), int(v[1])) for k, v in hw.table.items()]
        inp0 = {'case': label, 'kind': kind, 'dims': dims, 'fields': kinds_s, 'check': 'classification'}

        def chk_cls(val, uniq=uniq, dups=dups, rows=rows, inp0=inp0):
            mu, md, mt = val
            if list(mu) != uniq or [tuple(x) for x in md] != dups:
                R.violation('corr', inp0, f'classification: model unique {mu} dups {md}; implementation unique {uniq} dups {dups}')
            if [(k, v[0], v[1]) for k, v in mt] != rows:
                R.violation('corr', inp0, 'heuristic table differs between model and HeaderwordInfo')
        fv, lv = f'({hterm} 0)', f'({hterm} {n - 1})'
        model_jobs.append((inp0, f'(unique_hw segy_fields {fv} {lv}, duplicate_hw segy_fields {fv} {lv}, heur_table segy_fields {fv} {lv})', chk_cls))
    # every other case converts in all modes through ONE converter object (run() may be called repeatedly: the README does so
    # for several bit rates): what an earlier run() leaves on the object must not reach a later one
    _SHARED[0] += 1
    shared_conv = quiet(SegyConverter, sgy) if _SHARED[0] % 2 == 0 else None
    for mode in MODES:
        p = os.path.join(d, f'out_{mode}.sgz')
        inp = {'case': label, 'kind': kind, 'dims': dims, 'n': n, 'fields': kinds_s, 'mode': mode, 'blockshape': blockshape,
               'reduce_iops': reduce_iops, 'seed': a.seed}
        if shared_conv is not None:
            inp['converter'] = 'one converter object for all modes, in the order ' + ' '.join(MODES)
        try:
            if shared_conv is not None:
                quiet(shared_conv.run, p, bits_per_voxel=bpv, blockshape=blockshape, reduce_iops=reduce_iops, header_detection=mode)
            else:
                write_segy_sgz(sgy, p, bpv=bpv, blockshape=blockshape, reduce_iops=reduce_iops, header_detection=mode)
            o = observe(p, n, kind, shape, ts)
        except Exception as e:
            import traceback
            R.violation('oracle', inp, f'conversion or read raised {type(e).__name__}: {e} @ ' +
                        ' <- '.join(f'{os.path.basename(fr.filename)}:{fr.lineno}' for fr in traceback.extract_tb(e.__traceback__)[-4:]))
            continue
        if mode in ('thorough', 'exhaustive'):
            expect = truth
        elif mode == 'strip':
            expect = np.zeros_like(truth)
        else:
            expect = truth if hyp else None
            R.count('heuristic_inside_hypothesis' if hyp else 'heuristic_outside_hypothesis')
        check_oracle(inp, o, expect, n, kind, shape, sgy_bytes, sbin, stext, grid_pos)
        # heuristic outside its hypothesis: the source is not the reference, a fresh reader's full read is
        sequence_checks(inp, p, label, mode, expect if expect is not None else o['gth'], 'source SEG-Y' if expect is not None else 'fresh reader',
                        n, kind, shape, grid_pos, o['template'])
        nontrivial = bool((truth != truth[0]).any()) or (mode == 'strip' and bool(truth.any()))
        R.case((label, mode, n, tuple(sorted(kinds_s.items()))), nontrivial,
               sample={'case': label, 'n': n, 'mode': mode, 'fields': kinds_s, 'stored_arrays': struct.unpack('<I', o['raw'][64:68])[0]})
        R.count(f'{kind}:{mode}')
        R.count(f'4n mod 512 = {4 * (n if kind != "irregular" else shape[0] * shape[1]) % 512}')
        # ---- correspondence with the model
        if a.no_model or hsize > 6000 or (mode == 'strip' and strip_modelled.get(kind)):
            R.count('model_skipped')
            continue
        if mode == 'strip':
            strip_modelled[kind] = True
        ndb = struct.unpack('<I', o['raw'][56:60])[0]
        bs = struct.unpack('<3I', o['raw'][44:56])
        if kind == 'regular':
            ge = f'(geo_regular {shape[0]} {shape[1]} {bs[0]})'
        elif kind == '2d':
            ge = f'(geo_2d {n} {bs[1]})'
        else:
            il_of = [int(g) // shape[1] for g in grid_pos]
            xl_of = [int(g) % shape[1] for g in grid_pos]
            ge = f'(geo_irregular {shape[0]} {shape[1]} {bs[0]} {n} (lnth {zlist(il_of)}) (lnth {zlist(xl_of)}))'
        F = f'(write_geo {MODE_COQ[mode]} segy_fields {ge} {ndb} {hterm})'
        fsel = [189, 193, 115] + list(cols)[:2]

        def extra(m1d, o=o, fsel=fsel, inp=inp):
            for f, mv in zip(fsel, m1d):
                rv = o['tfv'][f]
                rv = rv.reshape(-1).tolist() if isinstance(rv, np.ndarray) else rv
                if list(mv) != rv:
                    R.violation('corr', inp, f'get_tracefield_values({f}): model {list(mv)[:8]}.. implementation {str(rv)[:60]}..')
                    break
        chk5 = make_checker(inp, o, ts)

        def chk(val, chk5=chk5, extra=extra, inp=inp):
            if not (isinstance(val, tuple) and len(val) == 6):       # Coq prints ((a, b, c, d, e), f) as a flat 6-tuple
                R.violation('corr', inp, f'unparsable model value {str(val)[:200]}')
                return
            chk5(val[:5])
            extra(val[5])
        model_jobs.append((inp, f'(let F := {F} in (fshow F {zlist(ts)}, map (t1dshow F) {zlist(fsel)}))', chk))


# ------------------------------------------------------------------------------------------------ NumPy route
NP_DTYPES = ['int8', 'uint8', '<i2', '>i2', '<u2', '>u2', '<i4', '>i4', '<u4', '>u4', '<i8', '>i8', '<u8', '>u8']
NP_LAYOUTS = ['C', 'C', 'F', 'strided']
NP_AXES = [None, '<i4', '>i4', '<i2', '>i2', '<u2', '>u2', '<u4', '>u4', '<i8', '>i8', '>u8', 'uint8', 'int8']


def np_layout(arr, layout):
    """the same values in another memory layout (what the caller's array looks like is not part of the property)"""
    if layout == 'F':
        return np.asfortranarray(arr)
    if layout == 'strided':
        big = np.zeros((arr.shape[0] + 1, 2 * arr.shape[1] + 1), dtype=arr.dtype)
        big[1:, 1::2] = arr
        return big[1:, 1::2]
    return arr


def np_axis(rng, n, start, step, how):
    """an inline / crossline axis as the caller may give it: None or an array of any integer dtype
    (a plain list is refused by make_header with AttributeError before anything is written: not a C04 matter)"""
    if how is None:
        return None
    info = np.iinfo(np.dtype(how))
    if start < info.min:              # unsigned
        start = 3
    while step > 1 and start + step * (n - 1) > info.max:       # one-byte axes
        step -= 1
    return np.array([start + step * i for i in range(n)]).astype(how)


def numpy_case(label, nfields, dtypes, cover=False, axes=None):
    """cover: one field per element of dtypes (every dtype present in the one file); axes: the (ilines, xlines) kinds"""
    rng = random.Random(f'{a.seed}:{label}')
    shape = rng.choice([(3, 5), (8, 16), (3, 43), (16, 16), (5, 26), (2, 2), (16, 24)])
    n_il, n_xl = shape
    ns = rng.choice([5, 8])
    data = rnd_cube(rng, (n_il, n_xl, ns))
    n = n_il * n_xl
    g = np.random.RandomState(rng.randrange(2 ** 31))
    pool = [f for f in FIELDS]
    if cover:
        nfields = len(dtypes)
    user = rng.sample(pool, nfields)
    if rng.random() < 0.5 and nfields:
        user[0] = rng.choice([197, 201, 205, 209, 225, 231])       # a code above 193
    user = list(dict.fromkeys(user))
    while cover and len(user) < nfields:
        user.append(rng.choice([f for f in pool if f not in user]))
    th, truth, layouts = {}, {}, {}
    cover_dts = rng.sample(dtypes, len(dtypes)) if cover else None
    for k, f in enumerate(user):
        dt = np.dtype(cover_dts[k] if cover and k < len(cover_dts) else rng.choice(dtypes))
        info = np.iinfo(dt)
        lo, hi = max(info.min, -2 ** 31), min(info.max, 2 ** 31 - 1)
        if f in (189, 193):
            base = np.array([rng.randint(max(lo, -50), min(hi, 50)) for _ in range(n_il if f == 189 else n_xl)])
            if dt.kind == 'u' and dt.itemsize >= 4 and base[1] < base[0]:
                # make_header takes axis[1] - axis[0] in the array's own dtype: a descending start of an unsigned 4/8-byte
                # axis wraps and the conversion is refused (struct.error) before anything is written -- not a C04 matter
                base[0], base[1] = base[1], base[0]
            arr = np.repeat(base, n_xl).reshape(shape) if f == 189 else np.tile(base, n_il).reshape(shape)
        else:
            arr = g.randint(lo, hi + 1 if hi < 2 ** 31 - 1 else hi, size=shape, dtype=np.int64)
            arr.reshape(-1)[0], arr.reshape(-1)[-1] = lo, hi
        layouts[f] = rng.choice(NP_LAYOUTS)
        th[f] = np_layout(arr.astype(dt), layouts[f])
        truth[f] = arr.astype(np.int64)
        assert th[f].dtype == dt and np.array_equal(th[f].astype(np.int64), truth[f])
    il_how, xl_how = axes if axes is not None else (rng.choice(NP_AXES[1:]) if rng.random() < 0.6 else None,
                                                    rng.choice(NP_AXES[1:]) if rng.random() < 0.6 else None)
    ilines = np_axis(rng, n_il, 7, 2, il_how if 189 not in user else None)
    xlines = np_axis(rng, n_xl, -3, 5, xl_how if 193 not in user else None)
    il_axis = truth[189][:, 0] if 189 in user else (np.asarray(ilines).astype(np.int64) if ilines is not None else np.arange(n_il))
    xl_axis = truth[193][0, :] if 193 in user else (np.asarray(xlines).astype(np.int64) if xlines is not None else np.arange(n_xl))
    expect = {f: np.zeros(shape, dtype=np.int64) for f in FIELDS}
    expect.update(truth)
    if 189 not in user:
        expect[189] = np.repeat(np.asarray(il_axis), n_xl).reshape(shape)
    if 193 not in user:
        expect[193] = np.tile(np.asarray(xl_axis), n_il).reshape(shape)
    p = os.path.join(d, 'np.sgz')
    axis_s = lambda ax: None if ax is None else f'{ax.dtype.str} {[int(v) for v in ax[:3]]}..'
    inp = {'case': label, 'shape': shape, 'fields': {str(f): f'{th[f].dtype.str} {layouts[f]}' for f in user},
           'ilines': axis_s(ilines), 'xlines': axis_s(xlines), 'seed': a.seed}
    try:
        write_numpy_sgz(p, data, bpv=8, ilines=ilines, xlines=xlines, trace_headers=th if (user or rng.random() < 0.5) else None)
        with SgzReader(p) as r:
            got = np.array([hrow(r.gen_trace_header(i)) for i in range(n)], dtype=np.int64)
            tfv = {f: np.array(r.get_tracefield_values(f), dtype=np.int64) for f in set(user) | {189, 193, 1}}
            r.read_variant_headers()
            var = {int(k): np.array(v, dtype=np.int64) for k, v in r.variant_headers.items()}
            tpl = [(int(k), 1 if isinstance(v, FileOffset) else 0, int(v)) for k, v in r.segy_traceheader_template.items()]
    except Exception as e:
        R.violation('oracle', inp, f'NumPy route raised {type(e).__name__}: {e}')
        return
    want = np.stack([expect[f].reshape(-1) for f in FIELDS], axis=1)
    if not np.array_equal(got, want):
        t, j = np.argwhere(got != want)[0]
        R.violation('oracle', inp, f'NumPy route: gen_trace_header({t})[{FIELDS[j]}] = {got[t, j]}, given {want[t, j]} '
                                   f'({int((got != want).sum())} values differ)')
    for f, v in tfv.items():
        if not np.array_equal(v, expect[f]):
            R.violation('oracle', inp, f'NumPy route: get_tracefield_values({f}) differs from the array given')
    if sorted(var) != sorted(set(user) | {189, 193}):
        R.violation('oracle', inp, f'NumPy route: stored arrays {sorted(var)}, given {sorted(set(user) | {189, 193})}')
    for f, v in var.items():
        if not np.array_equal(v, expect[f].reshape(-1)):
            R.violation('oracle', inp, f'NumPy route: variant_headers[{f}] differs from the array given')
    raw = open(p, 'rb').read()
    if len(raw) != SpecFile(p).expected_length():
        R.violation('oracle', inp, f'NumPy route: file length {len(raw)}, header implies {SpecFile(p).expected_length()}')
    R.case((label, shape, tuple(sorted(inp['fields'].items()))), True, sample=inp)
    R.count('numpy')
    for f in user:
        R.count(f'numpy dtype {th[f].dtype.str}')
    for ax in (ilines, xlines):
        R.count('numpy axis ' + ('default' if ax is None else ax.dtype.str))
    if a.no_model or n * len(user) > 6000:
        return
    ndb = struct.unpack('<I', raw[56:60])[0]
    # the model is given the ORIGINAL (uncast) values: astype(int32) is part of the model
    ua = '[' + '; '.join(f'({f}, {zlist(truth[f].reshape(-1))})' for f in user) + ']'
    F = (f'(numpy_write segy_fields {zlist(user)} {n_il} {n_xl} {ndb} (fun k p => match assocZ k {ua} with Some c => nth (Z.to_nat p) c 0 '
         f'| None => 0 end) (lnth {zlist(il_axis)}) (lnth {zlist(xl_axis)}))')
    ts = sample_traces(rng, n)
    o = {'raw': raw, 'template': tpl, 'gth': got, 'gth_all': {t: [int(v) for v in got[t]] for t in ts}}
    model_jobs.append((inp, f'(fshow {F} {zlist(ts)})', make_checker(inp, o, ts)))


def numpy_file_oracle(inp, p, expect, stored, n):
    """the per-file oracle of the NumPy route: every field of every trace, the stored arrays and the file length"""
    try:
        with SgzReader(p) as r:
            got = np.array([hrow(r.gen_trace_header(i)) for i in range(n)], dtype=np.int64)
            tfv = {f: np.array(r.get_tracefield_values(f), dtype=np.int64) for f in stored}
            t1d = {f: np.array(r.get_tracefield_1d(f), dtype=np.int64) for f in stored}
            r.read_variant_headers()
            var = {int(k): np.array(v, dtype=np.int64) for k, v in r.variant_headers.items()}
    except Exception as e:
        R.violation('oracle', inp, f'NumPy route: reading the written file raised {type(e).__name__}: {e}')
        return False
    ok = True
    want = np.stack([expect[f].reshape(-1) for f in FIELDS], axis=1)
    if not np.array_equal(got, want):
        t, j = np.argwhere(got != want)[0]
        R.violation('oracle', inp, f'NumPy route: gen_trace_header({t})[{FIELDS[j]}] = {got[t, j]}, given {want[t, j]} '
                                   f'({int((got != want).sum())} values differ)')
        ok = False
    for f in stored:
        if not np.array_equal(tfv[f], expect[f]):
            R.violation('oracle', inp, f'NumPy route: get_tracefield_values({f}) differs from the array given')
            ok = False
        if not np.array_equal(t1d[f].reshape(-1), expect[f].reshape(-1)):
            R.violation('oracle', inp, f'NumPy route: get_tracefield_1d({f}) differs from the array given')
            ok = False
    if sorted(var) != sorted(stored):
        R.violation('oracle', inp, f'NumPy route: stored arrays {sorted(var)}, given {sorted(stored)}')
        ok = False
    for f, v in var.items():
        if f in expect and not np.array_equal(v, expect[f].reshape(-1)):
            R.violation('oracle', inp, f'NumPy route: variant_headers[{f}] differs from the array given')
            ok = False
    try:
        sp = SpecFile(p)
        if os.path.getsize(p) != sp.expected_length() or sp.nha != len(stored):
            R.violation('oracle', inp, f'NumPy route: file length {os.path.getsize(p)} / {sp.nha} arrays, the header implies '
                                       f'{sp.expected_length()}, {len(stored)} arrays were given')
            ok = False
    except Exception as e:
        R.violation('oracle', inp, f'NumPy route: the specification decoder cannot parse the file: {type(e).__name__}: {e}')
        ok = False
    return ok


def numpy_rerun_case(label):
    """one NumpyConverter object run more than once (same settings, then another bit rate), then a second converter given
    the SAME caller-owned header dict: every file carries every supplied header array, and the caller's dict is untouched"""
    rng = random.Random(f'{a.seed}:{label}')
    shape = rng.choice([(3, 5), (5, 26), (8, 16), (4, 7)])
    n_il, n_xl = shape
    n = n_il * n_xl
    ns = rng.choice([5, 8])
    data = rnd_cube(rng, (n_il, n_xl, ns))
    g = np.random.RandomState(rng.randrange(2 ** 31))
    with_lines = rng.random() < 0.5
    user = rng.sample([f for f in FIELDS if f not in (189, 193)], rng.choice([2, 3, 5]))
    il_axis = np.array([7 + 2 * i for i in range(n_il)], dtype=np.int64)
    xl_axis = np.array([-3 + 5 * i for i in range(n_xl)], dtype=np.int64)
    truth = {f: g.randint(-2 ** 31, 2 ** 31 - 1, size=shape, dtype=np.int64) for f in user}
    if with_lines:
        truth[189] = np.repeat(il_axis, n_xl).reshape(shape)
        truth[193] = np.tile(xl_axis, n_il).reshape(shape)
    hd = {f: v.astype(np.int32) for f, v in truth.items()}
    before = {f: v.copy() for f, v in hd.items()}
    expect = {f: np.zeros(shape, dtype=np.int64) for f in FIELDS}
    expect.update(truth)
    expect[189] = np.repeat(il_axis, n_xl).reshape(shape)
    expect[193] = np.tile(xl_axis, n_il).reshape(shape)
    stored = sorted(set(user) | {189, 193})
    inp = {'case': label, 'shape': shape, 'fields': sorted(int(f) for f in hd), 'seed': a.seed}
    axes = {} if with_lines else dict(ilines=il_axis.astype(np.int32), xlines=xl_axis.astype(np.int32))
    runs = [('1st run()', 8), ('2nd run() on the same converter, same settings', 8), ('3rd run() on the same converter, 4 bits per voxel', 4)]
    try:
        with NumpyConverter(data, trace_headers=hd, **axes) as c:
            for k, (what, bpv) in enumerate(runs):
                p = os.path.join(d, f'np_rerun{k}.sgz')
                quiet(c.run, p, bits_per_voxel=bpv)
                numpy_file_oracle(dict(inp, file=what), p, expect, stored, n)
                R.count('numpy rerun file')
        what = 'a second converter given the same trace_headers dict'
        p = os.path.join(d, 'np_rerun_b.sgz')
        with NumpyConverter(data, trace_headers=hd, **axes) as c:
            quiet(c.run, p, bits_per_voxel=8)
        numpy_file_oracle(dict(inp, file=what), p, expect, stored, n)
        R.count('numpy rerun file')
    except Exception as e:
        R.violation('oracle', inp, f'NumPy route ({what}) raised {type(e).__name__}: {e}')
        return
    if sorted(hd) != sorted(before) or any(not np.array_equal(hd[f], before[f]) for f in before if f in hd):
        R.violation('oracle', inp, f'the caller\'s trace_headers dict was changed by the conversion: keys {sorted(int(f) for f in hd)}, '
                                   f'given {sorted(int(f) for f in before)}')
    R.case((label, shape, tuple(sorted(int(f) for f in hd))), True, sample=inp)
    R.count('numpy rerun')


# ------------------------------------------------------------------------------------------------ the plan
def plan():
    cases = []
    reg = [(2, 3), (5, 5), (8, 16), (3, 43), (15, 17), (16, 16), (16, 24), (35, 11)]
    two = [1, 2, 5, 17, 127, 128, 129, 255, 256, 257, 383, 384, 385]
    irr = [(4, 5), (8, 16), (9, 15), (16, 17)]
    if not QUICK:
        reg += [(2, 64), (64, 2), (7, 9), (12, 32), (33, 4), (4, 96), (2, 2), (17, 15), (1, 9), (9, 1)]
        two += [3, 4, 16, 33, 64, 130, 200, 300, 512, 640]
        irr += [(5, 7), (12, 11), (3, 43), (16, 24)]
    bss = [None, (4, 4, -1), (8, 4, -1), (4, 8, -1), (16, 4, -1)]
    reps = 1 if QUICK else 3
    for rep in range(reps):
        for k, dims in enumerate(reg):
            hm = rng.choice([0, 1, 3, 6, 12]) if dims[0] * dims[1] > 40 else rng.choice([3, 6, 12, 'all'])
            cases.append(('regular', dims, hm, (k + rep) % 2 == 0, rng.choice(bss), rng.random() < 0.25, rng.choice([5, 5, 1])))
        for k, n in enumerate(two):
            hm = rng.choice([0, 1, 3, 6, 12]) if n > 40 else rng.choice([3, 6, 'all'])
            cases.append(('2d', n, hm, (k + rep) % 2 == 1, rng.choice([None, (1, 4, -1), (1, 16, -1), (1, 64, -1)]), False, 5))
        for k, dims in enumerate(irr):
            cases.append(('irregular', dims, rng.choice([1, 3, 6]), (k + rep) % 2 == 0, rng.choice(bss[:3]), False, 5))
    return cases


try:
    only = a.replay.split(',') if a.replay else None
    for idx, (kind, dims, hm, clean, bs, riops, fmt) in enumerate(plan()):
        if only is None or f'{kind}-{idx}' in only:
            segy_case(f'{kind}-{idx}', kind, dims, hm, clean, blockshape=bs, reduce_iops=riops, fmt=fmt)
    for idx in range((14 if QUICK else 60) * (3 if a.search else 1)):
        nf = rng.choice([0, 1, 2, 4, 7])
        if only is None or f'numpy-{idx}' in only:
            numpy_case(f'numpy-{idx}', nf, NP_DTYPES)
    # ---- every integer dtype (both byte orders) in one file; every kind of axis for the default inline/crossline headers
    for idx in range((2 if QUICK else 8) * (3 if a.search else 1)):
        if only is None or f'numpy-cover-{idx}' in only:
            numpy_case(f'numpy-cover-{idx}', len(NP_DTYPES), NP_DTYPES, cover=True)
    for idx, how in enumerate(NP_AXES):
        other = NP_AXES[(idx * 5 + 3) % len(NP_AXES)]
        for rep in range((1 if QUICK else 3) * (2 if a.search else 1)):
            nf = rng.choice([0, 0, 1, 3])
            if only is None or f'numpy-axes-{idx}-{rep}' in only:
                numpy_case(f'numpy-axes-{idx}-{rep}', nf, NP_DTYPES, axes=(how, other) if rep % 2 == 0 else (other, how))
    # ---- one converter object run several times / one caller-owned header dict given to two converters
    for idx in range((2 if QUICK else 6) * (2 if a.search else 1)):
        if only is None or f'numpy-rerun-{idx}' in only:
            numpy_rerun_case(f'numpy-rerun-{idx}')
    # ---- header keys that are TraceField codes but not fields of the 89-entry table must be refused, not written (D36)
    if only is None:
        for code in sorted(set(int(v) for v in segyio.tracefield.keys.values()) - set(FIELDS)):
            p = os.path.join(d, 'np_out.sgz')
            inp = {'case': f'numpy-key-{code}', 'fields': {str(code): 'int32'}, 'seed': a.seed}
            grid = np.arange(15).reshape(3, 5).astype(np.int32)
            try:
                write_numpy_sgz(p, np.zeros((3, 5, 8), dtype=np.float32), bpv=8, trace_headers={code: grid})
                try:
                    with SgzReader(p) as r:
                        ok = np.array_equal(r.get_tracefield_values(code), grid) and os.path.getsize(p) == SpecFile(p).expected_length()
                except Exception as e:
                    ok = False
                if not ok:
                    R.violation('oracle', inp, f'NumPy route accepted header key {code}, which is not one of the 89 table fields, and wrote '
                                               f'a file that does not read back', finding_key='D36-numpy-unassigned-fields')
            except AssertionError:
                pass
            R.case(('numpy-key', code), True)
            R.count('numpy_foreign_key')
    # ---- run the model on everything collected
    if os.environ.get('C04_DUMP_TERMS'):
        json.dump([[i, t] for i, t, _ in model_jobs], open(os.environ['C04_DUMP_TERMS'], 'w'))
    elif not a.no_model and model_jobs:
        try:
            vals = coq_eval(['SZ.Lib.Py', 'SZ.Gen.Headers', 'SZ.Model.Headers'], [t for _, t, _ in model_jobs], shard=8, jobs=16,
                            preamble=PREAMBLE)
            for (inp, _, chk), v in zip(model_jobs, vals):
                chk(parse_value(v))
            R.count('model_evaluations', len(vals))
        except CoqEvalError as e:
            R.violation('corr', {'stage': 'coq_eval'}, str(e)[-1500:])
finally:
    shutil.rmtree(d, ignore_errors=True)
R.write(a.out)
