#!/usr/bin/env python3
"""Harness for C01 (write-then-read fidelity).

correspondence: the regions the GENERATED producer model predicts (coq/Model/Writer.v over coq/Gen/Producer.v, evaluated
  inside Coq) vs the arrays the real producers hand to zfpy.compress_numpy (recorded by wrapping it in-process): same
  sequence of shapes, and each array bitwise equal to that region of the edge-extended source.
direct oracles (never the model):
  O1  read_volume() of the written file == zfpy fixed-rate image of the source extended to multiples of 4 by edge
      replication (whole-array compress + decompress at the chosen rate), bit for bit;
  O2  the file's data section == unit codes of the edge-extended source placed at the specification's unit positions
      (an independent encoder), byte for byte; file length and header sizes as the specification derives them;
  O3  the ZFP structural assumption itself (array code = unit codes in C order, unit-local), validated against zfpy.
routes: NumPy, SEG-Y (IEEE / IBM) through segyio, through the reduced-I/O reader, CLI; extended textual headers.
"""
import os, sys, subprocess
sys.path.insert(0, os.path.dirname(os.path.abspath(__file__)))
from common import *
a = parse_args()
from hz import *
from coqeval import coq_eval, parse_value
import seismic_zfp.conversion_utils as cu

R = Result('one case = (cube shape, bits per voxel, blockshape, route); non-trivial = distinct case whose conversion ran; shapes take '
           'every residue mod 4 and mod the blockshape, below / at / above one block and several blocks per axis')
rng = random.Random(a.seed + 17)
thorough = a.tier == 'thorough' or a.search

# ---------------------------------------------------------------- O3: ZFP structure
def zfp_structure():
    g = np.random.RandomState(a.seed + 5)
    for rate in (0.25, 0.5, 1, 2, 4, 8, 16, 32):
        arr = (g.standard_normal((8, 12, 16)) * 100).astype(np.float32)
        whole = zfpy.compress_numpy(arr, rate=rate, write_header=False)
        ub = int(64 * rate) // 8
        codes = []
        for iu in range(2):
            for xu in range(3):
                for zu in range(4):
                    codes.append(zfpy.compress_numpy(arr[4 * iu:4 * iu + 4, 4 * xu:4 * xu + 4, 4 * zu:4 * zu + 4].copy(), rate=rate, write_header=False)[:ub])
        R.case(('zfp', rate), sample={'zfp_structure_rate': rate})
        if len(whole) < ub * 24 or bytes(whole[:ub * 24]) != b''.join(codes):
            R.violation('assumption', {'rate': rate}, 'zfpy array stream is not the concatenation of unit streams in C order: the ZFP structural assumption fails')


# ---------------------------------------------------------------- helpers
def padto(n, m):
    return -(-n // m) * m


def edge_ext(src, shape):
    idx = [np.minimum(np.arange(shape[k]), src.shape[k] - 1) for k in range(3)]
    return src[np.ix_(*idx)]


def zfp_image(src, rate):
    e4 = edge_ext(src, tuple(padto(n, 4) for n in src.shape))
    comp = zfpy.compress_numpy(np.ascontiguousarray(e4), rate=rate, write_header=False)
    dec = zfpy._decompress(bytes(comp), zfpy.dtype_to_ztype(np.dtype('float32')), e4.shape, rate=rate)
    return dec[:src.shape[0], :src.shape[1], :src.shape[2]]


def independent_data_section(src, sp):
    """unit codes of the edge-extended source at the specification's positions"""
    P = sp.shape_pad
    ext = np.ascontiguousarray(edge_ext(src, P))
    rate = float(sp.rate)
    comp = zfpy.compress_numpy(ext, rate=rate, write_header=False)    # units in C order of (P0/4, P1/4, P2/4)
    ub = sp.ub
    out = bytearray(len(sp.data))
    k = 0
    for iu in range(P[0] // 4):
        for xu in range(P[1] // 4):
            for zu in range(P[2] // 4):
                pos = sp.unit_index(iu, xu, zu) * ub
                out[pos:pos + ub] = comp[k * ub:(k + 1) * ub]
                k += 1
    return bytes(out)


class Recorder:
    def __init__(self):
        self.items = []
        self.real = cu.zfpy.compress_numpy

    def __enter__(self):
        rec = self

        def wrapped(buf, *aa, **kk):
            if isinstance(buf, np.ndarray):           # (the harness's thread reaper feeds the workers a non-array poison item)
                rec.items.append(np.array(buf, copy=True))
            return rec.real(buf, *aa, **kk)
        self.mod = types.SimpleNamespace(**{k: getattr(cu.zfpy, k) for k in dir(cu.zfpy) if not k.startswith('__')})
        self.mod.compress_numpy = wrapped
        self.saved = cu.zfpy
        cu.zfpy = self.mod
        return self

    def __exit__(self, *e):
        cu.zfpy = self.saved


CONFIGS = [  # (bits per voxel, blockshape) -- all valid: product * bpv = 32768 bits
    (8, (4, 4, 256)), (4, (4, 4, -1)), (2, (4, 4, 1024)), (1, (4, 4, 2048)), (0.5, (4, 4, 4096)), (16, (4, 4, 128)), (32, (4, 4, 64)),
    (2, (64, 64, 4)), (2, (4, 8, 512)), (4, (8, 8, 128)), (8, (16, 16, 16)), (8, (32, 32, 4)), (4, (4, 16, 128)), (0.25, (64, 64, 32)),
    (16, (8, 4, 64)), (2, (16, 4, 256)), (2, (32, 128, 4)), (8, (16, 64, 4)), (4, (64, 32, 4)),
]


def shapes_for(bs, quick):
    """per axis: below one block, residues mod 4, exactly one block, one block + residue (kept small)"""
    out = []
    def axis(b):
        c = [2, 3, 5, b, b + 1] if b <= 16 else [3, 5, b - 1, b, b + 2]
        if not quick:
            c += [4, 6, 7, 2 * b + 3]
        return c
    ax = [axis(b) for b in bs]
    n = 3 if quick else 8
    for _ in range(n):
        out.append(tuple(rng.choice(ax[k]) for k in range(3)))
    return out


def model_regions(prefix, shape, bs):
    t = f'map (fun r => [r_i0 r; r_x0 r; r_z0 r; r_ni r; r_nx r; r_nz r]) ({prefix}_regions {shape[0]} {shape[1]} {shape[2]} {bs[0]} {bs[1]} {bs[2]})'
    return t


cases = []
def run_case(route, shape, bpv, bs, d, idx):
    src = rnd_cube(rng, shape)
    p = os.path.join(d, f'c{idx}.sgz')
    sgy = os.path.join(d, f'c{idx}.sgy')
    inp = {'route': route, 'shape': list(shape), 'bits_per_voxel': bpv, 'blockshape': list(bs)}
    with Recorder() as rec:
        try:
            if route == 'numpy':
                write_numpy_sgz(p, src, bpv=bpv, blockshape=bs)
            elif route.startswith('segy'):
                fmt = 1 if 'ibm' in route else 5
                # line numbering varies with the case (never ordinal + constant 1 only): start and step of both axes
                il0, dil = (1, 1) if idx % 3 == 0 else ((7, 3) if idx % 3 == 1 else (100, 2))
                xl0, dxl = (10, 1) if idx % 2 == 0 else (21, 4)
                inp['axes'] = [il0, dil, xl0, dxl]
                mk_segy(sgy, src, range(il0, il0 + dil * shape[0], dil), range(xl0, xl0 + dxl * shape[1], dxl), fmt=fmt,
                        ext_text=(1 if 'ext' in route else 0), sorting=(1 if 'xsort' in route else 2))
                with segyio.open(sgy) as f:
                    src = np.stack([np.asarray(f.iline[n_]) for n_ in f.ilines]).astype(np.float32)      # the source as segyio presents it, inline by inline (IBM -> float32; independent of the file's trace sorting)
                win = None
                if 'win' in route and shape[0] >= 3:
                    # an inline window that keeps every crossline (the case in which the reduced-I/O reader could be kept by mistake)
                    i0 = 1 + (idx % max(1, shape[0] - 2))
                    win = (i0, shape[0], 0, shape[1])
                    src = src[i0:]
                    inp['window'] = list(win)
                write_segy_sgz(sgy, p, bpv=bpv, blockshape=bs, reduce_iops=('min' in route), window=win)
            elif route == 'cli':
                mk_segy(sgy, src, range(1, shape[0] + 1), range(10, 10 + shape[1]))
                from click.testing import CliRunner
                from seismic_zfp.cli import cli
                res = CliRunner().invoke(cli, ['sgy2sgz', sgy, p, '--bits-per-voxel', str(int(bpv) if bpv >= 1 else -int(round(1 / bpv))), '--blockshape', str(bs[0]), str(bs[1]), str(bs[2])])
                if res.exit_code != 0:
                    raise RuntimeError('cli failed: ' + str(res.output)[-300:] + repr(res.exception))
        except Exception as e:
            R.violation('oracle', inp, f'valid setting: conversion raised {type(e).__name__}: {e}')
            return
    sp = SpecFile(p)
    rate = float(sp.rate)
    # O1
    with SgzReader(p) as r:
        vol = r.read_volume()
        want = zfp_image(src, rate)
        if not bits_equal(vol, want):
            R.violation('oracle', inp, f'read_volume differs from the ZFP image of the edge-extended source (max abs diff {float(np.abs(vol - want).max())})')
        else:
            # read-back is the same through every specialised path (its own loader routine per layout)
            n0, n1, n2 = want.shape
            for name, k, sl in [('read_inline', i_, want[i_]) for i_ in sorted({0, n0 - 1, n0 // 2})] + \
                               [('read_crossline', x_, want[:, x_]) for x_ in sorted({0, n1 - 1, n1 // 2})] + \
                               [('read_zslice', z_, want[:, :, z_]) for z_ in sorted({0, n2 - 1, n2 // 2, min(n2 - 1, 4)})]:
                got = getattr(r, name)(k)
                if not bits_equal(got, sl):
                    R.violation('oracle', inp, f'{name}({k}) differs from the ZFP image of the edge-extended source although read_volume() agrees')
                    break
            else:
                # ... and through the per-trace path (trace ordinals of every crossline, last inline; the main diagonal)
                try:
                    for t_ in sorted({(n0 - 1) * n1 + x_ for x_ in range(n1)} | {0, n1 - 1, n1, (n0 * n1) // 2}):
                        if not bits_equal(r.get_trace(t_), want[t_ // n1, t_ % n1]):
                            R.violation('oracle', inp, f'get_trace({t_}) differs from the ZFP image of the edge-extended source although read_volume() agrees')
                            break
                    # sample windows of a trace (from the second disk block on when the trace is longer than one; interior)
                    bz_ = int(r.blockshape[2])
                    for t_ in sorted({0, n0 * n1 - 1, (n0 * n1) // 2}):
                        for a_, b_ in {(bz_, n2) if n2 > bz_ else (n2 // 2, n2), (1, n2 - 1), (min(n2 - 1, bz_ + 1), n2), (n2 // 3, n2 // 3 + 1)}:
                            if 0 <= a_ < b_ <= n2 and not bits_equal(r.get_trace(t_, a_, b_), want[t_ // n1, t_ % n1, a_:b_]):
                                R.violation('oracle', dict(inp, call=f'get_trace({t_}, {a_}, {b_})'), f'get_trace({t_}, {a_}, {b_}) differs from that window of the ZFP image of the edge-extended source although read_volume() agrees')
                                break
                    if not bits_equal(r.read_correlated_diagonal(0), np.stack([want[k_, k_] for k_ in range(min(n0, n1))])):
                        R.violation('oracle', inp, 'read_correlated_diagonal(0) differs from the ZFP image of the edge-extended source although read_volume() agrees')
                except Exception as e_:
                    R.violation('oracle', inp, f'reading the written cube trace by trace raised {type(e_).__name__}: {e_}')
                # the cube read back slab by slab (4 inlines at a time, all slabs held until the end, as a caller assembling a
                # volume does): the assembled cube is the same image
                if n0 >= 8:
                    parts = [r.read_subvolume(i_, min(i_ + 4, n0), 0, n1, 0, n2) for i_ in range(0, n0, 4)]
                    if not bits_equal(np.concatenate(parts, axis=0), want):
                        R.violation('oracle', inp, 'the cube assembled from read_subvolume slabs of 4 inlines (all held until the end) differs from the ZFP image of the edge-extended source although read_volume() agrees')
    # O1b: the re-layout route (2-bit default-layout files can be re-blocked to 64x64x4): read-back is the same image
    if rate == 2 and tuple(sp.bs) == (4, 4, 1024):
        q = p + '.adv.sgz'
        try:
            with SgzConverter(p) as c:
                quiet(c.convert_to_adv_sgz, q)
            with SgzReader(q) as r:
                if not bits_equal(r.read_volume(), want):
                    R.violation('oracle', dict(inp, then='convert_to_adv_sgz'), 'read_volume of the re-blocked file differs from the ZFP image of the edge-extended source')
            R.count('route:then re-blocked')
        except Exception as e:
            R.violation('oracle', dict(inp, then='convert_to_adv_sgz'), f're-blocking a valid 2-bit default-layout file raised {type(e).__name__}: {e}')
        finally:
            if os.path.exists(q):
                os.remove(q)
    # O2
    if os.path.getsize(p) != sp.expected_length():
        R.violation('oracle', inp, f'file length {os.path.getsize(p)} != {sp.expected_length()} derived from the header')
    if sp.ndb * 4096 * 8 != sp.shape_pad[0] * sp.shape_pad[1] * sp.shape_pad[2] * sp.rate:
        R.violation('oracle', inp, 'stated disk blocks != padded voxels x bits / 8')
    if bytes(sp.data) != independent_data_section(src, sp):
        R.violation('oracle', inp, 'data section differs from the independently encoded edge-extended source at the specification positions')
    cases.append((inp, src, rec.items, sp))
    R.case((route,) + tuple(shape) + (bpv,) + tuple(bs), sample=inp)
    R.count('route:' + route)
    R.count('layout:' + 'x'.join(map(str, sp.bs)))


def main():
    zfp_structure()
    d = scratch_dir()
    try:
        idx = 0
        routes_extra = ['segy', 'segy-min', 'segy-ibm', 'segy-ibm-min', 'cli', 'segy-min-win', 'segy-win']
        for ci, (bpv, bs) in enumerate(CONFIGS):
            if bs[2] == -1:
                bsr = (bs[0], bs[1], int(32768 // (bs[0] * bs[1] * bpv)))
            else:
                bsr = bs
            for si, shape in enumerate(shapes_for(bsr, not thorough)):
                idx += 1
                run_case('numpy', shape, bpv, bs, d, idx)
                if si == 0 or thorough:
                    idx += 1
                    run_case(routes_extra[(ci + si) % len(routes_extra)], shape, bpv, bs, d, idx)
        # reduced-I/O reader with extended textual headers: the documented behaviour is a fallback to segyio
        for k in range(2 if not thorough else 6):
            idx += 1
            run_case('segy-min-ext', (rng.choice([3, 5, 6]), rng.choice([4, 7, 9]), rng.choice([9, 17])), 8, (4, 4, 256), d, idx)
        # crossline-sorted SEG-Y (the inline number varies fastest in the file): segyio presents the same cube; the reduced-I/O
        # reader's self-test must fall back to segyio
        for k, rt in enumerate(['segy-xsort', 'segy-min-xsort', 'segy-xsort-win'] if not thorough else
                               ['segy-xsort', 'segy-min-xsort', 'segy-xsort-win', 'segy-ibm-xsort', 'segy-min-xsort-win', 'segy-xsort']):
            idx += 1
            run_case(rt, (rng.choice([5, 6, 9]), rng.choice([4, 7, 10]), rng.choice([9, 17])), rng.choice([4, 8]), (4, 4, -1) if k % 2 == 0 else (8, 8, -1), d, idx)
        # 2-bit cubes whose line counts fall just below / at / above a multiple of 64 (the re-layout route's partial blocks)
        for sh in ([(62, 5, 9), (5, 63, 6), (65, 61, 5)] if not thorough else [(61, 5, 9), (62, 6, 5), (63, 5, 6), (64, 4, 5), (65, 5, 5), (5, 61, 9), (6, 63, 5), (126, 5, 5), (5, 127, 6)]):
            idx += 1
            run_case('numpy', sh, 2, (4, 4, -1), d, idx)
        # ---------------- correspondence with the generated model
        if not a.no_model and cases:
            terms = []
            for inp, src, items, sp in cases:
                prefix = 'np' if inp['route'] == 'numpy' else 'sf'
                terms.append(model_regions(prefix, src.shape, sp.bs))
            try:
                vals = coq_eval(['SZ.Gen.Producer', 'SZ.Model.Writer'], terms)
            except Exception as e:
                R.violation('corr', {}, 'the generated producer model does not evaluate: ' + str(e)[-500:])
                vals = []
            for (inp, src, items, sp), v in zip(cases, vals):
                regs = parse_value(v)
                ext = edge_ext(src, sp.shape_pad)
                if [tuple(r[3:]) for r in regs] != [it.shape for it in items]:
                    R.violation('corr', inp, f'model predicts {len(regs)} compress calls with shapes {[tuple(r[3:]) for r in regs][:4]}.., implementation made {len(items)} with {[it.shape for it in items][:4]}..')
                    continue
                for r, it in zip(regs, items):
                    want = ext[r[0]:r[0] + r[3], r[1]:r[1] + r[4], r[2]:r[2] + r[5]]
                    if not bits_equal(it, want):
                        R.violation('corr', dict(inp, region=r), 'array handed to the compressor differs from that region of the edge-extended source')
                        break
    finally:
        shutil.rmtree(d, ignore_errors=True)
    R.write(a.out)


main()
