#!/usr/bin/env python3
"""Correspondence harness for the by-number / by-coordinate entry points (Props/C02d.v, Props/C14b.v).

Correspondence ('corr'): Model/Coords.v (over the GENERATED Gen/Coords.v and Gen/Reader.v) is evaluated inside Coq
(tools/coqeval.py) on the same inputs as the implementation:
  A  utils.coord_to_index(v, axis, include_stop) on integer axes built here (arithmetic with positive / negative / non-unit
     increments, lengths 0, 1, 2, ..., axes with duplicates, unordered axes; int32 and integer-valued float64 arrays)
     == cm_coord_to_index Zops v axis flag                      (a position or the exception class)
  B  on real files written with NumpyConverter (ascending / descending / non-unit / zero-increment line axes, line numbers at
     the int32 boundary, sample axes starting below zero with dyadic increments):
       r.ilines / r.xlines                     == the line axes header_axes builds from the raw header fields
       get_inline_index / get_crossline_index / get_zslice_index(v[, include_stop])   == cm_get_index
       read_inline_number / read_crossline_number / read_zslice_coord(v): the model says "the ordinal reader at ordinal i" or
           IndexError;  compared with the implementation's own ordinal reader at i, bit for bit / with the exception class
       get_trace_by_coord(t, lo, hi): the model's window of ordinals cm_gtbc_window -> get_trace(t, a, b), or IndexError
     (dyadic sample coordinates are handed to the model scaled to integers: float + and - are exact on them)
Direct oracles ('oracle'; numpy slicing of read_volume() and the construction of the case only, never the model):
  an on-axis value gives position i / the slice of read_volume() at ordinal i; the first occurrence on an axis with
  duplicates; the stop coordinate gives len(axis) only with include_stop on an axis of at least two elements; every other
  value raises IndexError and NO read reaches the file (hz.CountingFile); coordinate windows (None on either side, the stop
  coordinate as upper bound) give the window of the decoded trace.  Sample axes with an increment that is NOT exactly
  representable (0.1, 0.3, 1.1, 2.1, 3.3 ms, random whole microseconds) are checked by oracle only.
Known finding D50 (guard: zs[-1] + zs[1] - zs[0] == zs[-1] + (zs[-1] - zs[-2]) in float64): outside the guard the unrepaired
get_trace_by_coord raises IndexError whenever the upper bound is omitted."""
import os, sys, struct, json, re
sys.path.insert(0, os.path.dirname(os.path.abspath(__file__)))
from common import *
a = parse_args()
from hz import *
from seismic_zfp.utils import coord_to_index
from coqeval import coq_eval, CoqEvalError

R = Result('one case = (axis, value, include_stop) for coord_to_index, or (file, entry point, line number / coordinate / '
           'coordinate window) on a real file; non-trivial = distinct case; model (Coq) vs implementation, and the direct '
           'oracle: on-axis -> ordinal of the first occurrence / slice of read_volume(), off-axis -> IndexError without a read')
rng = random.Random(a.seed * 7919 + 13)
quick = (a.tier == 'quick') and not a.search
use_model = not a.no_model
D50 = 'D50-trace-by-coord-default-bound'
HERE = os.path.dirname(os.path.abspath(__file__))
GEN = os.path.join(HERE, '..', '..', 'coq', 'Gen')
if use_model and not os.path.exists(os.path.join(GEN, 'Coords.v')):
    use_model = False          # the generator refused the current source: the direct oracles still run (failing-input search)
STATUS = os.path.join(GEN, 'STATUS.json')
HDR_FIELDS = json.load(open(STATUS))['hdr_fields'] if os.path.exists(STATUS) else []
pending = []          # (coq term, check(value text) -> None | message, input description)
preamble = []


def zlit(v):
    return str(int(v)) if int(v) >= 0 else f'({int(v)})'


def zlist(l):
    return '[' + '; '.join(zlit(x) for x in l) + ']'


def opt(v):
    return 'None' if v is None else f'(Some {zlit(v)})'


def optb(v):
    return 'None' if v is None else f'(Some {"true" if v else "false"})'


def outcome(fn):
    try:
        return ('R', fn())
    except Exception as e:
        return ('E', type(e).__name__)


EXN = {'IndexErr': 'IndexError', 'WrongDim': 'WrongDimensionalityError', 'AssertErr': 'AssertionError', 'ValueErr': 'ValueError',
       'TypeErr': 'TypeError', 'ZeroDivErr': 'ZeroDivisionError', 'RuntimeErr': 'RuntimeError', 'IOErr': 'OSError'}


def parse_outcome(s):
    """'Return 3' -> ('R', 3); 'Return (3, 7)' -> ('R', (3, 7)); 'Raise IndexErr' -> ('E', 'IndexError')"""
    s = re.sub(r'%[A-Za-z]+', '', s.strip())
    if s.startswith('Raise'):
        return ('E', EXN.get(s.split()[1], s.split()[1]))
    if s.startswith('Return'):
        nums = [int(re.sub(r'[\s()]', '', x)) for x in re.findall(r'-\s*\(?\s*\d+\s*\)?|\d+', s[6:])]
        return ('R', nums[0] if len(nums) == 1 else tuple(nums))
    raise ValueError(f'unparsable outcome {s!r}')


# ------------------------------------------------------------------------------------------------ A: coord_to_index itself
def axis_values(s, d, n):
    """values worth asking for on the arithmetic axis s + d*k, k < n"""
    vals = {s + d * k for k in range(n)} | {s - d, s + d * n, s + d * (n + 1), s - 7 * d, s + 1000 * d + 1, 0}
    if abs(d) > 1 and n > 0:
        sg = 1 if d > 0 else -1
        vals |= {s + sg, s + d * (n // 2) + sg, s + d * (n - 1) - sg, s + d * n - sg, s + d * n + sg}
    return sorted(vals)


def part_a():
    cases = []
    steps = [1, -1, 2, -3, 7, -5, 4, 0]
    lengths = [0, 1, 2, 3, 5, 8] if quick else [0, 1, 2, 3, 4, 5, 8, 13, 40]
    for d in steps:
        for n in lengths:
            if quick and rng.random() < 0.35:
                continue
            s = rng.randrange(-60, 60)
            ax = [s + d * k for k in range(n)]
            for v in axis_values(s, d, n):
                for flag in (False, True):
                    cases.append(('arith', ax, v, flag, (s, d, n)))
    for _ in range(12 if quick else 60):             # duplicates / unordered axes
        n = rng.randrange(0, 8)
        ax = [rng.randrange(-4, 5) for _ in range(n)]
        for v in sorted(set(ax) | {rng.randrange(-6, 7) for _ in range(3)} | ({2 * ax[-1] - ax[-2]} if n >= 2 else set())):
            for flag in (False, True):
                cases.append(('dup', ax, v, flag, None))
    for kind, ax, v, flag, par in cases:
        inp = {'call': 'coord_to_index', 'axis': ax, 'value': v, 'include_stop': flag}
        R.case(('A', tuple(ax), v, flag), sample=inp)
        R.count('coord_to_index ' + kind)
        got_i = outcome(lambda: int(coord_to_index(v, np.array(ax, dtype=np.intc), include_stop=flag)))
        got_f = outcome(lambda: int(coord_to_index(float(v), np.array(ax, dtype=np.float64), include_stop=flag)))
        if got_i != got_f:
            R.violation('oracle', inp, f'int32 axis gives {got_i}, the same axis as float64 gives {got_f}')
        # oracle: first occurrence; stop value only with the flag and two elements; IndexError otherwise
        if v in ax:
            want = ('R', ax.index(v))
        elif flag and len(ax) >= 2 and v == ax[-1] + (ax[-1] - ax[-2]):
            want = ('R', len(ax))
        else:
            want = ('E', 'IndexError')
        if kind == 'arith' and par[1] != 0:
            s, d, n = par
            q, rem = divmod(v - s, d)
            w2 = ('R', q) if rem == 0 and (0 <= q < n or (flag and n >= 2 and q == n)) else ('E', 'IndexError')
            if w2 != want:
                R.violation('oracle', inp, f'harness oracle inconsistent: {want} vs {w2}')
        if got_i != want:
            R.violation('oracle', inp, f'coord_to_index gives {got_i}; the first occurrence / stop rule gives {want}')
        if use_model:
            pending.append((f'cm_coord_to_index Zops {zlit(v)} {zlist(ax)} {"true" if flag else "false"}',
                            (lambda got: lambda s: None if parse_outcome(s) == got else f'implementation {got}, model {s}')(got_i), inp))


# ------------------------------------------------------------------------------------------------ B: real files
def hdr_list(raw):
    vals = []
    for name in HDR_FIELDS:
        _, kind, off = name.split('_')
        fmt = {('u', 32): '<I', ('i', 32): '<i'}[(kind[0], int(kind[1:]))]
        vals.append(struct.unpack(fmt, raw[int(off):int(off) + 4])[0])
    return vals


def chdr_offsets():
    """the fields of the generated record chdr, in record order"""
    txt = open(os.path.join(GEN, 'Coords.v')).read()
    m = re.search(r'Record chdr := \{([^}]*)\}', txt)
    return [int(x) for x in re.findall(r'c_u32_(\d+)', m.group(1))]


def expect_refusal(f, fn, inp):
    """IndexError and no read of the file"""
    f.log.clear()
    got = outcome(fn)
    if got != ('E', 'IndexError'):
        R.violation('oracle', inp, 'a value off the axis ' + ('returned data' if got[0] == 'R' else f'raised {got[1]}') + ' instead of raising IndexError')
    elif f.log:
        R.violation('oracle', inp, f'the refused call read from the file first: {f.log[:3]}')


def same_outcome(x, y):
    if x[0] != y[0]:
        return False
    return x[1] == y[1] if x[0] == 'E' else bits_equal(x[1], y[1])


def line_values(ax, step):
    vals = set(int(v) for v in ax) | {int(ax[0]) - step, int(ax[-1]) + step, int(ax[0]) - 7 * step, int(ax[-1]) + 1000 * step + 1}
    if abs(step) > 1:
        sg = 1 if step > 0 else -1
        vals |= {int(ax[0]) + sg, int(ax[len(ax) // 2]) + sg, int(ax[-1]) - sg}
    return sorted(v for v in vals if -2 ** 31 <= v < 2 ** 31)


def file_case(d, fi, il, xl, z0, dz, ns, bpv, bs, exact):
    """exact: the sample axis is dyadic (multiples of 1/16): the model is run on coordinates scaled by 16"""
    n_il, n_xl = len(il), len(xl)
    zs = np.array([z0 + dz * k for k in range(ns)], dtype=np.float64)
    src = rnd_cube(rng, (n_il, n_xl, ns))
    p = os.path.join(d, f'f{fi}.sgz')
    write_numpy_sgz(p, src, bpv=bpv, blockshape=bs, ilines=np.array(il), xlines=np.array(xl), samples=zs)
    label = {'ilines': [int(il[0]), int(il[1] - il[0]), n_il], 'xlines': [int(xl[0]), int(xl[1] - xl[0]), n_xl],
             'samples': [z0, dz, ns], 'layout': list(bs), 'bits': bpv}
    raw = open(p, 'rb').read(4096)
    f = CountingFile(p)
    r = quiet(SgzReader, f)
    try:
        V = r.read_volume()
        zr = np.array(r.zslices, dtype=np.float64)
        if list(r.ilines) != [int(v) for v in il] or list(r.xlines) != [int(v) for v in xl] or len(zr) != ns:
            R.violation('oracle', label, f'axes of the file differ from the source axes: {list(r.ilines)} {list(r.xlines)} {len(zr)} samples')
            return
        SC = 16
        if exact and any(float(v) * SC != round(float(v) * SC) for v in zr):
            R.notes.append(f'{label}: sample axis not dyadic after the round trip; model comparison skipped')
            exact = False
        model = use_model and exact
        An, Hn = f'A{fi}', f'H{fi}'
        if model:
            offs = chdr_offsets()
            X = ' '.join(zlit(struct.unpack('<I', raw[o:o + 4])[0]) for o in offs)
            preamble.append(f'Definition {Hn} := hdr_of_list {zlist(hdr_list(raw))}.\n'
                            f'Definition {An} := header_axes {Hn} (Build_chdr {X}) {zlist([round(float(v) * SC) for v in zr])}.\n')
            want_axes = (list(int(v) for v in r.ilines), list(int(v) for v in r.xlines))
            pending.append((f'(ax_il {An}, ax_xl {An})',
                            (lambda w: lambda s: None if [int(re.sub(r"[\s()]", "", x)) for x in re.findall(r"-\s*\(?\s*\d+\s*\)?|\d+", s)] == w[0] + w[1]
                             else f'r.ilines, r.xlines = {w}, model axes {s}')(want_axes), dict(label, call='axes')))
        il_step, xl_step = int(il[1] - il[0]), int(xl[1] - xl[0])
        # ---- line numbers
        for name, ix, ent, ax, step, getidx, bynum, ordinal, sl in (
                ('inline', 'IxInline', 'EnInlineNumber', il, il_step, r.get_inline_index, r.read_inline_number, r.read_inline, lambda i: V[i]),
                ('crossline', 'IxCrossline', 'EnCrosslineNumber', xl, xl_step, r.get_crossline_index, r.read_crossline_number, r.read_crossline, lambda i: V[:, i])):
            axl = [int(v) for v in ax]
            vals = line_values(ax, step if step != 0 else 1)
            if quick and len(vals) > 14:
                vals = sorted(set(rng.sample(vals, 10)) | {axl[0], axl[-1], axl[0] - (step or 1), axl[-1] + (step or 1)})
            for v in vals:
                inp = dict(label, call=f'read_{name}_number', arg=v)
                R.case(('B', fi, name, v), sample=inp)
                R.count(f'{name} number ' + ('on axis' if v in axl else 'off axis'))
                gi = outcome(lambda: int(getidx(v)))
                if v in axl:
                    i = axl.index(v)
                    if gi != ('R', i):
                        R.violation('oracle', inp, f'get_{name}_index gives {gi}, the first line with that number is ordinal {i}')
                    got = outcome(lambda: bynum(v))
                    if got[0] != 'R' or not bits_equal(got[1], sl(i)):
                        R.violation('oracle', inp, f'not the {name} of read_volume() at ordinal {i}' if got[0] == 'R' else f'on-axis line number raised {got[1]}')
                else:
                    if gi != ('E', 'IndexError'):
                        R.violation('oracle', inp, f'get_{name}_index of a number that is not on the axis gives {gi}')
                    expect_refusal(f, lambda: bynum(v), inp)
                if model:
                    def chk(s, gi=gi, v=v, bynum=bynum, ordinal=ordinal):
                        m = parse_outcome(s)
                        if m != gi:
                            return f'get index: implementation {gi}, model {s}'
                        real = outcome(lambda: bynum(v))
                        pred = outcome(lambda: ordinal(m[1])) if m[0] == 'R' else m
                        return None if same_outcome(real, pred) else f'by-number read is not the ordinal read the model names ({s})'
                    pending.append((f'cm_get_index Zops {An} {ix} {zlit(v)} None', chk, inp))
                    pending.append((f'match cm_read_by_number Zops {An} {Hn} {ent} {zlit(v)} with Return _ => Return 0 | Raise e => Raise e end',
                                    (lambda on: lambda s: None if (parse_outcome(s)[0] == 'R') == on else f'model outcome {s}, value on axis: {on}')(v in axl), inp))
        # ---- sample coordinates
        step = float(zr[1] - zr[0])
        stop = float(zr[-1] + (zr[-1] - zr[-2]))
        zvals = [(float(v), k) for k, v in enumerate(zr)]
        if quick and ns > 12:
            keep = set(rng.sample(range(ns), 8)) | {0, 1, ns - 1} | {k for k, v in enumerate(zr) if v == 0.0}
            zvals = [zv for zv in zvals if zv[1] in keep]
        offz = [float(zr[0]) - step, stop, stop + step, float(zr[0]) + step / 2, float(zr[ns // 2]) + step / 4, float(zr[-1]) - step / 2, float(zr[-1]) + step / 2]
        for v, k in zvals + [(v, None) for v in offz]:
            for flag in (None, True):
                inp = dict(label, call='get_zslice_index', arg=v, include_stop=flag)
                R.case(('B', fi, 'zi', v, flag), sample=inp)
                gi = outcome(lambda: int(r.get_zslice_index(v) if flag is None else r.get_zslice_index(v, include_stop=flag)))
                want = ('R', k) if k is not None else (('R', ns) if flag and v == stop else ('E', 'IndexError'))
                if gi != want:
                    R.violation('oracle', inp, f'get_zslice_index gives {gi}, expected {want}')
                if model:
                    pending.append((f'cm_get_index Zops {An} IxZslice {zlit(round(v * SC))} {optb(flag)}',
                                    (lambda gi: lambda s: None if parse_outcome(s) == gi else f'implementation {gi}, model {s}')(gi), inp))
            inp = dict(label, call='read_zslice_coord', arg=v)
            R.case(('B', fi, 'z', v), sample=inp)
            R.count('zslice coord ' + ('on axis' if k is not None else 'off axis'))
            if k is not None:
                got = outcome(lambda: r.read_zslice_coord(v))
                if got[0] != 'R' or not bits_equal(got[1], V[:, :, k]):
                    R.violation('oracle', inp, f'not the z-slice of read_volume() at ordinal {k}' if got[0] == 'R' else f'on-axis coordinate raised {got[1]}')
            else:
                expect_refusal(f, lambda: r.read_zslice_coord(v), inp)
            if model:
                def chkz(s, v=v):
                    m = parse_outcome(s)
                    real = outcome(lambda: r.read_zslice_coord(v))
                    pred = outcome(lambda: r.read_zslice(m[1])) if m[0] == 'R' else m
                    return None if same_outcome(real, pred) else f'read_zslice_coord is not the ordinal read the model names ({s})'
                pending.append((f'cm_get_index Zops {An} IxZslice {zlit(round(v * SC))} None', chkz, inp))
        # ---- coordinate windows of a trace
        t = rng.randrange(n_il * n_xl)
        ti, tx = t // n_xl, t % n_xl
        zi = sorted(set([0, 1, ns // 2, ns - 1] + [k for k, v in enumerate(zr) if v == 0.0] + rng.sample(range(ns), 2)))
        bounds = [(None, None)] + [(float(zr[k]), k) for k in zi]
        uppers = bounds + [(stop, ns)]
        offb = [(float(zr[0]) - step, 'off'), (float(zr[1]) + step / 2, 'off'), (stop + step, 'off')]
        wins = [(lo, hi) for lo in bounds for hi in uppers]
        wins += [(lo, hi) for lo in offb + [(stop, 'off')] for hi in (uppers[0], uppers[-1], uppers[2])]
        wins += [(lo, hi) for lo in (bounds[0], bounds[1]) for hi in offb]
        if quick and len(wins) > 40:
            wins = rng.sample(wins, 40) + [((None, None), (None, None)), ((None, None), (stop, ns)), ((stop, 'off'), (None, None))]
        for (lo, ka), (hi, kb) in wins:
            inp = dict(label, call='get_trace_by_coord', args=[t, lo, hi])
            R.case(('B', fi, 'tw', t, lo, hi), sample=inp)
            f.log.clear()
            got = outcome(lambda: r.get_trace_by_coord(t, lo, hi))
            reads = list(f.log)
            refused = ka == 'off' or kb == 'off'
            i0 = 0 if ka is None else ka
            i1 = ns if kb is None else kb
            R.count('trace window ' + ('off axis' if refused else 'empty' if i0 >= i1 else 'on axis'))
            if refused or i0 >= i1:
                if got != ('E', 'IndexError'):
                    R.violation('oracle', inp, 'an off-axis or empty coordinate window ' + ('returned data' if got[0] == 'R' else f'raised {got[1]}') + ' instead of IndexError')
                elif refused and reads:
                    R.violation('oracle', inp, f'the refused call read from the file first: {reads[:3]}')
            else:
                ok = got[0] == 'R' and bits_equal(got[1], V[ti, tx, i0:i1])
                if not ok:
                    key = None
                    if hi is None and float(zr[-1] + zr[1] - zr[0]) != stop:
                        key = D50
                        if D50 not in R.known:
                            R.known.append(D50)
                    R.count('known finding D50 reproduced' if key else 'window violations')
                    if key is None or R.distribution.get('known finding D50 reproduced', 0) <= 3:     # keep room for alarms
                        R.violation('oracle', inp, ('window differs from the decoded trace' if got[0] == 'R' else f'in-range coordinate window raised {got[1]}'), finding_key=key)
            if model:
                def chkw(s, got=got, t=t):
                    m = parse_outcome(s)
                    pred = outcome(lambda: r.get_trace(t, m[1][0], m[1][1])) if m[0] == 'R' else m
                    return None if same_outcome(got, pred) else f'get_trace_by_coord gives {got[0]} {got[1] if got[0] == "E" else ""}; the model window is {s}'
                pending.append((f'cm_gtbc_window Zops {An} {Hn} {opt(None if lo is None else round(lo * SC))} {opt(None if hi is None else round(hi * SC))}', chkw, inp))
        return r, f
    except Exception:
        r.close()
        raise


def part_b(d):
    cfgs = [  # ilines, xlines, z0, dz, ns, bits, blockshape, exact
        ([10 + 2 * k for k in range(6)], [100 + 3 * k for k in range(5)], -40.0, 4.0, 21, 4, (4, 4, -1), True),
        ([50 - 3 * k for k in range(5)], [7 + 5 * k for k in range(7)], 0.0, 2.0, 13, 8, (4, 4, -1), True),
        ([-8 + 4 * k for k in range(9)], [-20 - k for k in range(4)], -12.5, 0.5, 30, 8, (8, 8, 64), True),
        ([7, 7, 7, 7], [2 ** 31 - 9 + 2 * k for k in range(5)], -6.0, 2.0, 9, 2, (64, 64, 4), True),
        ([3 + k for k in range(5)], [9 - 2 * k for k in range(4)], 0.0, 0.1, 4, 4, (4, 4, -1), False),
        ([3 + k for k in range(4)], [1 + k for k in range(5)], 0.0, 2.1, 7, 4, (4, 4, -1), False),
    ]
    if not quick:
        cfgs += [([-2 ** 31 + 5 * k for k in range(4)], [1, 1, 1], 100.0, 1.0, 40, 8, (16, 16, 16), True),
                 ([1 + k for k in range(4)], [1 + k for k in range(4)], 3.0, 3.3, 40, 4, (4, 4, -1), False),
                 ([1 + k for k in range(4)], [1 + k for k in range(4)], 0.0, 1.1, 12, 4, (4, 4, -1), False)]
        for _ in range(6):                           # random exact axes: any sign / size of the line increments, dyadic samples
            ds, dx = rng.choice([-7, -2, -1, 1, 3, 10, 1000]), rng.choice([-9, -4, -1, 1, 2, 6])
            s0, x0 = rng.randrange(-500, 500), rng.randrange(-500, 500)
            cfgs.append(([s0 + ds * k for k in range(rng.randrange(2, 9))], [x0 + dx * k for k in range(rng.randrange(2, 9))],
                         float(rng.randrange(-80, 80)) + rng.choice([0.0, 0.5, 0.25]), rng.choice([0.25, 0.5, 1.0, 2.0, 4.0, 8.0]), rng.randrange(2, 70),
                         *rng.choice([(4, (4, 4, -1)), (8, (4, 4, -1)), (8, (8, 8, 64)), (2, (64, 64, 4)), (16, (4, 4, -1))]), True))
        for _ in range(4):
            us = rng.randrange(1, 9000)
            cfgs.append(([1 + k for k in range(4)], [1 + k for k in range(4)], float(rng.randrange(-50, 50)), us / 1000.0, rng.randrange(2, 60), 4, (4, 4, -1), False))
    else:
        us = rng.randrange(1, 9000)
        cfgs.append(([1 + k for k in range(4)], [5 - k for k in range(4)], float(rng.randrange(-50, 50)), us / 1000.0, rng.randrange(2, 40), 4, (4, 4, -1), False))
    opened = []
    for fi, c in enumerate(cfgs):
        res = file_case(d, fi, *c)
        if res:
            opened.append(res)
    return opened


def main():
    d = scratch_dir()
    opened = []
    try:
        part_a()
        opened = part_b(d)
        if pending:
            try:
                vals = coq_eval(['SZ.Lib.Py', 'SZ.Gen.Reader', 'SZ.Gen.Coords', 'SZ.Model.Coords'], [t for t, _, _ in pending], preamble=''.join(preamble))
            except CoqEvalError as e:
                R.violation('corr', {'stage': 'coq_eval'}, f'the model could not be evaluated: {str(e)[-600:]}')
                vals = []
            for (term, chk, inp), val in zip(pending, vals):
                R.count('model evaluations')
                try:
                    msg = chk(val)
                except Exception as e:
                    msg = f'cannot compare ({type(e).__name__}: {e}) model value {val}'
                if msg:
                    R.violation('corr', inp, msg + f'   [term: {term[:200]}]')
        elif use_model:
            R.notes.append('no model terms were produced')
    finally:
        for r, f in opened:
            try:
                r.close()
            except Exception:
                pass
        shutil.rmtree(d, ignore_errors=True)
    R.write(a.out)


main()
