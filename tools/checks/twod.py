#!/usr/bin/env python3
"""Harness for C09 (2D lines: trace order, headers and sample fidelity).

Per generated 2D source (SEG-Y without line numbering, or with a single inline / single crossline) and per valid
(1, n, m) blockshape / bit rate >= 1:

 DIRECT ORACLE (never uses the model): trace count and sample axis of the SGZ equal the source's; get_trace(i),
   get_trace(i, lo, hi) for boundary sample windows (and IndexError for windows outside 0 <= lo < hi <= n_samples),
   trace[i] / trace[a:b] of seismic_zfp.open, read_subplane windows (boundary set) equal BIT FOR BIT the 2-D zfpy image
   (whole edge-extended padded-traces x padded-samples array compressed with zfpy at that rate, decompressed, cropped);
   gen_trace_header(i) / header[i] equal the source header i (segyio); every volume-style read raises the
   dimensionality error; rates below 1 bit are refused before anything is written (D13, fixed).
 CORRESPONDENCE (model vs implementation, same inputs):
   * writer: Model/Producer2d.v `written_summary` (GENERATED loop structure of seismic_file_producer_2d /
     io_thread_func_2d + glue) predicts, for every unit position of the data section, which source traces x samples it
     codes; materialised with zfpy and compared with the file's data section byte for byte;
   * header: GENERATED `mh2_writes` vs the integer fields actually in the file;
   * detect_geometry decision table (GENERATED) vs SegyConverter(...).geom;
   * reader: the extracted generated reader (FileUnderTest of corr_reads.py): exception class, shape, provenance
     materialised through zfpy, range reads.
 ASSUMPTION CHECK: the ZFP structural assumption on the compression side in 2-D (whole array = its 4x4 units in C order).
"""
import os, sys, itertools, struct, subprocess
sys.path.insert(0, os.path.dirname(os.path.abspath(__file__)))
from common import *
a = parse_args()
from hz import *
import seismic_zfp
from seismic_zfp.utils import WrongDimensionalityError, Geometry2d
from coqeval import coq_eval, parse_value, CoqEvalError

R = Result('one case = (2D source kind/size/format, blockshape, rate, accessor, argument); non-trivial = distinct case whose '
           'expected outcome is data or headers compared bit for bit (or a dimensionality refusal); sizes run through every residue '
           'of n_traces mod 4 and n_samples mod 4, and below / at / just above / several multiples of blockshape[1] and blockshape[2]')
rng = random.Random(a.seed * 104729 + 9)
quick = (a.tier == 'quick') and not a.search
d = scratch_dir()
F32 = zfpy.dtype_to_ztype(np.dtype('float32'))
TF = segyio.TraceField

# (bits per voxel, blockshape): every valid family -- trace-group width 4 (fast path), 8..1024, sample-block 4..8192
LAYOUTS = [(4, (1, 4, 2048)), (8, (1, 4, -1)), (1, (1, 4, -1)), (16, (1, 4, 512)), (2, (1, 4, -1)), (32, (1, 4, -1)),
           (4, (1, 16, -1)), (8, (1, 8, 512)), (2, (1, 64, 256)), (16, (1, 16, 128)), (4, (1, 256, 32)), (1, (1, 32, 1024)),
           (4, (1, 128, 64)), (8, (1, 1024, 4)), (32, (1, 8, 128)), (2, (1, 16, 1024)), (16, (1, 64, 32)), (1, (1, 512, 64)),
           (4, (1, 8, 1024)), (8, (1, 32, 128))]


def zfp2(arr, rate):
    assert rate >= 1 and arr.ndim == 2, 'zfpy must never see a 2-D array below 1 bit (heap corruption)'
    return zfpy.compress_numpy(np.ascontiguousarray(arr, dtype=np.float32), rate=rate, write_header=False)


def unzfp2(buf, shape, rate):
    assert rate >= 1
    return zfpy._decompress(bytes(buf), F32, tuple(shape), rate=rate)


def padto(n, m):
    return -(-n // m) * m


def axis_sizes(b, k):
    """sizes for an axis with block size b: every residue mod 4, and around the block boundaries"""
    c = [2, 3, 4, 5, 6, 7, 8, 9, 10, 11, b - 3, b - 2, b - 1, b, b + 1, b + 2, b + 3, 2 * b - 1, 2 * b, 2 * b + 1, 3 * b - 2, 2 * b + 5]
    c = sorted({v for v in c if 2 <= v})
    return [rng.choice(c) for _ in range(k)]


def make_source(kind, nt, ns, fmt, dt_us, t0):
    data = rnd_cube(rng, (nt, ns))
    sgy = os.path.join(d, f's{rng.randrange(10 ** 9)}.sgy')
    # every varying field differs between first and last trace (the default header detection compares those two)
    # ... and two fields are the same NON-ZERO constant in every trace (stored in the table, not as arrays)
    extra = lambda t: {TF.SourceX: 7 * t + 3, TF.EnergySourcePoint: 10 + t, TF.GroupY: -5 * t - 1, TF.FieldRecord: 2000 - t,
                       TF.ShotPoint: 77, TF.SourceGroupScalar: -100}
    if kind == '2d':
        mk_segy_2d(sgy, data, dt_us=dt_us, t0=t0, fmt=fmt, hdr=extra)
    elif kind == '2d_off':
        # an un-numbered 2D line whose traces carry distinct OFFSET values (segyio, strict=False, reports 1 inline x 1 crossline x
        # n offsets): still one trace per ordinal
        mk_segy_2d(sgy, data, dt_us=dt_us, t0=t0, fmt=fmt, hdr=lambda t: {**extra(t), TF.offset: 50 + 25 * t})
    elif kind == 'one_il':
        mk_segy(sgy, data.reshape(1, nt, ns), [7], list(range(20, 20 + nt)), dt_us=dt_us, t0=t0, fmt=fmt, hdr=lambda t, i, x: extra(t))
    else:
        mk_segy(sgy, data.reshape(nt, 1, ns), list(range(30, 30 + nt)), [9], dt_us=dt_us, t0=t0, fmt=fmt, hdr=lambda t, i, x: extra(t))
    with segyio.open(sgy, ignore_geometry=True) as f:
        src = np.array(f.trace.raw[:], dtype=np.float32).reshape(nt, ns)
        hdrs = [dict(f.header[i]) for i in range(nt)]
        samples = np.array(f.samples)
        first, last = f.header[0], f.header[nt - 1]
        il0, xl0, il1, xl1 = first[189], first[193], last[189], last[193]
    with segyio.open(sgy, strict=False) as f:
        unstructured = bool(f.unstructured)
        nil = len(f.ilines) if f.ilines is not None else 0
        nxl = len(f.xlines) if f.xlines is not None else 0
    return sgy, src, hdrs, samples, (unstructured, il0, xl0, il1, xl1, nt, nil, nxl)


def windows(nt, ns, bs1, bs2):
    tv = sorted({v for v in (0, 1, 3, 4, 5, bs1 - 1, bs1, bs1 + 1, 2 * bs1 - 1, 2 * bs1, 2 * bs1 + 1, nt // 2, nt - 1, nt) if 0 <= v <= nt})
    zv = sorted({v for v in (0, 1, 3, 4, 5, bs2 - 1, bs2, bs2 + 1, 2 * bs2, ns // 2, ns - 1, ns) if 0 <= v <= ns})
    tp = [(x, y) for x, y in itertools.combinations(tv, 2)]
    zp = [(x, y) for x, y in itertools.combinations(zv, 2)]
    out = [(0, nt, 0, ns)]
    for p in tp:
        out.append(p + rng.choice(zp))
    for p in zp:
        out.append(rng.choice(tp) + p)
    rng.shuffle(out)
    return out[:(14 if quick else 60)] + [(0, nt, 0, ns)]


def trace_windows(nt, ns, bs1, bs2, PZ, k):
    """(trace, lo, hi): boundary windows inside the trace, open-ended ones, and windows that must be refused"""
    zv = sorted({v for v in (0, 1, 3, 4, 5, bs2 - 1, bs2, bs2 + 1, 2 * bs2, ns // 2, ns - 1, ns) if 0 <= v <= ns})
    tv = sorted({v for v in (0, 3, 4, bs1 - 1, bs1, nt // 2, nt - 1) if 0 <= v < nt})
    good = [(lo, hi) for lo, hi in itertools.combinations(zv, 2)] + [(None, ns // 2 + 1), (ns // 2, None), (None, None), (ns - 1, ns), (0, 1)]
    bad = [(0, ns + 1), (ns, ns + 1), (3, 3), (min(5, ns), 2), (-1, 3), (0, PZ + 1), (None, 0), (ns, None), (None, ns + 4), (-ns, None)]
    bad = [w for w in bad if not (0 <= (0 if w[0] is None else w[0]) < (ns if w[1] is None else w[1]) <= ns)]
    rng.shuffle(good)
    out = [(rng.choice(tv),) + w for w in good[:k]] + [(rng.choice(tv),) + w for w in rng.sample(bad, min(len(bad), max(3, k // 3)))]
    return out


pending = []      # writer / header / detect correspondence cases, evaluated in one batch at the end
model = None
if not a.no_model:
    try:
        from corr_reads import FileUnderTest, calls_for
        from modelclient import Model
        model = Model()

        class Fut2(FileUnderTest):
            def oracle(self, method, args):
                sp = self.spec
                if sp.is2d and method == 'get_trace':
                    i, lo, hi = (list(args) + [None, None])[:3]
                    if not 0 <= i < sp.tracecount:
                        return ('err', 'IndexErr')
                    lo = 0 if lo is None else lo
                    hi = sp.n_s if hi is None else hi
                    if not 0 <= lo < hi <= sp.n_s:
                        return ('err', 'IndexErr')
                    return ('val', self.vol[i, lo:hi])
                return FileUnderTest.oracle(self, method, args)
    except Exception as e:
        R.notes.append(f'extracted reader model not available ({type(e).__name__}: {e}): reader correspondence skipped')
        model = None


def vio(kind, inp, detail):
    R.violation(kind, inp, detail)


def run_case(kind, nt, ns, bpv, bs, fmt, dt_us, t0, hd):
    try:
        return run_case_(kind, nt, ns, bpv, bs, fmt, dt_us, t0, hd)
    except Exception as e:
        # an exception escaping from a read of a freshly written, complete file is itself a failure of the property
        import traceback
        R.violation('oracle', {'kind': kind, 'n_traces': nt, 'n_samples': ns, 'format': fmt, 'bpv': bpv, 'blockshape': list(bs), 'header_detection': hd},
                    f'a read of a complete 2D file raised {type(e).__name__}: {e} ({traceback.format_exc().strip().splitlines()[-3].strip()[:120]})')


def run_case_(kind, nt, ns, bpv, bs, fmt, dt_us, t0, hd):
    sgy, src, hdrs, samples, det = make_source(kind, nt, ns, fmt, dt_us, t0)
    p = os.path.join(d, f'g{rng.randrange(10 ** 9)}.sgz')
    label = f'{kind} {nt}x{ns} fmt{fmt} bpv={bpv} bs={bs} hd={hd}'
    inp = {'kind': kind, 'n_traces': nt, 'n_samples': ns, 'format': fmt, 'bpv': bpv, 'blockshape': list(bs), 'dt_us': dt_us, 't0': t0,
           'header_detection': hd}
    with quiet(SegyConverter, sgy) as c:
        geom_is2d = isinstance(c.geom, Geometry2d)
        geom_n = len(c.geom.traces) if geom_is2d else None
        quiet(c.run, p, bits_per_voxel=bpv, blockshape=bs, header_detection=hd)
    sp = SpecFile(p)
    bs1, bs2 = sp.bs[1], sp.bs[2]
    rate = int(sp.rate)
    R.count(f'layout (1,{bs1},{bs2}) rate {rate}')
    R.count(f'n_traces mod 4 = {nt % 4}'); R.count(f'n_samples mod 4 = {ns % 4}')
    R.count('n_traces vs group: ' + ('<' if nt < bs1 else '=' if nt == bs1 else 'multiple' if nt % bs1 == 0 else f'{nt // bs1} groups + rest'))
    R.count('n_samples vs block: ' + ('<' if ns < bs2 else '=' if ns == bs2 else 'multiple' if ns % bs2 == 0 else f'{ns // bs2} blocks + rest'))
    R.count('source ' + kind)
    # ---------------- detection (oracle: a source without line numbering / with one line is a 2D file)
    R.case(label + '|detect', sample={'case': label, 'check': 'detected as 2D'})
    if not geom_is2d or geom_n != nt or not sp.is2d:
        vio('oracle', inp, f'source not converted as a 2D line: geom 2D={geom_is2d} n={geom_n}, blockshape[0]={sp.bs[0]}')
        return
    # ---------------- the 2-D zfpy image of the edge-extended section
    PT, PZ = padto(nt, bs1), padto(ns, bs2)
    ext = np.pad(src, ((0, PT - nt), (0, PZ - ns)), 'edge')
    whole = zfp2(ext, rate)
    image = unzfp2(whole, ext.shape, rate)[:nt, :ns]
    # assumption check: whole-array stream = its 4x4 units in C order
    units = ext.reshape(PT // 4, 4, PZ // 4, 4).transpose(1, 0, 2, 3).reshape(4, -1)
    if zfp2(units, rate) != whole:
        vio('oracle', inp, 'ZFP structural assumption (2-D compression is unit-wise in C order) does not hold for this array')
    # ---------------- reader-level oracle
    r = SgzReader(p)
    try:
        R.case(label + '|counts', sample={'case': label, 'check': 'tracecount, n_samples, sample axis'})
        if r.tracecount != nt or r.n_samples != ns:
            vio('oracle', inp, f'trace count / samples per trace {r.tracecount}/{r.n_samples}, source {nt}/{ns}')
        if not (len(r.zslices) == ns and np.array_equal(np.asarray(r.zslices, dtype=np.float64), samples.astype(np.float64))):
            vio('oracle', inp, f'sample axis differs from the source: {list(r.zslices[:3])}.. vs {list(samples[:3])}..')
        if sp.n_il != 0 or sp.n_xl != 0:
            vio('oracle', inp, f'2D header carries 3D geometry counts n_il={sp.n_il} n_xl={sp.n_xl}')
        idx = list(range(nt)) if nt <= (40 if quick else 200) else sorted(set([0, 1, 3, 4, 5, bs1 - 1, bs1, bs1 + 1, nt - 2, nt - 1] + [rng.randrange(nt) for _ in range(25)]))
        idx = [i for i in idx if 0 <= i < nt]
        for i in idx:
            R.case(f'{label}|get_trace|{i}', sample={'case': label, 'call': 'get_trace', 'args': [i]})
            R.count('get_trace')
            t = r.get_trace(i)
            if not bits_equal(t, image[i]):
                vio('oracle', dict(inp, call='get_trace', args=[i]), f'trace {i} differs from the 2-D zfpy image (max abs diff {float(np.max(np.abs(np.asarray(t, dtype=np.float64) - image[i]))) if np.shape(t) == image[i].shape else "shape"})')
                break
        for i, lo, hi in trace_windows(nt, ns, bs1, bs2, PZ, 10 if quick else 40):
            R.case(f'{label}|get_trace|{i},{lo},{hi}', sample={'case': label, 'call': 'get_trace', 'args': [i, lo, hi]})
            R.count('get_trace window')
            elo, ehi = (0 if lo is None else lo), (ns if hi is None else hi)
            good = 0 <= elo < ehi <= ns
            try:
                t = ('val', np.asarray(r.get_trace(i, lo, hi)))
            except Exception as e:
                t = ('err', exc_class(e))
            if good and not (t[0] == 'val' and bits_equal(t[1], image[i, elo:ehi])):
                vio('oracle', dict(inp, call='get_trace', args=[i, lo, hi]),
                    f'trace window differs from the 2-D zfpy image: got {t[1] if t[0] == "err" else t[1].shape}, expected shape {(ehi - elo,)}')
                break
            if not good and t != ('err', 'IndexErr'):
                vio('oracle', dict(inp, call='get_trace', args=[i, lo, hi]),
                    f'window outside 0 <= lo < hi <= {ns} not refused: {t[1] if t[0] == "err" else t[1].shape}')
                break
        for i in idx:
            R.case(f'{label}|gen_trace_header|{i}', sample={'case': label, 'call': 'gen_trace_header', 'args': [i]})
            R.count('gen_trace_header')
            h = r.gen_trace_header(i)
            bad = [(int(k), int(h[k]), int(hdrs[i][k])) for k in hdrs[i] if int(h[k]) != int(hdrs[i][k])]
            if bad and hd != 'strip':
                vio('oracle', dict(inp, call='gen_trace_header', args=[i]), f'header {i} differs from the source header: (field, sgz, source) {bad[:4]}')
                break
        # header i through the whole-field accessors: one value per trace, in trace order, constant fields included
        for k in sorted(hdrs[0], key=int):
            col = [int(hdrs[t][k]) for t in range(nt)]
            if hd == 'strip':
                col = [0] * nt
            for acc in ('get_tracefield_1d', 'get_tracefield_values'):
                R.count(acc)
                try:
                    got = [int(v) for v in np.asarray(getattr(r, acc)(k)).reshape(-1)]
                except Exception as e:
                    got = exc_class(e)
                if got != col:
                    vio('oracle', dict(inp, call=acc, args=[int(k)]), f'{acc}({int(k)}) is not the source\'s value of that field per trace: {str(got)[:60]} vs {str(col)[:60]}')
                    break
        for w in windows(nt, ns, bs1, bs2):
            R.case(f'{label}|read_subplane|{w}', sample={'case': label, 'call': 'read_subplane', 'args': list(w)})
            R.count('read_subplane')
            v = r.read_subplane(*w)
            if not bits_equal(v, image[w[0]:w[1], w[2]:w[3]]):
                vio('oracle', dict(inp, call='read_subplane', args=list(w)), 'window differs from the 2-D zfpy image')
                break
        for m, args in (('read_inline', (0,)), ('read_crossline', (0,)), ('read_zslice', (0,)), ('read_volume', ()),
                        ('read_subvolume', (0, 1, 0, 1, 0, 1)), ('read_correlated_diagonal', (0,)), ('read_anticorrelated_diagonal', (0,))):
            R.case(f'{label}|{m}', sample={'case': label, 'call': m, 'expected': 'WrongDimensionalityError'})
            R.count('volume-style read')
            try:
                getattr(r, m)(*args)
                got = 'returned'
            except Exception as e:
                got = exc_class(e)
            if got != 'WrongDim':
                vio('oracle', dict(inp, call=m), f'volume-style read on a 2D file: {got}, expected the dimensionality error')
    finally:
        r.close()
    # ---------------- segyio-style interface
    with seismic_zfp.open(p) as f:
        R.case(label + '|open', sample={'case': label, 'check': 'seismic_zfp.open: len(trace), samples, trace[i], header[i]'})
        if len(f.trace) != nt or len(f.header) != nt or f.tracecount != nt or not np.array_equal(np.asarray(f.samples, dtype=np.float64), samples.astype(np.float64)):
            vio('oracle', inp, f'seismic_zfp.open: len(trace)={len(f.trace)} len(header)={len(f.header)} samples differ={not np.array_equal(f.samples, samples)}')
        for i in sorted({0, nt - 1, nt // 2, min(bs1, nt - 1), max(0, min(bs1 - 1, nt - 1))}):
            R.case(f'{label}|trace[]|{i}'); R.count('trace[i]')
            if not bits_equal(f.trace[i], image[i]):
                vio('oracle', dict(inp, call='trace[]', args=[i]), 'trace[i] differs from the 2-D zfpy image'); break
            R.case(f'{label}|header[]|{i}'); R.count('header[i]')
            h = f.header[i]
            if hd != 'strip' and any(int(h[k]) != int(hdrs[i][k]) for k in hdrs[i]):
                vio('oracle', dict(inp, call='header[]', args=[i]), 'header[i] differs from the source header'); break
        lo, hi = sorted(rng.sample(range(0, nt + 1), 2))
        if hi - lo >= 1:
            R.case(f'{label}|trace[{lo}:{hi}]'); R.count('trace[a:b]')
            got = [np.array(t) for t in f.trace[lo:hi]]
            if len(got) != hi - lo or not all(bits_equal(g, image[lo + k]) for k, g in enumerate(got)):
                vio('oracle', dict(inp, call='trace[a:b]', args=[lo, hi]), 'trace slice differs from the 2-D zfpy image (order or values)')
        for nm in ('iline', 'xline', 'depth_slice'):
            R.case(f'{label}|{nm}[]'); R.count('volume-style read')
            try:
                getattr(f, nm)[0]
                got = 'returned'
            except Exception as e:
                got = exc_class(e)
            if got != 'WrongDim':
                vio('oracle', dict(inp, call=nm + '[0]'), f'{got}, expected the dimensionality error')
    # ---------------- reader correspondence (extracted generated reader)
    if model is not None:
        fut = Fut2(p, model)
        try:
            calls = calls_for(rng, fut, 6 if quick else 20)
            calls += [('get_trace', (i, lo, hi)) for i, lo, hi in trace_windows(nt, ns, bs1, bs2, sp.shape_pad[2], 6 if quick else 16)]
            for method, args in calls:
                ok, knd, detail = fut.check(method, args)
                R.case(f'{label}|corr|{method}|{args}', nontrivial=False)
                R.count('reader correspondence')
                if not ok:
                    vio(knd, dict(inp, call=method, args=list(args)), detail)
        finally:
            fut.close()
    # ---------------- writer / header / detect correspondence: deferred to one batched Coq evaluation
    n_units = (PT // 4) * (PZ // 4)
    raw = sp.raw
    fields = {o: struct.unpack('<i' if o == 40 else '<I', raw[o:o + 4])[0] for o in (0, 4, 8, 12, 40, 44, 48, 52, 56, 60, 64, 68, 72)}
    pending.append(dict(inp=inp, label=label, nt=nt, ns=ns, bs1=bs1, bs2=bs2, rate=rate, src=src, data=bytes(sp.data), ub=sp.ub,
                        n_units=n_units, fields=fields, det=det, do_writer=(n_units <= (4500 if quick else 9000))))
    os.remove(p); os.remove(sgy)


def b2c(x):
    return 'true' if x else 'false'


def batch_model():
    if a.no_model or not pending:
        return
    terms, where = [], []
    for k, c in enumerate(pending):
        f = c['fields']
        terms.append(f"mh2_writes {c['ns']} {c['nt']} {c['nt']} {c['rate']} 1 1 {c['bs1']} {c['bs2']} {f[64]} {f[72]}"); where.append((k, 'hdr'))
        u, il0, xl0, il1, xl1, tc, nil, nxl = c['det']
        z = lambda v: f'({v})' if v < 0 else str(v)
        terms.append(f"match detect_geometry {b2c(u)} {z(il0)} {z(xl0)} {z(il1)} {z(xl1)} {tc} {nil} {nxl} with G2d k => k | GIrregular => -1 | G3d _ _ => -2 end"); where.append((k, 'det'))
        terms.append(f"wfp2 {c['nt']} {c['ns']} {c['rate']} {c['bs1']} {c['bs2']}"); where.append((k, 'wfp'))
        if c['do_writer']:
            terms.append(f"written_summary {c['nt']} {c['ns']} {c['bs1']} {c['bs2']}"); where.append((k, 'wr'))
    try:
        vals = coq_eval(['SZ.Gen.Producer2d', 'SZ.Model.Producer2d'], terms, shard=12, jobs=8)
    except CoqEvalError as e:
        R.violation('corr', {'stage': 'coq_eval'}, f'the writer model no longer evaluates: {str(e)[-600:]}')
        return
    for (k, what), v in zip(where, vals):
        c = pending[k]
        inp = c['inp']
        R.count('writer/header correspondence')
        if what == 'hdr':
            w = parse_value(v)
            exp = {int(o): int(x) for o, x in w}
            got = c['fields']
            bad = [(o, exp[o], got[o]) for o in exp if exp[o] != got[o]]
            zero = [(o, got[o]) for o in (8, 12) if got[o] != 0]
            R.case(c['label'] + '|corr|header', nontrivial=False)
            if bad or zero:
                vio('corr', inp, f'header fields: (offset, model, file) {bad[:5]}; 3D count fields not zero {zero}')
        elif what == 'det':
            R.case(c['label'] + '|corr|detect', nontrivial=False)
            if parse_value(v) != c['nt']:
                vio('corr', inp, f'detect_geometry model says {v} for {c["det"]}, implementation chose 2D with {c["nt"]} traces')
        elif what == 'wfp':
            if v.strip() != 'true':
                vio('corr', inp, 'a configuration accepted by the implementation is outside the model\'s parameter guard wfp2')
        else:
            summ = parse_value(v)
            R.case(c['label'] + '|corr|data-section', nontrivial=False)
            R.count('data-section correspondence (units)', len(summ))
            if len(summ) != c['n_units'] or len(c['data']) != c['n_units'] * c['ub']:
                vio('corr', inp, f'data section: model {len(summ)} units, specification {c["n_units"]}, file {len(c["data"])} bytes at {c["ub"]} per unit')
                continue
            src = c['src']
            arr = np.zeros((4, 4 * len(summ)), dtype=np.float32)
            okp = True
            for j, (rows, cols, prod) in enumerate(summ):
                okp = okp and prod
                arr[:, 4 * j:4 * j + 4] = src[np.ix_(rows, cols)]
            if not okp:
                vio('corr', inp, 'model unit is not a (traces x samples) product: summary invalid')
                continue
            expb = zfp2(arr, c['rate'])
            if expb != c['data']:
                ub = c['ub']
                first = next(j for j in range(len(summ)) if expb[j * ub:(j + 1) * ub] != c['data'][j * ub:(j + 1) * ub])
                vio('corr', inp, f'data section differs from the model at unit {first} of {len(summ)} (model: traces {summ[first][0]} samples {summ[first][1]})')


def two_lines():
    """two 2-D lines of the SAME geometry open in one process, read alternately over the same trace / sample ranges: what one
    reader holds (decompression memo, header arrays) must never answer for the other file"""
    for bpv, bs in ((8, (1, 16, -1)), (16, (1, 4, -1))):
        nt, ns = rng.choice([21, 33]), rng.choice([37, 9])
        paths, vols = [], []
        for _ in range(2):
            sgy, src, hdrs, samples, det = make_source('2d', nt, ns, 5, 4000, 0)
            p = os.path.join(d, f'tl{rng.randrange(10 ** 9)}.sgz')
            write_segy_sgz(sgy, p, bpv=bpv, blockshape=bs)
            os.remove(sgy)
            paths.append(p)
            vols.append(SpecFile(p).volume())
        inp = {'kind': 'two 2d lines open together', 'n_traces': nt, 'n_samples': ns, 'bpv': bpv, 'blockshape': list(bs)}
        R.case(f'two-lines {nt}x{ns} {bs}', sample=inp)
        ra, rb = SgzReader(paths[0]), SgzReader(paths[1])
        try:
            wins = [(0, nt, 0, ns), (3, min(nt, 19), 5, min(ns, 30)), (nt - 4, nt, max(0, ns - 7), ns)]
            for k in range(3):
                for which, r in ((0, ra), (1, rb), (0, ra)):
                    V = vols[which]
                    i = [0, nt // 2, nt - 1][k]
                    if not bits_equal(r.get_trace(i), V[i, :ns]):
                        vio('oracle', dict(inp, call=f'line {"AB"[which]}: get_trace({i})'), 'not the decoded trace of its own file (alternating reads of two lines)')
                        return
                    a0, a1, z0, z1 = wins[k]
                    if not bits_equal(r.read_subplane(a0, a1, z0, z1), V[a0:a1, z0:z1]):
                        vio('oracle', dict(inp, call=f'line {"AB"[which]}: read_subplane{(a0, a1, z0, z1)}'), 'not the window of its own section (alternating reads of two lines)')
                        return
        finally:
            ra.close(); rb.close()
            for p in paths:
                os.remove(p)


def refusals():
    """rates below one bit: refused before anything is written (D13 fixed); run in a child so that a regression cannot take the harness down"""
    code = r'''
import sys; sys.path.insert(0, %r)
from hz import *
d = scratch_dir()
try:
    a = rnd_cube(random.Random(3), (9, 13)); s = os.path.join(d, 'a.sgy'); mk_segy_2d(s, a)
    out = []
    for bpv, bs in ((0.5, (1, 16, -1)), (0.25, (1, 4, -1)), (-2, (1, 16, -1))):
        p = os.path.join(d, 'o.sgz')
        try:
            write_segy_sgz(s, p, bpv=bpv, blockshape=bs); out.append('written')
        except Exception as e:
            out.append(type(e).__name__)
    print('RESULT', ' '.join(out))
finally:
    shutil.rmtree(d)
''' % os.path.dirname(os.path.dirname(os.path.abspath(__file__)))
    pr = subprocess.run([sys.executable, '-c', code], stdout=subprocess.PIPE, stderr=subprocess.STDOUT, text=True, timeout=300, env=dict(os.environ))
    line = [l for l in pr.stdout.splitlines() if l.startswith('RESULT')]
    for k in range(3):
        R.case(f'refuse sub-bit rate {k}', sample={'check': '2D conversion below 1 bit per voxel is refused'})
    if pr.returncode != 0 or not line or line[0].split()[1:] != ['ValueError'] * 3:
        R.violation('oracle', {'check': '2D at 1/2, 1/4 bit'}, f'expected ValueError three times, child rc={pr.returncode} said {line or pr.stdout[-300:]}')


try:
    layouts = LAYOUTS if not quick else (LAYOUTS[:4] + rng.sample(LAYOUTS[4:], 6))
    per = 2 if quick else 6
    combos = [(x, y) for x in range(4) for y in range(4)]
    rng.shuffle(combos)
    res4 = itertools.cycle(combos)
    for bpv, bs in layouts:
        bpv_r, bsr = szutils.define_blockshape_2d(bpv, bs)
        bs1, bs2 = bsr[1], bsr[2]
        tsz = axis_sizes(bs1, per)
        zsz = axis_sizes(bs2, per)
        for k in range(per):
            nt, ns = tsz[k], zsz[k]
            # steer the residues mod 4 round-robin so that every class occurs in every run
            rt, rz = next(res4)
            nt += (rt - nt) % 4
            ns += (rz - ns) % 4
            nt, ns = max(nt, 2), max(ns, 2)
            if nt * padto(ns, bs2) > 3_000_000 or padto(nt, bs1) * padto(ns, bs2) > 6_000_000:
                ns = rng.choice([5, 6, 7, 8, bs2 + 1])
            ns += (rz - ns) % 4
            kind = rng.choice(['2d', '2d', '2d', 'one_il', 'one_xl'])
            fmt = rng.choice([5, 5, 1])
            hd = rng.choice(['heuristic', 'heuristic', 'thorough', 'exhaustive'])
            run_case(kind, nt, ns, bpv, bs, fmt, rng.choice([4000, 2000, 1000, 500, 2500]), rng.choice([0, 100, -100, -12]), hd)
    # every residue of n_traces mod blockshape[1] for the small group widths, every residue of n_samples mod 4 (and mod 8 blocks)
    for bs1, bpv, bs in ((4, 8, (1, 4, -1)), (8, 8, (1, 8, 512)), (16, 4, (1, 16, -1))):
        for rres in (range(bs1) if not quick else rng.sample(range(bs1), 4)):
            nt = bs1 * rng.choice([0, 1, 2]) + rres
            if nt < 2:
                nt += bs1
            bs2 = szutils.define_blockshape_2d(bpv, bs)[1][2]
            run_case('2d', nt, rng.choice([2, 3, 5, 9, 12, bs2 + 1, bs2 + 6, 2 * bs2 + 3]), bpv, bs, 5, 4000, 0, 'heuristic')
    for ns in ((3, 4, 5, 6, 7, 8, 9, 10, 11, 12) if not quick else (5, 6, 7, 8)):
        run_case('2d', rng.choice([5, 6, 7, 9]), ns, 8, (1, 1024, 4), 5, 2000, 0, 'heuristic')
    # trace counts whose header arrays are an exact multiple of 512 bytes (footer stride boundary): 128 traces, and one either side
    for nt in ((127, 128, 129) if quick else (127, 128, 129, 255, 256, 257)):
        run_case('2d', nt, rng.choice([5, 9]), 8, (1, 16, -1), 5, 4000, 0, rng.choice(['heuristic', 'thorough']))
    for nt in ((21, 37) if quick else (5, 21, 32, 37, 64)):
        run_case('2d_off', nt, rng.choice([9, 12, 30]), 8, (1, 16, -1), 5, 4000, 0, rng.choice(['heuristic', 'exhaustive']))
    two_lines()
    refusals()
    batch_model()
finally:
    shutil.rmtree(d, ignore_errors=True)
    if model:
        model.close()
R.write(a.out)
